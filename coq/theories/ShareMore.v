(* Further consequences of the sharing lemmas (C18): label-level corollaries. *)
From Coq Require Import List Arith Bool ZArith Lia.
From Verif Require Import Share ShareProofs.
Import ListNotations.

(* every old label of a value lies inside one of its maximal old sub-values *)
Lemma old_label_in_maxold n0 : forall r l,
  In l (labels r) -> l < n0 -> exists s, In s (maxold n0 r) /\ In l (labels s).
Proof.
  induction r as [z | | z | l0 | k l0 xs IH | k l0 kvs IH | c l0 fs IH] using lv_ind'; intros l Hin Hl; simpl in Hin;
    try contradiction.
  - destruct Hin as [-> | []]. simpl. apply Nat.ltb_lt in Hl. rewrite Hl. exists (VOpq l). simpl. auto.
  - simpl. destruct (l0 <? n0) eqn:H0.
    + exists (VSeq k l0 xs). split; [left; reflexivity | exact Hin].
    + apply Nat.ltb_ge in H0. destruct Hin as [-> | Hin]; [lia |].
      apply in_flat_map in Hin. destruct Hin as [x [Hx Hlx]].
      rewrite Forall_forall in IH. destruct (IH x Hx l Hlx Hl) as [s [Hs Hls]].
      exists s. split; [| exact Hls]. apply in_flat_map. exists x. auto.
  - simpl. destruct (l0 <? n0) eqn:H0.
    + exists (VMap k l0 kvs). split; [left; reflexivity | exact Hin].
    + apply Nat.ltb_ge in H0. destruct Hin as [-> | Hin]; [lia |].
      apply in_flat_map in Hin. destruct Hin as [[a b] [Hx Hlx]].
      rewrite Forall_forall in IH. destruct (IH (a, b) Hx) as [IHa IHb]. simpl in IHa, IHb.
      apply in_app_or in Hlx. destruct Hlx as [Hlx | Hlx].
      * destruct (IHa l Hlx Hl) as [s [Hs Hls]]. exists s. split; [| exact Hls].
        apply in_flat_map. exists (a, b). split; [exact Hx | apply in_or_app; left; exact Hs].
      * destruct (IHb l Hlx Hl) as [s [Hs Hls]]. exists s. split; [| exact Hls].
        apply in_flat_map. exists (a, b). split; [exact Hx | apply in_or_app; right; exact Hs].
  - simpl. destruct (l0 <? n0) eqn:H0.
    + exists (VObj c l0 fs). split; [left; reflexivity | exact Hin].
    + apply Nat.ltb_ge in H0. destruct Hin as [-> | Hin]; [lia |].
      apply in_flat_map in Hin. destruct Hin as [x [Hx Hlx]].
      rewrite Forall_forall in IH. destruct (IH x Hx l Hlx Hl) as [s [Hs Hls]].
      exists s. split; [| exact Hls]. apply in_flat_map. exists x. auto.
Qed.

Lemma maxold_nil_all_fresh n0 r : maxold n0 r = [] -> forall l, In l (labels r) -> n0 <= l.
Proof.
  intros H l Hin. destruct (Nat.lt_ge_cases l n0) as [Hl | Hl]; [| exact Hl].
  destruct (old_label_in_maxold n0 r l Hin Hl) as [s [Hs _]]. rewrite H in Hs. contradiction.
Qed.

(* ------------------------------------------------------------------ *)
(* sub-values *)
Fixpoint subvalues (v: lv) : list lv :=
  v :: match v with
       | VSeq _ _ xs => flat_map subvalues xs
       | VMap _ _ kvs => flat_map (fun kv => match kv with (k, x) => subvalues k ++ subvalues x end) kvs
       | VObj _ _ fs => flat_map subvalues fs
       | _ => [] end.

Lemma subvalues_self v : In v (subvalues v).
Proof. destruct v; simpl; auto. Qed.

Lemma in_root v s : In s (root v) -> s = v.
Proof. destruct v; simpl; intros H; try contradiction; destruct H as [H | []]; auto. Qed.

Lemma in_zip_app {A B C} (g: A -> B -> list C) ts xs s :
  In s (zip_app g ts xs) -> exists x t, In x xs /\ In s (g x t).
Proof.
  revert ts. induction xs as [| x r IH]; intros ts H; destruct ts as [| t ts]; simpl in H; try contradiction.
  apply in_app_or in H. destruct H as [H | H].
  - exists x, t. split; [left; reflexivity | exact H].
  - destruct (IH ts H) as [x' [t' [Hx Hs]]]. exists x', t'. split; [right; exact Hx | exact Hs].
Qed.

Lemma pick_nil {A B} (m: A -> bool) (f: A -> list B) (p: A -> bool) us :
  Forall (fun t => p t = true -> f t = []) us -> forallb p us = true -> pick m f [] us = [].
Proof.
  induction 1 as [| t r Ht Hr IH]; intros Hp; simpl in *; [reflexivity |].
  apply andb_prop in Hp. destruct Hp as [Hp1 Hp2]. destruct (m t); [now apply Ht | now apply IH].
Qed.

Lemma pick_in {A B} (m: A -> bool) (f: A -> list B) (Q: B -> Prop) us s :
  Forall (fun t => forall s, In s (f t) -> Q s) us -> In s (pick m f [] us) -> Q s.
Proof.
  induction 1 as [| t r Ht Hr IH]; simpl; intros Hs; [contradiction |].
  destruct (m t); [now apply Ht | now apply IH].
Qed.

Lemma pick_ext {A B} (m: A -> bool) (f g: A -> B) (p: A -> bool) (d: B) us :
  Forall (fun t => p t = true -> f t = g t) us -> forallb p us = true -> pick m f d us = pick m g d us.
Proof.
  induction 1 as [| t r Ht Hr IH]; intros Hp; simpl in *; [reflexivity |].
  apply andb_prop in Hp. destruct Hp as [Hp1 Hp2]. destruct (m t); [now apply Ht | now apply IH].
Qed.

Section Sub.
  Variable E : env.
  Variable cf : list origin -> ty -> bool.

  (* whatever the property lets through by reference is a sub-value of the argument *)
  Lemma byref_sub : forall v call N hsup t s,
    In s (byref E cf v call N hsup t) -> In s (subvalues v).
  Proof.
    induction v as [z | | z | l | k l xs IH | k l kvs IH | c l fs IH] using lv_ind';
      intros call N hsup t; induction t as [| lk | | | t' IHt | o t' IHt | t' IHt | ts IHts | o kt IHk vt IHv | c0 | tw IHw | us IHus | | | dd | kk tc IHc | rk IHrk rv IHrv | rs IHrs] using ty_ind';
      intros s Hs; try (apply IHw; exact Hs; fail);
      try (rewrite byref_union in Hs; revert Hs; apply pick_in with (Q := fun s => In s (subvalues _)); exact IHus);
      simpl in Hs; try contradiction;
      try (apply in_root in Hs; subst s; apply subvalues_self; fail);
      try (apply IHt; exact Hs; fail);
      try (destruct Hs as [Hs | []]; subst s; apply subvalues_self; fail).
    - (* TSeq *)
      destruct (inN N o && cf N t').
      + destruct Hs as [<- | []]. apply subvalues_self.
      + apply in_flat_map in Hs. destruct Hs as [x [Hx Hs]]. rewrite Forall_forall in IH.
        simpl. right. apply in_flat_map. exists x. split; [exact Hx | eapply IH; eauto].
    - (* TTupV *)
      apply in_flat_map in Hs. destruct Hs as [x [Hx Hs]]. rewrite Forall_forall in IH.
      simpl. right. apply in_flat_map. exists x. split; [exact Hx | eapply IH; eauto].
    - (* TTup *)
      apply in_zip_app in Hs. destruct Hs as [x [t [Hx Hs]]]. rewrite Forall_forall in IH.
      simpl. right. apply in_flat_map. exists x. split; [exact Hx | eapply IH; eauto].
    - (* TComp *)
      apply in_flat_map in Hs. destruct Hs as [x [Hx Hs]]. rewrite Forall_forall in IH.
      simpl. right. apply in_flat_map. exists x. split; [exact Hx | eapply IH; eauto].
    - (* TMap *)
      destruct (inN N o && cf N kt && cf N vt).
      + destruct Hs as [<- | []]. apply subvalues_self.
      + apply in_flat_map in Hs. destruct Hs as [[a b] [Hx Hs]]. rewrite Forall_forall in IH.
        destruct (IH (a, b) Hx) as [IHa IHb]. simpl in IHa, IHb.
        simpl. right. apply in_flat_map. exists (a, b). split; [exact Hx |].
        apply in_app_or in Hs. apply in_or_app. destruct Hs as [Hs | Hs]; [left; eapply IHa | right; eapply IHb]; eauto.
    - (* TRMap *)
      apply in_flat_map in Hs. destruct Hs as [[a b] [Hx Hs]]. rewrite Forall_forall in IH.
      destruct (IH (a, b) Hx) as [IHa IHb]. simpl in IHa, IHb.
      simpl. right. apply in_flat_map. exists (a, b). split; [exact Hx |].
      apply in_app_or in Hs. apply in_or_app. destruct Hs as [Hs | Hs]; [left; eapply IHa | right; eapply IHb]; eauto.
    - (* TRec *)
      apply in_zip_app in Hs. destruct Hs as [[a b] [t [Hx Hs]]]. rewrite Forall_forall in IH.
      destruct (IH (a, b) Hx) as [IHa IHb]. simpl in IHa, IHb.
      simpl. right. apply in_flat_map. exists (a, b). split; [exact Hx |]. apply in_or_app. right. eapply IHb; eauto.
    - (* TDC *)
      apply in_zip_app in Hs. destruct Hs as [x [t [Hx Hs]]]. rewrite Forall_forall in IH.
      simpl. right. apply in_flat_map. exists x. split; [exact Hx | eapply IH; eauto].
  Qed.
End Sub.

(* an old label never comes with altered content: every old-labelled node of the result
   is, as a whole, a sub-value of the argument *)
Lemma pack_no_mutation E n0 call Ntop t v :
  conforms E v t = true -> udet E v call Ntop true t = true -> all_old n0 v = true ->
  forall s, In s (maxold n0 (fst (pack_top E call Ntop t v n0))) -> In s (subvalues v).
Proof.
  intros Hc Hu Ho s Hs. pose proof (pack_top_share E n0 call Ntop t v Hc Hu Ho) as H.
  destruct (pack_top E call Ntop t v n0) as [r n1]. destruct H as [H _]. simpl in Hs. rewrite H in Hs.
  eapply byref_sub; eauto.
Qed.

(* ------------------------------------------------------------------ *)
(* default dialect: nothing but Any / pass_through positions is shared *)
Fixpoint anyfree (t: ty) : bool :=
  match t with
  | TAny | TPass => false
  | TAtom | TLeaf _ | TDC _ => true
  | TOpt t' | TSeq _ t' | TTupV t' => anyfree t'
  | TTup ts => forallb anyfree ts
  | TMap _ kt vt => anyfree kt && anyfree vt
  | TWrap t' => anyfree t'
  | TUnion ts => forallb anyfree ts
  | TNone | TLit | TAbsent _ => true
  | TComp _ t' => anyfree t'
  | TRMap kt vt => anyfree kt && anyfree vt
  | TRec ts => forallb anyfree ts
  end.

Definition default_env (E: env) : Prop :=
  E.(e_fmt) = None /\ forall c, (E.(e_ct) c).(c_nc) = None.
Definition anyfree_env (E: env) : Prop :=
  forall c, forallb anyfree (E.(e_ct) c).(c_fields) = true.

Lemma flat_map_nil {A B} (g: A -> list B) xs : Forall (fun x => g x = []) xs -> flat_map g xs = [].
Proof. induction 1 as [| x r Hx Hr IH]; simpl; [reflexivity | now rewrite Hx, IH]. Qed.

Lemma zip_app_nil {A B C} (g: A -> B -> list C) (p: B -> bool) xs :
  Forall (fun x => forall t, p t = true -> g x t = []) xs ->
  forall ts, forallb p ts = true -> zip_app g ts xs = [].
Proof.
  induction 1 as [| x r Hx Hr IH]; intros ts Hp; destruct ts as [| t ts]; simpl in *; try reflexivity.
  apply andb_prop in Hp. destruct Hp as [Hp1 Hp2]. now rewrite (Hx t Hp1), (IH ts Hp2).
Qed.

Section Default.
  Variable E : env.
  Variable cf : list origin -> ty -> bool.
  Hypothesis Hdef : default_env E.
  Hypothesis Hany : anyfree_env E.

  Lemma byref_default_nil : forall v hsup t,
    anyfree t = true -> byref E cf v None [] hsup t = [].
  Proof.
    induction v as [z | | z | l | k l xs IH | k l kvs IH | c l fs IH] using lv_ind';
      intros hsup t; induction t as [| lk | | | t' IHt | o t' IHt | t' IHt | ts IHts | o kt IHk vt IHv | c0 | tw IHw | us IHus | | | dd | kk tc IHc | rk IHrk rv IHrv | rs IHrs] using ty_ind';
      intros Ha; try (apply IHw; exact Ha; fail); simpl in Ha; try discriminate Ha;
      try (rewrite byref_union; apply pick_nil with (p := anyfree); [exact IHus | exact Ha]; fail);
      try reflexivity;
      try (simpl; apply IHt; exact Ha; fail).
    - simpl. apply flat_map_nil. eapply Forall_impl; [| exact IH]. intros x Hx. apply Hx. exact Ha.
    - simpl. apply flat_map_nil. eapply Forall_impl; [| exact IH]. intros x Hx. apply Hx. exact Ha.
    - simpl. apply zip_app_nil with (p := anyfree); [| exact Ha].
      eapply Forall_impl; [| exact IH]. intros x Hx t Ht. apply Hx. exact Ht.
    - simpl. apply flat_map_nil. eapply Forall_impl; [| exact IH]. intros x Hx. apply Hx. exact Ha.
    - simpl. apply andb_prop in Ha. destruct Ha as [Hk Hv]. apply flat_map_nil.
      eapply Forall_impl; [| exact IH]. intros [a b] [Hx1 Hx2]. simpl in *. now rewrite Hx1, Hx2.
    - simpl. apply andb_prop in Ha. destruct Ha as [Hk Hv]. apply flat_map_nil.
      eapply Forall_impl; [| exact IH]. intros [a b] [Hx1 Hx2]. simpl in *. now rewrite Hx1, Hx2.
    - simpl. apply zip_app_nil with (p := anyfree); [| exact Ha].
      eapply Forall_impl; [| exact IH]. intros [a b] [Hx1 Hx2] t Ht. simpl in *. apply Hx2. exact Ht.
    - simpl. destruct Hdef as [Hf Hn].
      assert (Hc: (if hsup && c_sup (e_ct E c0) then @None dialect else None) = None) by (destruct (hsup && c_sup (e_ct E c0)); reflexivity).
      rewrite Hc. unfold effN, first_nc. rewrite Hn, Hf.
      apply zip_app_nil with (p := anyfree); [| apply Hany].
      eapply Forall_impl; [| exact IH]. intros x Hx t Ht. apply Hx. exact Ht.
  Qed.
End Default.

Lemma pack_default_fresh E n0 t v :
  default_env E -> anyfree_env E -> anyfree t = true ->
  conforms E v t = true -> udet E v None [] true t = true -> all_old n0 v = true ->
  forall l, In l (labels (fst (pack_top E None [] t v n0))) -> n0 <= l.
Proof.
  intros Hd Ha Ht Hc Hu Ho. pose proof (pack_top_share E n0 None [] t v Hc Hu Ho) as H.
  destruct (pack_top E None [] t v n0) as [r n1]. destruct H as [H _]. simpl.
  apply maxold_nil_all_fresh. rewrite H. apply byref_default_nil; auto.
Qed.

Section DefaultUnpack.
  Variable E : env.
  Hypothesis Hany : anyfree_env E.

  Lemma anyref_anyfree_nil : forall w t, anyfree t = true -> anyref E w t = [].
  Proof.
    induction w as [z | | z | l | k l xs IH | k l kvs IH | c l fs IH] using lv_ind';
      intros t; induction t as [| lk | | | t' IHt | o t' IHt | t' IHt | ts IHts | o kt IHk vt IHv | c0 | tw IHw | us IHus | | | dd | kk tc IHc | rk IHrk rv IHrv | rs IHrs] using ty_ind';
      intros Ha; try (apply IHw; exact Ha; fail); simpl in Ha; try discriminate Ha;
      try (rewrite anyref_union; apply pick_nil with (p := anyfree); [exact IHus | exact Ha]; fail);
      try reflexivity;
      try (simpl; apply IHt; exact Ha; fail).
    - simpl. apply flat_map_nil. eapply Forall_impl; [| exact IH]. intros x Hx. apply Hx. exact Ha.
    - simpl. apply flat_map_nil. eapply Forall_impl; [| exact IH]. intros x Hx. apply Hx. exact Ha.
    - simpl. apply zip_app_nil with (p := anyfree); [| exact Ha].
      eapply Forall_impl; [| exact IH]. intros x Hx t Ht. apply Hx. exact Ht.
    - simpl. apply flat_map_nil. eapply Forall_impl; [| exact IH]. intros x Hx. apply Hx. exact Ha.
    - simpl. apply andb_prop in Ha. destruct Ha as [Hk Hv]. apply flat_map_nil.
      eapply Forall_impl; [| exact IH]. intros [a b] [Hx1 Hx2]. simpl in *. now rewrite Hx1, Hx2.
    - simpl. apply zip_app_nil with (p := anyfree); [| apply Hany].
      eapply Forall_impl; [| exact IH]. intros [a b] [Hx1 Hx2] t Ht. simpl in *. apply Hx2. exact Ht.
    - simpl. apply andb_prop in Ha. destruct Ha as [Hk Hv]. apply flat_map_nil.
      eapply Forall_impl; [| exact IH]. intros [a b] [Hx1 Hx2]. simpl in *. now rewrite Hx1, Hx2.
    - simpl. apply zip_app_nil with (p := anyfree); [| exact Ha].
      eapply Forall_impl; [| exact IH]. intros [a b] [Hx1 Hx2] t Ht. simpl in *. apply Hx2. exact Ht.
  Qed.
End DefaultUnpack.

Lemma unpack_all_fresh E n0 t w :
  anyfree_env E -> anyfree t = true ->
  wconforms E w t = true -> all_old n0 w = true ->
  forall l, In l (labels (fst (unpack_top E t w n0))) -> n0 <= l.
Proof.
  intros Ha Ht Hc Ho. pose proof (unpack_top_fresh E n0 t w Hc Ho) as H.
  destruct (unpack_top E t w n0) as [r n1]. destruct H as [H _]. simpl.
  apply maxold_nil_all_fresh. rewrite H. apply anyref_anyfree_nil; auto.
Qed.

(* decode: an old-labelled node of the result is a sub-value of the input *)
Lemma anyref_sub E : forall w t s, In s (anyref E w t) -> In s (subvalues w).
Proof.
  induction w as [z | | z | l | k l xs IH | k l kvs IH | c l fs IH] using lv_ind';
    intros t; induction t as [| lk | | | t' IHt | o t' IHt | t' IHt | ts IHts | o kt IHk vt IHv | c0 | tw IHw | us IHus | | | dd | kk tc IHc | rk IHrk rv IHrv | rs IHrs] using ty_ind';
    intros s Hs; try (apply IHw; exact Hs; fail);
    try (rewrite anyref_union in Hs; revert Hs; apply pick_in with (Q := fun s => In s (subvalues _)); exact IHus);
    simpl in Hs; try contradiction;
    try (apply in_root in Hs; subst s; apply subvalues_self; fail);
    try (apply IHt; exact Hs; fail);
    try (destruct Hs as [Hs | []]; subst s; apply subvalues_self; fail).
  - apply in_flat_map in Hs. destruct Hs as [x [Hx Hs]]. rewrite Forall_forall in IH.
    simpl. right. apply in_flat_map. exists x. split; [exact Hx | eapply IH; eauto].
  - apply in_flat_map in Hs. destruct Hs as [x [Hx Hs]]. rewrite Forall_forall in IH.
    simpl. right. apply in_flat_map. exists x. split; [exact Hx | eapply IH; eauto].
  - apply in_zip_app in Hs. destruct Hs as [x [t [Hx Hs]]]. rewrite Forall_forall in IH.
    simpl. right. apply in_flat_map. exists x. split; [exact Hx | eapply IH; eauto].
  - apply in_flat_map in Hs. destruct Hs as [x [Hx Hs]]. rewrite Forall_forall in IH.
    simpl. right. apply in_flat_map. exists x. split; [exact Hx | eapply IH; eauto].
  - apply in_flat_map in Hs. destruct Hs as [[a b] [Hx Hs]]. rewrite Forall_forall in IH.
    destruct (IH (a, b) Hx) as [IHa IHb]. simpl in IHa, IHb.
    simpl. right. apply in_flat_map. exists (a, b). split; [exact Hx |].
    apply in_app_or in Hs. apply in_or_app. destruct Hs as [Hs | Hs]; [left; eapply IHa | right; eapply IHb]; eauto.
  - apply in_zip_app in Hs. destruct Hs as [[a b] [t [Hx Hs]]]. rewrite Forall_forall in IH.
    destruct (IH (a, b) Hx) as [IHa IHb]. simpl in IHa, IHb.
    simpl. right. apply in_flat_map. exists (a, b). split; [exact Hx |].
    apply in_or_app. right. eapply IHb; eauto.
  - apply in_flat_map in Hs. destruct Hs as [[a b] [Hx Hs]]. rewrite Forall_forall in IH.
    destruct (IH (a, b) Hx) as [IHa IHb]. simpl in IHa, IHb.
    simpl. right. apply in_flat_map. exists (a, b). split; [exact Hx |].
    apply in_app_or in Hs. apply in_or_app. destruct Hs as [Hs | Hs]; [left; eapply IHa | right; eapply IHb]; eauto.
  - apply in_zip_app in Hs. destruct Hs as [[a b] [t [Hx Hs]]]. rewrite Forall_forall in IH.
    destruct (IH (a, b) Hx) as [IHa IHb]. simpl in IHa, IHb.
    simpl. right. apply in_flat_map. exists (a, b). split; [exact Hx |].
    apply in_or_app. right. eapply IHb; eauto.
Qed.

Lemma unpack_no_mutation E n0 t w :
  wconforms E w t = true -> all_old n0 w = true ->
  forall s, In s (maxold n0 (fst (unpack_top E t w n0))) -> In s (subvalues w).
Proof.
  intros Hc Ho s Hs. pose proof (unpack_top_fresh E n0 t w Hc Ho) as H.
  destruct (unpack_top E t w n0) as [r n1]. destruct H as [H _]. simpl in Hs. rewrite H in Hs.
  eapply anyref_sub; eauto.
Qed.

(* ------------------------------------------------------------------ *)
(* the semantic reading of "conversion free" coincides with the generator's test on
   schemas without Optional: there the full statement holds *)
Fixpoint optfree (t: ty) : bool :=
  match t with
  | TOpt _ => false
  | TAtom | TLeaf _ | TAny | TPass | TDC _ => true
  | TSeq _ t' | TTupV t' => optfree t'
  | TTup ts => forallb optfree ts
  | TMap _ kt vt => optfree kt && optfree vt
  | TWrap t' => optfree t'
  | TUnion ts => forallb optfree ts
  | TNone | TAbsent _ => true
  | TLit => false          (* like Optional: the packer is not the bare name although no conversion is needed *)
  | TComp _ t' => optfree t'
  | TRMap kt vt => optfree kt && optfree vt
  | TRec ts => forallb optfree ts
  end.
Definition optfree_env (E: env) : Prop := forall c, forallb optfree (E.(e_ct) c).(c_fields) = true.

Lemma ident_conv_free E N t : optfree t = true -> ident E N t = conv_free E N t.
Proof.
  unfold ident. induction t as [| k | | | t IHt | o t IHt | t IHt | ts IHts | o t1 IHt1 t2 IHt2 | c0 | tw IHw | us IHus | | | dd | kk tc IHc | rk IHrk rv IHrv | rs IHrs] using ty_ind';
    intros H; simpl in H; try discriminate H; simpl; try reflexivity; try (apply IHw; exact H; fail).
  - destruct (e_lp E k); destruct k; reflexivity.
  - unfold seq_expr. rewrite <- (IHt H). destruct (is_id (cp E N false t)).
    + destruct (inN N o); [reflexivity |]. destruct (origin_eqb o OList); reflexivity.
    + now rewrite andb_false_r.
  - apply andb_prop in H. destruct H as [H1 H2]. unfold map_expr. rewrite <- (IHt1 H1), <- (IHt2 H2).
    destruct (is_id (cp E N false t1)); destruct (is_id (cp E N false t2)); simpl;
      try (now rewrite ?andb_false_r).
    destruct (inN N o); [reflexivity |]. destruct (origin_eqb o ODict); reflexivity.
  - assert (Hf: forallb is_id (map (cp E N false) us) = forallb (conv_free E N) us).
    { induction IHus as [| x r Hx Hr IHr]; simpl in *; [reflexivity |].
      apply andb_prop in H. destruct H as [H1 H2]. now rewrite (Hx H1), (IHr H2). }
    rewrite Hf. destruct (forallb (conv_free E N) us); reflexivity.
Qed.

Lemma flat_map_ext_Forall {A B} (g h: A -> list B) xs : Forall (fun x => g x = h x) xs -> flat_map g xs = flat_map h xs.
Proof. induction 1 as [| x r Hx Hr IH]; simpl; [reflexivity | now rewrite Hx, IH]. Qed.

Lemma zip_app_ext {A B C} (g h: A -> B -> list C) (p: B -> bool) xs :
  Forall (fun x => forall t, p t = true -> g x t = h x t) xs ->
  forall ts, forallb p ts = true -> zip_app g ts xs = zip_app h ts xs.
Proof.
  induction 1 as [| x r Hx Hr IH]; intros ts Hp; destruct ts as [| t ts]; simpl in *; try reflexivity.
  apply andb_prop in Hp. destruct Hp as [Hp1 Hp2]. now rewrite (Hx t Hp1), (IH ts Hp2).
Qed.

Section OptFree.
  Variable E : env.
  Hypothesis Hof : optfree_env E.

  Lemma byref_optfree : forall v call N hsup t,
    optfree t = true -> byref E (ident E) v call N hsup t = byref E (conv_free E) v call N hsup t.
  Proof.
    induction v as [z | | z | l | k l xs IH | k l kvs IH | c l fs IH] using lv_ind';
      intros call N hsup t; induction t as [| lk | | | t' IHt | o t' IHt | t' IHt | ts IHts | o kt IHk vt IHv | c0 | tw IHw | us IHus | | | dd | kk tc IHc | rk IHrk rv IHrv | rs IHrs] using ty_ind';
      intros Ha; try (apply IHw; exact Ha; fail); simpl in Ha; try discriminate Ha;
      try (rewrite !byref_union; apply pick_ext with (p := optfree); [exact IHus | exact Ha]; fail);
      try reflexivity.
    - simpl. rewrite (ident_conv_free E N t' Ha). destruct (inN N o && conv_free E N t'); [reflexivity |].
      apply flat_map_ext_Forall. eapply Forall_impl; [| exact IH]. intros x Hx. apply Hx. exact Ha.
    - simpl. apply flat_map_ext_Forall. eapply Forall_impl; [| exact IH]. intros x Hx. apply Hx. exact Ha.
    - simpl. apply zip_app_ext with (p := optfree); [| exact Ha].
      eapply Forall_impl; [| exact IH]. intros x Hx t Ht. apply Hx. exact Ht.
    - (* TComp *)
      simpl. apply flat_map_ext_Forall. eapply Forall_impl; [| exact IH]. intros x Hx. apply Hx. exact Ha.
    - simpl. apply andb_prop in Ha. destruct Ha as [Hk Hv].
      rewrite (ident_conv_free E N kt Hk), (ident_conv_free E N vt Hv).
      destruct (inN N o && conv_free E N kt && conv_free E N vt); [reflexivity |].
      apply flat_map_ext_Forall. eapply Forall_impl; [| exact IH]. intros [a b] [Hx1 Hx2]. simpl in *.
      now rewrite Hx1, Hx2.
    - (* TRMap *)
      simpl. apply andb_prop in Ha. destruct Ha as [Hk Hv].
      apply flat_map_ext_Forall. eapply Forall_impl; [| exact IH]. intros [a b] [Hx1 Hx2]. simpl in *.
      now rewrite Hx1, Hx2.
    - (* TRec *)
      simpl. apply zip_app_ext with (p := optfree); [| exact Ha].
      eapply Forall_impl; [| exact IH]. intros [a b] [Hx1 Hx2] t Ht. simpl in *. apply Hx2. exact Ht.
    - simpl. apply zip_app_ext with (p := optfree); [| apply Hof].
      eapply Forall_impl; [| exact IH]. intros x Hx t Ht. apply Hx. exact Ht.
  Qed.
End OptFree.

Lemma pack_share_partial E n0 call Ntop t v :
  optfree_env E -> optfree t = true ->
  conforms E v t = true -> udet E v call Ntop true t = true -> all_old n0 v = true ->
  let (r, n1) := pack_top E call Ntop t v n0 in
  maxold n0 r = byref E (conv_free E) v call Ntop true t /\ n0 <= n1.
Proof.
  intros He Ht Hc Hu Ho. pose proof (pack_top_share E n0 call Ntop t v Hc Hu Ho) as H.
  destruct (pack_top E call Ntop t v n0) as [r n1]. destruct H as [H1 H2].
  split; [| exact H2]. rewrite H1. apply byref_optfree; auto.
Qed.

(* ------------------------------------------------------------------ *)
(* the decode side does not look at any dialect: only the field types of the class table matter *)
Definition fields_agree (E E': env) : Prop :=
  forall c, (E.(e_ct) c).(c_fields) = (E'.(e_ct) c).(c_fields).

Lemma map_st_ext {A B} (f g: A -> nat -> B * nat) xs :
  Forall (fun x => forall n, f x n = g x n) xs -> forall n, map_st f xs n = map_st g xs n.
Proof.
  induction 1 as [| x r Hx Hr IH]; intros n; simpl; [reflexivity |].
  rewrite Hx. destruct (g x n) as [y n1]. now rewrite IH.
Qed.

Lemma zip_st_ext {A B C} (f g: A -> B -> nat -> C * nat) xs :
  Forall (fun x => forall e n, f x e n = g x e n) xs -> forall es n, zip_st f es xs n = zip_st g es xs n.
Proof.
  induction 1 as [| x r Hx Hr IH]; intros es n; destruct es as [| e es]; simpl; try reflexivity.
  rewrite Hx. destruct (g x e n) as [y n1]. now rewrite IH.
Qed.

Section DecodeDialect.
  Variables E E' : env.
  Hypothesis Hag : fields_agree E E'.

  Lemma run_unpack_dialect_free : forall w t n, run_unpack E w (cu t) n = run_unpack E' w (cu t) n.
  Proof.
    induction w as [z | | z | l | k l xs IH | k l kvs IH | c l fs IH] using lv_ind';
      intros t; induction t as [| lk | | | t' IHt | o t' IHt | t' IHt | ts IHts | o kt IHk vt IHv | c0 | tw IHw | us IHus | | | dd | kk tc IHc | rk IHrk rv IHrv | rs IHrs] using ty_ind';
      intros n; try reflexivity; try (apply IHw; fail);
      try (cbn [cu]; rewrite !ru_opt; first [reflexivity | apply IHt]; fail);
      try (cbn [cu]; rewrite !ru_union;
           induction IHus as [| t r Ht Hr IHr]; simpl; [reflexivity |];
           destruct (cls_fits (tcls t) _); [apply Ht | apply IHr]; fail).
    - simpl. rewrite (map_st_ext (fun x => run_unpack E x (cu t')) (fun x => run_unpack E' x (cu t')) xs); [reflexivity |].
      eapply Forall_impl; [| exact IH]. intros x Hx m. apply Hx.
    - simpl. rewrite (map_st_ext (fun x => run_unpack E x (cu t')) (fun x => run_unpack E' x (cu t')) xs); [reflexivity |].
      eapply Forall_impl; [| exact IH]. intros x Hx m. apply Hx.
    - simpl.
      assert (Hz: forall E0 m, zip_st (fun x e' => run_unpack E0 x e') (map cu ts) xs m
                         = zip_st (fun x t => run_unpack E0 x (cu t)) ts xs m).
      { clear. intros E0. revert ts. induction xs as [| x r IHr]; intros ts m; destruct ts as [| t ts]; simpl; try reflexivity.
        destruct (run_unpack E0 x (cu t) m) as [y m1]. now rewrite IHr. }
      rewrite !Hz.
      rewrite (zip_st_ext (fun x t => run_unpack E x (cu t)) (fun x t => run_unpack E' x (cu t)) xs); [reflexivity |].
      eapply Forall_impl; [| exact IH]. intros x Hx e m. apply Hx.
    - (* TComp *)
      simpl. rewrite (map_st_ext (fun x => run_unpack E x (cu tc)) (fun x => run_unpack E' x (cu tc)) xs); [reflexivity |].
      eapply Forall_impl; [| exact IH]. intros x Hx m. apply Hx.
    - simpl.
      match goal with |- (let (ys, n') := map_st ?f kvs ?m in _) = (let (ys, n') := map_st ?g kvs ?m in _) =>
        rewrite (map_st_ext f g kvs) end; [reflexivity |].
      eapply Forall_impl; [| exact IH]. intros [k0 x] [Hk Hx] m. simpl in *.
      rewrite Hk. destruct (run_unpack E' k0 (cu kt) m) as [k' m1]. rewrite Hx. reflexivity.
    - simpl. rewrite <- (Hag c0).
      match goal with |- (let (ys, n') := zip_st ?f ?ts kvs ?m in _) = (let (ys, n') := zip_st ?g ?ts kvs ?m in _) =>
        rewrite (zip_st_ext f g kvs) end; [reflexivity |].
      eapply Forall_impl; [| exact IH]. intros [k0 x] [Hk Hx] e m. simpl in *. apply Hx.
    - (* TRMap *)
      simpl.
      match goal with |- (let (ys, n') := map_st ?f kvs ?m in _) = (let (ys, n') := map_st ?g kvs ?m in _) =>
        rewrite (map_st_ext f g kvs) end; [reflexivity |].
      eapply Forall_impl; [| exact IH]. intros [k0 x] [Hk Hx] m. simpl in *.
      rewrite Hk. destruct (run_unpack E' k0 (cu rk) m) as [k' m1]. rewrite Hx. reflexivity.
    - (* TRec *)
      simpl.
      assert (Hz: forall E0 m,
                 zip_st (fun (kv: lv * lv) e' m => let (k0, x) := kv in
                           let (y0, m1) := run_unpack E0 x e' m in ((k0, y0), m1)) (map cu rs) kvs m
                 = zip_st (fun (kv: lv * lv) t m => let (k0, x) := kv in
                           let (y0, m1) := run_unpack E0 x (cu t) m in ((k0, y0), m1)) rs kvs m).
      { clear. intros E0. revert rs. induction kvs as [| [k0 x] r IHr]; intros rs m; destruct rs as [| t ts]; simpl; try reflexivity.
        destruct (run_unpack E0 x (cu t) m) as [y m1]. now rewrite IHr. }
      rewrite !Hz.
      match goal with |- (let (ys, n') := zip_st ?f rs kvs ?m in _) = (let (ys, n') := zip_st ?g rs kvs ?m in _) =>
        rewrite (zip_st_ext f g kvs) end; [reflexivity |].
      eapply Forall_impl; [| exact IH]. intros [k0 x] [Hk Hx] e m. simpl in *. rewrite Hx. reflexivity.
  Qed.
End DecodeDialect.

Lemma unpack_dialect_independent E E' t w n :
  fields_agree E E' -> unpack_top E t w n = unpack_top E' t w n.
Proof. intros H. unfold unpack_top. now apply run_unpack_dialect_free. Qed.
