(* C14: executable model of method installation in mashumaro (builder.py 347-384, 558-587, 808-843,
   1065-1160; pack.py 234-275; unpack.py 696-751; mixins/dict.py 20-27).

   A class has method slots  (class, method name)  that are absent, a lazy/postponed STUB, or COMPILED,
   and per (class, direction, format) a dialect cache.  [build] is CodeBuilder(...).add_(un)pack_method():
   it decides stub vs. real code, compiles nested dataclasses on demand, and installs the result.
   [dispatch] is what a call of a generated method does before its real body runs (stub: compile, then
   re-dispatch; dialect argument: cache lookup / dialect-specific build).  [call] runs the body: it
   dispatches one nested call per dataclass-valued position of the input.
   The result of a call is the *trace tree* of the code identities that ran (which class / method /
   dialect each executed body had been compiled for), so "equal outcome" means: the same generated
   bodies ran on the same parts of the input.

   [d5 = false] is the pinned tree before fix D5 (the dialect-specific builder is lazy again). *)
From Coq Require Import List Arith Bool Lia.
Import ListNotations.

Definition cid := nat.
Definition did := nat.

Record mname := MN { m_pack : bool; m_fmt : nat; m_top : bool; m_spec : nat }.
(* to_dict = MN true 0 false 0 ; to_msgpack = MN true 1 true 0 ; to_dict_msgpack = MN true 1 false 0 ;
   to_dict_<md5 of type args> = MN true 0 false k (k>0) *)

Definition mname_eqb (a b: mname) : bool :=
  Bool.eqb (m_pack a) (m_pack b) && Nat.eqb (m_fmt a) (m_fmt b) && Bool.eqb (m_top a) (m_top b) && Nat.eqb (m_spec a) (m_spec b).

(* f_byname: the annotation names the class (it must be bound in the module namespace to be resolved);
   false for typing.Self, which needs no name lookup *)
Record field := FD { f_cls : cid; f_spec : nat; f_byname : bool }.

Record cdesc := CDX {
  c_lazy : bool;                  (* Config.lazy_compilation *)
  c_dsup : bool;                  (* ADD_DIALECT_SUPPORT *)
  c_fmts : list (nat * nat);      (* (unpack format, pack format) compiled at class creation; [] = plain dataclass *)
  c_fields : list field;          (* dataclass-valued positions incl. inherited ones, in field order *)
  c_parent : option cid;          (* the dataclass this class inherits from (single inheritance chain) *)
  c_apc : bool                    (* Config.allow_postponed_evaluation (default True; a plain dataclass has BaseConfig) *)
}.
(* a class with the default Config.allow_postponed_evaluation = True *)
Definition CD (lazy dsup: bool) (fmts: list (nat * nat)) (fields: list field) (parent: option cid) : cdesc :=
  CDX lazy dsup fmts fields parent true.
Definition fam := list cdesc.
Definition dflt_c := CD false false [] [] None.
Definition cls (F: fam) (c: cid) : cdesc := nth c F dflt_c.

Inductive meth :=
| Stub (c: cid) (m: mname)                       (* lazy / postponed stub created for method m of c *)
| Compiled (c: cid) (m: mname) (d: option did).  (* real body compiled for class c, method m, dialect d *)

Definition slotkey := (cid * mname)%type.
Definition cachekey := (cid * (bool * nat))%type.     (* class, pack?, format *)

Record state := ST {
  slots : list (slotkey * meth);
  caches : list (cachekey * list (did * meth));
  bound : list cid                (* classes whose names are bound in the module namespace *)
}.
Definition st0 := ST [] [] [].

Definition skey_eqb (a b: slotkey) := Nat.eqb (fst a) (fst b) && mname_eqb (snd a) (snd b).
Definition ckey_eqb (a b: cachekey) :=
  Nat.eqb (fst a) (fst b) && Bool.eqb (fst (snd a)) (fst (snd b)) && Nat.eqb (snd (snd a)) (snd (snd b)).

Section Assoc.
  Context {K V: Type} (eqb: K -> K -> bool).
  Fixpoint aget (k: K) (l: list (K * V)) : option V :=
    match l with
    | [] => None
    | (k', v) :: r => if eqb k k' then Some v else aget k r
    end.
  (* replace in place, else append: keys stay unique *)
  Fixpoint aset (k: K) (v: V) (l: list (K * V)) : list (K * V) :=
    match l with
    | [] => [(k, v)]
    | (k', v') :: r => if eqb k k' then (k, v) :: r else (k', v') :: aset k v r
    end.
End Assoc.

Definition get_slot (st: state) (c: cid) (m: mname) : option meth := aget skey_eqb (c, m) (slots st).
Definition set_slot (st: state) (c: cid) (m: mname) (x: meth) : state :=
  ST (aset skey_eqb (c, m) x (slots st)) (caches st) (bound st).
Definition ckey (c: cid) (m: mname) : cachekey := (c, (m_pack m, m_fmt m)).
Definition get_cache (st: state) (c: cid) (m: mname) : option (list (did * meth)) := aget ckey_eqb (ckey c m) (caches st).
Definition ensure_cache (st: state) (c: cid) (m: mname) : state :=
  match get_cache st c m with
  | Some _ => st
  | None => ST (slots st) (aset ckey_eqb (ckey c m) [] (caches st)) (bound st)
  end.
Definition cache_lookup (st: state) (c: cid) (m: mname) (d: did) : option meth :=
  match get_cache st c m with
  | Some l => aget Nat.eqb d l
  | None => None
  end.
Definition cache_store (st: state) (c: cid) (m: mname) (d: did) (x: meth) : state :=
  match get_cache st c m with
  | Some l => ST (slots st) (aset ckey_eqb (ckey c m) (aset Nat.eqb d x l) (caches st)) (bound st)
  | None => st
  end.
Definition bind (st: state) (c: cid) : state := ST (slots st) (caches st) (c :: bound st).
Definition is_bound (st: state) (c: cid) : bool := existsb (Nat.eqb c) (bound st).

(* attribute lookup of a generated method on class c: the class' own __dict__ first, then its ancestors' (MRO).
   [get_slot] is the own-__dict__ test used by the builders (get_class_that_defines_method(..) != cls);
   [mro_slot] is what `value.__mashumaro_m__` / `K.__mashumaro_m__` evaluates to at run time *)
Fixpoint mro_walk (F: fam) (n: nat) (st: state) (c: cid) (m: mname) : option meth :=
  match get_slot st c m with
  | Some x => Some x
  | None =>
      match n with
      | 0 => None
      | S n' => match c_parent (cls F c) with Some p => mro_walk F n' st p m | None => None end
      end
  end.
Definition mro_slot (F: fam) (st: state) (c: cid) (m: mname) : option meth := mro_walk F (length F) st c m.

Inductive exc := EAttrCache | EAttrMeth | EUnresolved | EBuildCycle.

(* method name used for a nested dataclass position with specialisation [spec] inside method m *)
Definition nested (m: mname) (spec: nat) : mname := MN (m_pack m) (m_fmt m) false spec.
(* the lazy stub rebuilds CodeBuilder(cls, type_args, first_method, ..., encoder/decoder): the very method it stands for
   (the type arguments are passed by name through the stub's globals) *)
Definition stub_target (m: mname) : mname := m.
(* the dialect branch builds CodeBuilder(cls, dialect=d, format_name) without encoder and type_args *)
Definition dialect_target (m: mname) : mname := MN (m_pack m) (m_fmt m) false 0.

Definition unresolved (F: fam) (st: state) (c: cid) : bool :=
  existsb (fun f => f_byname f && negb (is_bound st (f_cls f))) (c_fields (cls F c)).

(* exec of the generated program: `if not cache in cls.__dict__: cls.cache = {}` (only with
   ADD_DIALECT_SUPPORT), then setattr / cache[dialect] = f *)
Definition install (F: fam) (st: state) (c: cid) (m: mname) (d: option did) (x: meth) : state * option exc :=
  let st1 := if c_dsup (cls F c) then ensure_cache st c m else st in
  match d with
  | None => (set_slot st1 c m x, None)
  | Some dd =>
      match get_cache st1 c m with
      | Some _ => (cache_store st1 c m dd x, None)
      | None => (st1, Some EAttrCache)       (* type object has no attribute __dialect_*_cache__ *)
      end
  end.

(* on-demand compilation of the nested dataclasses of method m of class c (pack.py 234-262, unpack.py
   696-727): a nested class is compiled iff it does not define the method itself, unless it is the class
   being compiled by a builder without encoder/decoder and without dialect (selfskip; fixes b1d4bae, 423401c:
   a dialect-specific builder installs no default method, so it must not take this shortcut) *)
Fixpoint deps_with (bld: state -> cid -> mname -> state * option exc) (selfskip: bool) (c: cid) (m: mname)
         (fs: list field) (st: state) : state * option exc :=
  match fs with
  | [] => (st, None)
  | f :: r =>
      let m' := nested m (f_spec f) in
      match get_slot st (f_cls f) m' with
      | Some _ => deps_with bld selfskip c m r st
      | None =>
          if selfskip && Nat.eqb (f_cls f) c && negb (m_top m) then deps_with bld selfskip c m r st
          else match bld st (f_cls f) m' with
               | (st', None) => deps_with bld selfskip c m r st'
               | (st', Some e) => (st', Some e)
               end
      end
  end.

Inductive dres := DRun (k: meth) | DExc (e: exc) | DOOF.
Inductive vtree := V (kids: list (nat * vtree)).
Inductive tr := Node (c: cid) (m: mname) (d: option did) (kids: list tr).
Inductive outcome := Out (t: tr) | Exc (e: exc) | OOF.
Inductive op := Define (c: cid) | Call (c: cid) (m: mname) (d: option did) (x: vtree).

(* the body compiled for class kc, method km, dialect kd runs on the nested dataclass values [l]
   (pairs: index of the dataclass-valued position, value): one nested call per value, in order *)
Section Go.
  Context (callf : vtree -> state -> cid -> mname -> option did -> state * outcome).
  Context (F: fam) (kc: cid) (km: mname) (kd: option did).
  Fixpoint go (l: list (nat * vtree)) (st: state) (acc: list tr) {struct l} : state * outcome :=
    match l with
    | [] => (st, Out (Node kc km kd (rev acc)))
    | iv :: r =>
        match iv with
        | (i, v) =>
          match nth_error (c_fields (cls F kc)) i with
          | None => go r st acc
          | Some f =>
              let d' := if c_dsup (cls F kc) && c_dsup (cls F (f_cls f)) then kd else None in
              match callf v st (f_cls f) (nested km (f_spec f)) d' with
              | (st', Out t) => go r st' (t :: acc)
              | (st', o) => (st', o)
              end
          end
        end
    end.
End Go.

Section Build.
  Variable F : fam.
  Variable d5 : bool.     (* true = fix D5 present: `and self.dialect is None` in the lazy condition *)

  (* CodeBuilder(c, type_args, dialect=d, allow_postponed_evaluation=ap).add_*_method(), n = recursion budget *)
  Fixpoint build (n: nat) (st: state) (ap: bool) (c: cid) (m: mname) (d: option did) {struct n} : state * option exc :=
    match n with
    | 0 => (st, Some EBuildCycle)
    | S n' =>
      let cd := cls F c in
      if c_lazy cd && ap && (negb d5 || match d with None => true | Some _ => false end) then
        install F st c m d (Stub c m)
      else if unresolved F st c then
        (* except UnresolvedTypeReferenceError: `if not self.allow_postponed_evaluation or not
           config.allow_postponed_evaluation: raise`, else the postponed stub (kernel K114a) *)
        (if ap && c_apc cd then install F st c m d (Stub c m) else (st, Some EUnresolved))
      else
        (* a nailed builder compiles the nested class' DEFAULT method on demand (dialect = None, fix 28d8957):
           the generated call value.__mashumaro_<m>__(flags) needs that method, whatever the dialect *)
        match deps_with (fun st c' m' => build n' st true c' m' None)
                        (match d with None => true | Some _ => false end) c m (c_fields cd) st with
        | (st1, None) => install F st1 c m d (Compiled c m d)
        | (st1, Some e) => (st1, Some e)
        end
    end.

  Definition bfuel : nat := S (S (length F + length F)).

  (* what a call  cls.m(..., dialect=d)  does until a real body is reached *)
  Fixpoint dispatch (fuel: nat) (st: state) (c: cid) (m: mname) (d: option did) {struct fuel} : state * dres :=
    match fuel with
    | 0 => (st, DOOF)
    | S fuel' =>
      (* run-time attribute lookup (MRO); the function found runs with cls = c: an inherited STUB compiles the
         method for c itself, an inherited COMPILED method runs the ancestor's body on c's data *)
      match mro_slot F st c m with
      | None => (st, DExc EAttrMeth)
      | Some mt =>
          match d with
          | None =>
              match mt with
              | Compiled _ _ _ => (st, DRun mt)
              | Stub sc sm =>
                  match build bfuel st false c (stub_target sm) None with
                  | (st1, None) => dispatch fuel' st1 c sm None
                  | (st1, Some e) => (st1, DExc e)
                  end
              end
          | Some dd =>
              (* `else:` branch of a method generated with ADD_DIALECT_SUPPORT (same for stub and compiled) *)
              let run_cached (st: state) (x: meth) : state * dres :=
                match x with
                | Compiled _ _ _ => (st, DRun x)
                | Stub sc sm =>      (* only before fix D5 *)
                    match build bfuel st false c (stub_target sm) None with
                    | (st1, None) => dispatch fuel' st1 c sm d
                    | (st1, Some e) => (st1, DExc e)
                    end
                end in
              match cache_lookup st c m dd with
              | Some x => run_cached st x
              | None =>
                  match build bfuel st true c (dialect_target m) d with
                  | (st1, None) =>
                      match cache_lookup st1 c m dd with
                      | Some x => run_cached st1 x
                      | None => (st1, DExc EAttrCache)
                      end
                  | (st1, Some e) => (st1, DExc e)
                  end
              end
          end
      end
    end.

  (* a public or nested call of method m of class c with dialect d on input x *)
  Fixpoint call (fuel: nat) (x: vtree) {struct x} : state -> cid -> mname -> option did -> state * outcome :=
    fun st c m d =>
    match x with
    | V kids =>
      match dispatch fuel st c m d with
      | (st1, DRun (Compiled kc km kd)) => go (call fuel) F kc km kd kids st1 []
      | (st1, DRun (Stub _ _)) => (st1, OOF)      (* unreachable: dispatch never returns a stub *)
      | (st1, DExc e) => (st1, Exc e)
      | (st1, DOOF) => (st1, OOF)
      end
    end.

  (* class creation: DataClassDictMixin.__init_subclass__ compiles unpacker then packer per format;
     the class name is bound afterwards *)
  Definition top_name (pack: bool) (fmt: nat) : mname := MN pack fmt (negb (Nat.eqb fmt 0)) 0.
  Fixpoint define_fmts (fs: list (nat * nat)) (st: state) (c: cid) : state * option exc :=
    match fs with
    | [] => (st, None)
    | (fu, fp) :: r =>
        match build bfuel st true c (top_name false fu) None with
        | (st1, None) =>
            match build bfuel st1 true c (top_name true fp) None with
            | (st2, None) => define_fmts r st2 c
            | (st2, Some e) => (st2, Some e)
            end
        | (st1, Some e) => (st1, Some e)
        end
    end.

  Definition step (fuel: nat) (st: state) (o: op) : state * outcome :=
    match o with
    | Define c =>
        match define_fmts (c_fmts (cls F c)) st c with
        | (st1, None) => (bind st1 c, Out (Node c (MN false 0 false 0) None []))
        | (st1, Some e) => (bind st1 c, Exc e)
        end
    | Call c m d x => call fuel x st c m d
    end.

  Fixpoint run (fuel: nat) (st: state) (h: list op) : list outcome :=
    match h with
    | [] => []
    | o :: r => let (st', out) := step fuel st o in out :: run fuel st' r
    end.

  Fixpoint run_states (fuel: nat) (st: state) (h: list op) : list (state * outcome) :=
    match h with
    | [] => []
    | o :: r => let (st', out) := step fuel st o in (st', out) :: run_states fuel st' r
    end.
End Build.

