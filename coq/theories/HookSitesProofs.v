(* C19: the hook sites kernel K49 reads from builder.py, interpreted by HookSites.run_ps / run_us, ARE the method
   bodies of the hand-written model (Hooks.body, Hooks.dbody, the dispatcher-only from_dict of a class with a Config
   discriminator).  Re-checked against the source on every run: K49.v is regenerated from /repo first. *)
From Coq Require Import List Arith Bool.
From Verif Require Import Hooks HooksProofs HookSites.
From VerifGen Require Import K49.
Import ListNotations.

(* ---------------------------------------------------------------- to_dict *)
(* The to_dict emitted for class cg, run on an instance of runtime class cr: the sites read from
   _add_pack_method_lines - with the answers the builder gets for cg: declared hooks, the context option, the
   incremental-vs-literal form; whatever the encoder - compute exactly Hooks.body, where the hooks receive the method's
   `context` iff cg enabled ADD_SERIALIZATION_CONTEXT and no keyword otherwise. *)
Lemma k49_pack_sites_body :
  forall E stubs cg cr i j subs kvar ck enc enckw,
    run_ps E stubs cr j (fields_M E cg subs ck) kvar
           (pack_sites (c_pre (cls E cg)) (c_post (cls E cg)) (c_ctx (cls E cg)) (kwmode E cg) enc enckw) i
    = body E stubs cg cr i j subs (if c_ctx (cls E cg) then kvar else CAbsent) ck.
Proof.
  intros E stubs cg cr i j subs kvar ck enc enckw.
  unfold body, early_fail, pack_sites, kwmode, fields_M.
  set (F := seqM _).
  destruct (c_pre (cls E cg)), (c_post (cls E cg)), (c_ctx (cls E cg)),
    (existsb (fun f => is_opt (f_ty f)) (c_fields (cls E cg))), enc, enckw; cbn;
    destruct (c_pre (cls E cr)), (c_post (cls E cr)), stubs; destruct F as [[|] tr];
    cbn; rewrite ?app_nil_r; reflexivity.
Qed.

(* <Alias>___mashumaro_to_dict__(value): the codec builder's function of the declared class cs; `context` is the
   parameter's default None *)
Lemma k49_call_codec :
  forall E stubs cs cr i j subs enc enckw,
    call_codec E stubs cs cr i j subs
    = run_ps E stubs cr j (fields_M E cs subs CNone) CNone
             (pack_sites (c_pre (cls E cs)) (c_post (cls E cs)) (c_ctx (cls E cs)) (kwmode E cs) enc enckw) i.
Proof. intros. unfold call_codec. rewrite k49_pack_sites_body. reflexivity. Qed.

(* value.__mashumaro_to_dict__(<keywords>): dynamic dispatch to the method of the runtime class *)
Lemma k49_call_mixin :
  forall E stubs pass px k cr i j subs enc enckw,
    call_mixin E stubs pass px k cr i j subs
    = if (pass && negb (c_ctx (cls E cr))) || negb (xf_le px (c_xf (cls E cr))) then fail_
      else let kin := if pass then k else CNone in
           run_ps E stubs cr j (fields_M E cr subs kin) kin
                  (pack_sites (c_pre (cls E cr)) (c_post (cls E cr)) (c_ctx (cls E cr)) (kwmode E cr) enc enckw) i.
Proof.
  intros. unfold call_mixin.
  destruct ((pass && negb (c_ctx (cls E cr))) || negb (xf_le px (c_xf (cls E cr)))); [reflexivity|].
  cbv zeta. rewrite k49_pack_sites_body. reflexivity.
Qed.

(* closed form of the emitted to_dict, for every answer of the builder: the pre hook line (if declared) is the FIRST line
   and rebinds self; then the field statements (incremental form); ONE return, the last line, wrapped in the post hook
   iff declared; the context keyword is passed to either hook iff the class enabled the option; the encoder plays no role *)
Lemma k49_pack_shape :
  forall pre post ctx kwm enc enckw,
    pack_sites pre post ctx kwm enc enckw
    = (if pre then [PSPre ctx] else []) ++ (if kwm then [PSFields] else [])
      ++ [PSRet (if post then Some ctx else None) (negb kwm)].
Proof. intros. destruct pre, post, ctx, kwm, enc, enckw; reflexivity. Qed.

(* ---------------------------------------------------------------- from_dict *)
(* C.from_dict(d) of a class without a Config discriminator: the sites read from _add_unpack_method_lines compute
   Hooks.dbody (pre hook, field blocks, constructor, post hook on the new instance) *)
Lemma k49_unpack_sites_dbody :
  forall E c subs dec disp n,
    run_us c disp (dfields (c_fields (cls E c)) subs)
           (unpack_sites dec false (c_prede (cls E c)) (c_postde (cls E c))) None n
    = dbody E c subs n.
Proof.
  intros E c subs dec disp n. unfold dbody, unpack_sites.
  destruct dec, (c_prede (cls E c)), (c_postde (cls E c)); cbn;
    destruct (dfields (c_fields (cls E c)) subs n) as [[[vs|] tr] n1]; cbn; rewrite ?app_nil_r; reflexivity.
Qed.

(* ... on an argument that is not a dict: the pre hook (if declared) has run, then the first d.get fails *)
Lemma k49_unpack_sites_nondict :
  forall E c dec disp n,
    run_us c disp (fun n => (None, [], n))
           (unpack_sites dec false (c_prede (cls E c)) (c_postde (cls E c))) None n
    = (None, if c_prede (cls E c) then [PreDe c] else [], n).
Proof.
  intros E c dec disp n. unfold unpack_sites.
  destruct dec, (c_prede (cls E c)), (c_postde (cls E c)); reflexivity.
Qed.

(* a class whose own Config has a discriminator: the emitted from_dict is the dispatcher call and nothing else -
   whatever hooks the class declares, none of them is emitted around the dispatch *)
Lemma k49_unpack_sites_dispatch :
  forall c disp fields dec prede postde args n,
    run_us c disp fields (unpack_sites dec true prede postde) args n = disp n.
Proof. intros. unfold unpack_sites. destruct dec, prede, postde; reflexivity. Qed.

Lemma k49_unpack_shape :
  forall dec prede postde,
    unpack_sites dec false prede postde
    = (if dec then [USDecode] else []) ++ (if prede then [USPre] else []) ++ [USFields; USRet postde].
Proof. intros. destruct dec, prede, postde; reflexivity. Qed.

(* get_declared_hook: a hook counts iff some class of the MRO other than DataClassDictMixin defines it *)
Lemma k49_declared_hook :
  forall d m, declared_hook d m = declared d m.
Proof. intros [c|] m; reflexivity. Qed.

(* ---------------------------------------------------------------- the model's interpreters, at a dataclass position *)
(* serialization of an instance at a position declared with class c, both paths: Hooks.pack IS the interpretation of
   the sites K49 reads from the source (mixin: the method of the runtime class, reached by dynamic dispatch, after the
   keyword check; codec: the function compiled for the declared class) *)
Lemma k49_pack_dc_mixin :
  forall E stubs cr i j fs c pc px k enc enckw,
    pack E stubs Mixin (VInst cr i j fs) (TDc c) pc px k
    = let subs := map (fun kx => match kx with (n, x) => (n, pack E stubs Mixin x) end) fs in
      let pass := pc && c_ctx (cls E c) in
      if (pass && negb (c_ctx (cls E cr))) || negb (xf_le (xf_and px (c_xf (cls E c))) (c_xf (cls E cr))) then fail_
      else let kin := if pass then k else CNone in
           run_ps E stubs cr j (fields_M E cr subs kin) kin
                  (pack_sites (c_pre (cls E cr)) (c_post (cls E cr)) (c_ctx (cls E cr)) (kwmode E cr) enc enckw) i.
Proof.
  intros. cbv zeta.
  rewrite <- (k49_call_mixin E stubs (pc && c_ctx (cls E c)) (xf_and px (c_xf (cls E c))) k cr i j _ enc enckw).
  reflexivity.
Qed.

Lemma k49_pack_dc_codec :
  forall E stubs cr i j fs c pc px k enc enckw,
    pack E stubs Codec (VInst cr i j fs) (TDc c) pc px k
    = let subs := map (fun kx => match kx with (n, x) => (n, pack E stubs Codec x) end) fs in
      run_ps E stubs cr j (fields_M E c subs CNone) CNone
             (pack_sites (c_pre (cls E c)) (c_post (cls E c)) (c_ctx (cls E c)) (kwmode E c) enc enckw) i.
Proof.
  intros. cbv zeta. rewrite <- (k49_call_codec E stubs c cr i j _ enc enckw). reflexivity.
Qed.

(* deserialization of a dict at a position declared with class c (no Config discriminator on c): Hooks.unpack IS the
   interpretation of the sites K49 reads from _add_unpack_method_lines *)
Lemma k49_unpack_dc :
  forall E tag kvs c n dec disp,
    c_disc (cls E c) = None ->
    unpack E (WDict tag kvs) (TDc c) n
    = run_us c disp (dfields (c_fields (cls E c)) (map (fun kx => match kx with (k, x) => (k, unpack E x) end) kvs))
             (unpack_sites dec false (c_prede (cls E c)) (c_postde (cls E c))) None n.
Proof.
  intros E tag kvs c n dec disp H. rewrite k49_unpack_sites_dbody. cbn. rewrite H. reflexivity.
Qed.

(* ---------------------------------------------------------------- the trace theorems over the sites read from the source *)
(* A method whose hook sites are those builder.py emits NOW, run on an instance of a union-free schema, logs exactly the
   pre/post-order traversal (each hook once, pre first, post last on what pre returned, the caller's context where the
   classes opted in): trace_partial composed with the tie above. *)
Theorem k49_trace_sites_mixin :
  forall E stubs cr i j fs c pc k enc enckw,
    env_union_free E = true -> wt E true (VInst cr i j fs) (TDc c) = true ->
    let subs := map (fun kx => match kx with (n, x) => (n, pack E stubs Mixin x) end) fs in
    let kin := if pc && c_ctx (cls E c) then k else CNone in
    run_ps E stubs cr j (fields_M E cr subs kin) kin
           (pack_sites (c_pre (cls E cr)) (c_post (cls E cr)) (c_ctx (cls E cr)) (kwmode E cr) enc enckw) i
    = (true, trav E pc k (VInst cr i j fs)).
Proof.
  intros E stubs cr i j fs c pc k enc enckw Hf Hw. cbv zeta. set (px := xf_none).
  assert (H := trace_partial E stubs Mixin (VInst cr i j fs) (TDc c) pc px k Hf eq_refl Hw).
  rewrite (k49_pack_dc_mixin E stubs cr i j fs c pc px k enc enckw) in H. cbv zeta in H.
  destruct ((pc && c_ctx (cls E c) && negb (c_ctx (cls E cr)))
            || negb (xf_le (xf_and px (c_xf (cls E c))) (c_xf (cls E cr)))).
  - assert (H' := H ltac:(discriminate)). discriminate H'.
  - apply H. discriminate.
Qed.

Theorem k49_trace_sites_codec :
  forall E stubs c i j fs pc enc enckw,
    env_union_free E = true -> wt E false (VInst c i j fs) (TDc c) = true ->
    let subs := map (fun kx => match kx with (n, x) => (n, pack E stubs Codec x) end) fs in
    run_ps E stubs c j (fields_M E c subs CNone) CNone
           (pack_sites (c_pre (cls E c)) (c_post (cls E c)) (c_ctx (cls E c)) (kwmode E c) enc enckw) i
    = (true, trav E pc CNone (VInst c i j fs)).
Proof.
  intros E stubs c i j fs pc enc enckw Hf Hw. cbv zeta.
  assert (H := k49_pack_dc_codec E stubs c i j fs c pc xf_none CNone enc enckw). cbv zeta in H.
  rewrite <- H. apply trace_partial; auto.
Qed.

Theorem k49_de_trace_sites :
  forall E kvs c n dec disp r tr n',
    env_union_free E = true -> c_disc (cls E c) = None ->
    run_us c disp (dfields (c_fields (cls E c)) (map (fun kx => match kx with (k, x) => (k, unpack E x) end) kvs))
           (unpack_sites dec false (c_prede (cls E c)) (c_postde (cls E c))) None n = (Some r, tr, n') ->
    tr = trav_de E r.
Proof.
  intros E kvs c n dec disp r tr n' Hf Hd H.
  rewrite <- (k49_unpack_dc E None kvs c n dec disp Hd) in H.
  exact (de_trace_partial E (WDict None kvs) (TDc c) n r tr n' Hf eq_refl H).
Qed.
