(* Tie of the translated CodeBuilder.dataclass_fields (VerifGen.K5) to FieldDecl.ref_fields, and the
   meaning of ref_fields for inherited names: the nearest declaration in MRO order. *)
From Coq Require Import List String Ascii ZArith Bool Arith Lia.
From Verif Require Import Regex PyK PyK_strat FieldDecl.
From VerifGen Require Import K5.
Import ListNotations.
Open Scope string_scope.
Open Scope list_scope.

(* ---- string-keyed dictionaries and their encodings ---- *)
Lemma enc_sd_cons k v r : enc_sd ((k, v) :: r) = (KStr k, v) :: enc_sd r.
Proof. reflexivity. Qed.
Arguments enc_sd : simpl never.

Lemma d_get_enc d n : d_get (enc_sd d) (KStr n) = sd_get d n.
Proof.
  induction d as [|[k v] r IH]; [reflexivity|]. rewrite enc_sd_cons. cbn [d_get sd_get kv_eqb].
  destruct (String.eqb k n); [reflexivity|exact IH].
Qed.

Lemma d_set_enc d n v : d_set (enc_sd d) (KStr n) v = enc_sd (sd_set d n v).
Proof.
  induction d as [|[k x] r IH]; [reflexivity|]. rewrite enc_sd_cons. cbn [d_set sd_set kv_eqb].
  destruct (String.eqb k n); rewrite enc_sd_cons; [reflexivity|]. rewrite IH. reflexivity.
Qed.

Lemma d_remove_enc d n : d_remove (enc_sd d) (KStr n) = enc_sd (sd_remove d n).
Proof.
  induction d as [|[k x] r IH]; [reflexivity|]. rewrite enc_sd_cons. cbn [d_remove sd_remove kv_eqb].
  destruct (String.eqb k n); [reflexivity|]. rewrite enc_sd_cons, IH. reflexivity.
Qed.

Lemma sd_get_set d k v n : sd_get (sd_set d k v) n = if String.eqb k n then Some v else sd_get d n.
Proof.
  induction d as [|[k' x] r IH]; cbn.
  - destruct (String.eqb k n); reflexivity.
  - destruct (String.eqb k' k) eqn:E; cbn.
    + apply String.eqb_eq in E. subst k'. destruct (String.eqb k n); reflexivity.
    + destruct (String.eqb k' n) eqn:E2.
      * apply String.eqb_eq in E2. subst k'. rewrite String.eqb_sym in E. rewrite E. reflexivity.
      * exact IH.
Qed.

Lemma sd_get_remove_other d k n : String.eqb k n = false -> sd_get (sd_remove d k) n = sd_get d n.
Proof.
  intros H. induction d as [|[k' x] r IH]; [reflexivity|]. cbn.
  destruct (String.eqb k' k) eqn:E; cbn.
  - apply String.eqb_eq in E. subst k'. rewrite H. reflexivity.
  - destruct (String.eqb k' n); [reflexivity|exact IH].
Qed.

Lemma d_get_app_enc d extra n :
  d_get (enc_sd d ++ extra) (KStr n) = match sd_get d n with Some v => Some v | None => d_get extra (KStr n) end.
Proof.
  induction d as [|[k v] r IH]; [reflexivity|]. rewrite enc_sd_cons. cbn [app d_get sd_get kv_eqb].
  destruct (String.eqb k n); [reflexivity|exact IH].
Qed.

(* ---- the three loops ---- *)
Lemma values_fields_dict fs :
  map snd (enc_sd (fields_dict fs)) = map (fun p => mk_field (fst p) (snd p)) fs.
Proof. unfold enc_sd, fields_dict. rewrite !map_map. reflexivity. Qed.

Lemma for_field_spec fs : forall A B C anc K d,
  dataclass_fields_for_field A B C anc K (map (fun p => mk_field (fst p) (snd p)) fs) (KDict (enc_sd d))
  = K (KDict (enc_sd (fold_left (fun d p => sd_set d (fst p) (mk_field (fst p) (snd p))) fs d))).
Proof.
  induction fs as [|[n m] r IH]; intros; [reflexivity|].
  cbn [map fst snd dataclass_fields_for_field fold_left].
  change (k_getattr2 (mk_field n m) (KStr "name")) with (@Ok kv (KStr n)).
  cbn [bind k_dict_set]. rewrite d_set_enc. apply IH.
Qed.

Lemma for_ancestor_spec cs : forall A B C K d,
  dataclass_fields_for_ancestor A B C K (map enc_class cs) (KDict (enc_sd d))
  = K (KDict (enc_sd (fold_left upd_class cs d))).
Proof.
  induction cs as [|c r IH]; intros; [reflexivity|].
  cbn [map dataclass_fields_for_ancestor fold_left].
  destruct c as [fs|]; cbn [upd_class].
  - change (k_is_dataclass (enc_class (Some fs))) with true.
    change (k_getattr2 (enc_class (Some fs)) (KStr "__dataclass_fields__")) with (@Ok kv (KDict (enc_sd (fields_dict fs)))).
    cbn [k_truthy bind k_dict_values k_iter_list]. rewrite values_fields_dict, for_field_spec.
    cbn [bind]. apply IH.
  - change (k_is_dataclass (enc_class None)) with false. cbn [k_truthy bind]. apply IH.
Qed.

Lemma namespace_get nsd ownf n :
  sd_get nsd "__dataclass_fields__" = None -> n <> "__dataclass_fields__" ->
  k_dict_get3 (enc_namespace nsd ownf) (KStr n) KMissing = Ok (or_missing (sd_get nsd n)).
Proof.
  intros Hns Hn. unfold enc_namespace, k_dict_get3. rewrite d_get_app_enc.
  destruct (sd_get nsd n); [reflexivity|]. destruct ownf; [|reflexivity].
  cbn [d_get kv_eqb].
  destruct (String.eqb "__dataclass_fields__" n) eqn:E; [|reflexivity].
  apply String.eqb_eq in E. congruence.
Qed.

Lemma namespace_get_fields nsd ownf :
  sd_get nsd "__dataclass_fields__" = None ->
  k_dict_get3 (enc_namespace nsd ownf) (KStr "__dataclass_fields__") (KDict [])
  = Ok (KDict (match ownf with Some f => enc_sd f | None => [] end)).
Proof.
  intros Hns. unfold enc_namespace, k_dict_get3. rewrite d_get_app_enc, Hns. destruct ownf; reflexivity.
Qed.

Lemma for_name_spec nsd ownf own : forall A B K d,
  sd_get nsd "__dataclass_fields__" = None -> ~ In "__dataclass_fields__" own ->
  dataclass_fields_for_name A B (enc_namespace nsd ownf) K (map KStr own) (KDict (enc_sd d))
  = K (KDict (enc_sd (fold_left (own_step nsd ownf) own d))).
Proof.
  induction own as [|n r IH]; intros A B K d Hns Hown; [reflexivity|].
  assert (Hn: n <> "__dataclass_fields__") by (intros ->; apply Hown; left; reflexivity).
  assert (Hr: ~ In "__dataclass_fields__" r) by (intros H; apply Hown; right; exact H).
  cbn [map dataclass_fields_for_name fold_left].
  rewrite (namespace_get nsd ownf n Hns Hn). cbn [bind]. unfold own_step at 2.
  destruct (k_is_field (or_missing (sd_get nsd n))) eqn:E1; cbn [k_truthy].
  - cbn [k_dict_set bind]. rewrite d_set_enc. apply IH; assumption.
  - rewrite (namespace_get_fields nsd ownf Hns). cbn [bind].
    assert (Hv2: k_dict_get3 (KDict match ownf with Some f => enc_sd f | None => [] end) (KStr n) KMissing
                 = Ok (match ownf with Some f => or_missing (sd_get f n) | None => KMissing end)).
    { destruct ownf as [f|]; cbn; [rewrite d_get_enc; destruct (sd_get f n); reflexivity|reflexivity]. }
    rewrite Hv2. cbn [bind].
    destruct (k_is_field match ownf with Some f => or_missing (sd_get f n) | None => KMissing end) eqn:E2; cbn [k_truthy].
    + cbn [k_dict_set bind]. rewrite d_set_enc. apply IH; assumption.
    + cbn [k_dict_pop bind]. rewrite d_remove_enc. apply IH; assumption.
Qed.

(* ---- tie: the translated function computes ref_fields ---- *)
Theorem dataclass_fields_ref c0 rest own nsd ownf :
  sd_get nsd "__dataclass_fields__" = None -> ~ In "__dataclass_fields__" own ->
  dataclass_fields (KTuple (enc_class c0 :: map enc_class rest)) (KList (map KStr own)) (enc_namespace nsd ownf)
  = Ok (KDict (enc_sd (ref_fields rest own nsd ownf))).
Proof.
  intros Hns Hown. unfold dataclass_fields, ref_fields, inherited.
  cbn [k_slice_rev_tail tl bind k_iter_list]. rewrite <- map_rev.
  change (KDict []) with (KDict (enc_sd [])).
  rewrite for_ancestor_spec. cbn [k_iter_list bind].
  apply for_name_spec; assumption.
Qed.

(* ---- meaning for inherited names: the nearest declaration wins ---- *)
Lemma upd_fields_get fs : forall d n,
  sd_get (fold_left (fun d p => sd_set d (fst p) (mk_field (fst p) (snd p))) fs d) n =
  match flast fs n with Some m => Some (mk_field n m) | None => sd_get d n end.
Proof.
  induction fs as [|[k m] r IH] using rev_ind; intros d n; [reflexivity|].
  unfold flast. rewrite !fold_left_app. cbn [fold_left fst snd]. rewrite sd_get_set.
  destruct (String.eqb k n) eqn:E.
  - apply String.eqb_eq in E. subst k. reflexivity.
  - rewrite IH. reflexivity.
Qed.

Lemma inherited_get rest n :
  sd_get (inherited rest) n = option_map (mk_field n) (nearest rest n).
Proof.
  unfold inherited. induction rest as [|c r IH]; [reflexivity|].
  cbn [rev]. rewrite fold_left_app. cbn [fold_left nearest].
  destruct c as [fs|]; cbn [upd_class]; [|exact IH].
  rewrite upd_fields_get. destruct (flast fs n); [reflexivity|exact IH].
Qed.

Lemma own_step_other nsd ownf d k n : String.eqb k n = false -> sd_get (own_step nsd ownf d k) n = sd_get d n.
Proof.
  intros H. unfold own_step.
  destruct (k_is_field (or_missing (sd_get nsd k))); [rewrite sd_get_set, H; reflexivity|].
  destruct (k_is_field match ownf with Some f => or_missing (sd_get f k) | None => KMissing end);
    [rewrite sd_get_set, H; reflexivity|apply sd_get_remove_other; exact H].
Qed.

Theorem ref_fields_inherited rest own nsd ownf n :
  ~ In n own ->
  sd_get (ref_fields rest own nsd ownf) n = option_map (mk_field n) (nearest rest n).
Proof.
  intros Hn. unfold ref_fields. rewrite <- inherited_get.
  generalize (inherited rest) as d. induction own as [|k r IH]; intros d; [reflexivity|].
  cbn [fold_left]. rewrite IH by (intros H; apply Hn; right; exact H).
  apply own_step_other. apply String.eqb_neq. intros ->. apply Hn. left. reflexivity.
Qed.

Theorem c10_field_decl c0 rest own nsd ownf :
  sd_get nsd "__dataclass_fields__" = None -> ~ In "__dataclass_fields__" own ->
  exists d,
    dataclass_fields (KTuple (enc_class c0 :: map enc_class rest)) (KList (map KStr own)) (enc_namespace nsd ownf)
      = Ok (KDict (enc_sd d)) /\
    d = ref_fields rest own nsd ownf /\
    forall n, ~ In n own -> sd_get d n = option_map (mk_field n) (nearest rest n).
Proof.
  intros Hns Hown. exists (ref_fields rest own nsd ownf).
  split; [apply dataclass_fields_ref; assumption|]. split; [reflexivity|].
  intros n Hn. apply ref_fields_inherited. exact Hn.
Qed.
