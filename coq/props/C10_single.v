(* C10, "exactly one level applies" - the part of the property that fails on /repo
   (known finding stale-annotated-alias) and the part that holds. *)
From Coq Require Import List String ZArith.
From Verif Require Import PyK PyK_strat Strategies StrategiesProofs SingleApplication.
Import ListNotations.

(* full-strength statement: whatever is registered, at most one customization is applied *)
Definition C10_single_application_full : Prop := single_application_full.

(* it holds when the field type has no Annotated alias and nothing is registered for the
   re-entry type (Any) itself *)
Theorem C10_single_application_partial : forall Sr An T O anyk d,
  k_truthy An = false -> no_key Sr anyk ->
  exists l b, applied 3 Sr (keys_of An T O) (stale_of An) anyk d true = Some (l, b) /\ List.length l <= 1.
Proof. exact single_application_partial. Qed.
Print Assumptions C10_single_application_partial.

(* refuted: field strategy with use_annotations + a registration for the Annotated alias => both apply *)
Theorem C10_single_application_refuted : ~ C10_single_application_full.
Proof. exact single_application_refuted. Qed.
Print Assumptions C10_single_application_refuted.

(* and a use_annotations strategy registered for the alias itself never finishes compiling *)
Theorem C10_alias_recursion_refuted : forall fuel d,
  applied fuel w_rec (keys_of wAnn wEx wOr) (stale_of wAnn) wAny d true = None.
Proof. exact recursion_witness. Qed.
Print Assumptions C10_alias_recursion_refuted.

Example C10_single_partial_nonvacuous :
  k_truthy KNone = false /\ no_key w_double (KObj 19) /\
  applied 3 w_double (keys_of KNone wEx wOr) (stale_of KNone) (KObj 19) Ser true = Some ([2], 1).
Proof.
  split; [reflexivity|]. split; [|reflexivity].
  intros l t H. destruct l; cbn in H; inversion H; reflexivity.
Qed.
