(* C10, "exactly one level applies".  `applied` (Strategies.v) follows the re-entry of the registry after an
   annotation-driven (use_annotations / generic) strategy; since /repo ed8922a that re-entry carries no alias. *)
From Coq Require Import List String ZArith.
From Verif Require Import PyK PyK_strat Strategies StrategiesProofs SingleApplication.
Import ListNotations.

(* whatever is registered and whatever the alias of the field: at most one customization is applied, provided nothing
   is registered for the strategy's own annotated type `anyk` (that registration applies to the intermediate value
   by design of use_annotations) *)
Theorem C10_single_application : forall Sr An T O anyk d,
  no_key Sr anyk ->
  exists l b, applied 3 Sr (keys_of An T O) [] anyk d true = Some (l, b) /\ List.length l <= 1.
Proof. exact single_application. Qed.
Print Assumptions C10_single_application.

(* non-vacuity: the two shapes that failed before ed8922a now apply exactly one level *)
Example C10_single_application_nonvacuous :
  no_key w_rec wAny /\ no_key w_double wAny /\
  applied 3 w_rec (keys_of wAnn wEx wOr) [] wAny Ser true = Some ([7], 1) /\
  applied 3 w_double (keys_of wAnn wEx wOr) [] wAny Ser true = Some ([2], 1).
Proof.
  split; [|split; [|split; reflexivity]]; intros l t H; destruct l; cbn in H; inversion H; reflexivity.
Qed.
