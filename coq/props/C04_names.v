(* C04 (method names): the per-format names of the generated methods never collide, so one class
   can carry every format mixin and formats never overwrite each other's methods.  About the code as
   translated from /repo on this run (VerifGen.K11: get_pack_method_name, get_unpack_method_name,
   InternalMethodName.from_public, and the format names declared in mashumaro/mixins/*.py). *)
From Coq Require Import List String ZArith Bool.
From Verif Require Import PyK PyK_names K11Proofs.
From VerifGen Require Import K11.
Import ListNotations.
Open Scope string_scope.

Theorem C04_method_names_injective : forall d1 d2 h1 h2 ta1 ta2 f1 f2 c1 c2 n,
  In f1 all_formats -> In f2 all_formats -> hexstr h1 = true -> hexstr h2 = true ->
  mname d1 h1 ta1 f1 c1 = Ok n -> mname d2 h2 ta2 f2 c2 = Ok n ->
  d1 = d2 /\ f1 = f2 /\
  (f1 <> default_format_name -> has_codec c1 = has_codec c2) /\
  ((f1 = default_format_name \/ has_codec c1 = false) ->
   (ta1 = [] <-> ta2 = []) /\ (ta1 <> [] -> h1 = h2)).
Proof. exact method_names_injective. Qed.
Print Assumptions C04_method_names_injective.

Theorem C04_method_names_total : forall d h ta f c,
  In f all_formats -> exists n, mname d h ta f c = Ok (KStr n).
Proof. exact method_names_total. Qed.
Print Assumptions C04_method_names_total.

(* the class namespace as a method table: registering every declared (direction, format, codec) method under its
   generated name in ANY order leaves each retrievable - formats never overwrite each other *)
Theorem C04_method_table_no_overwrite : forall (order: list cfg) (c: cfg),
  Permutation.Permutation order all_cfgs -> In c all_cfgs ->
  t_get (register [] (map (fun x => (cfg_name x, x)) order)) (cfg_name c) = Some c.
Proof. exact method_table_no_overwrite. Qed.
Print Assumptions C04_method_table_no_overwrite.

Example C04_method_table_nonvacuous :
  In (DPack, "jsonb", true) all_cfgs /\ In (DUnpack, "toml", false) all_cfgs /\ List.length all_cfgs = 18%nat /\
  cfg_name (DUnpack, "toml", false) = "__mashumaro_from_dict_toml__".
Proof. repeat split; try reflexivity; vm_compute; tauto. Qed.

(* non-vacuity: the declared formats are the expected ones and the names are the real ones *)
Example C04_names_nonvacuous :
  In "jsonb" all_formats /\ In "msgpack" all_formats /\ In "toml" all_formats /\
  mname DPack "" [] "jsonb" (KObj 1) = Ok (KStr "__mashumaro_to_jsonb__") /\
  mname DPack "" [] "jsonb" KNone = Ok (KStr "__mashumaro_to_dict_jsonb__") /\
  mname DUnpack "0123abcd" [KObj 0] "toml" KNone = Ok (KStr "__mashumaro_from_dict_toml_0123abcd__") /\
  hexstr "0123abcd" = true.
Proof. repeat split; try reflexivity; simpl; tauto. Qed.
