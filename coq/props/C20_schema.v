(* C20 - schema generation is total, well formed and closed (theorems about the model
   Verif.SchemaGen, tied to /repo by harness/props/c20_coq.py and kernel K9). *)
From Coq Require Import List String ZArith Bool Lia.
From Verif Require Import SchemaGen SchemaGenProofs SchemaGenThms.
Import ListNotations.
Open Scope string_scope.

(* closed: for every sequence of builds on one context (JSONSchemaBuilder), every $ref of
   every output and of every collected definition is <prefix>/<name> with <name> a key of
   the final context.definitions; keys only grow *)
Theorem C20_refs_closed : forall E cfg fuel ts st ds st',
  tab_nodup E ->
  build_seq E cfg fuel ts st = SOk (ds, st') -> defs_closed (c_prefix cfg) st ->
  defs_closed (c_prefix cfg) st' /\ Forall (refs_ok (c_prefix cfg) (keys st')) ds /\ incl (keys st) (keys st').
Proof. exact refs_closed_seq. Qed.
Print Assumptions C20_refs_closed.

(* the same for one build_json_schema call (with_definitions / with_dialect_uri included) *)
Theorem C20_refs_closed_single : forall E cfg fuel wd uri t st d st',
  tab_nodup E ->
  build E cfg fuel wd uri t st = SOk (d, st') -> defs_closed (c_prefix cfg) st ->
  defs_closed (c_prefix cfg) st' /\ refs_ok (c_prefix cfg) (keys st') d /\ incl (keys st) (keys st').
Proof. exact refs_closed_build. Qed.
Print Assumptions C20_refs_closed_single.

(* total on acyclic, closed class tables: enough fuel = any bound on the ranks *)
Theorem C20_total : forall E cfg rk, tab_ranked E rk ->
  forall fuel t st, ty_ok t = true ->
    (forall d, In d (classes_of t) -> lookup d E <> None /\ rk d < fuel) ->
    exists s st', schema_fuel E cfg fuel t st = SOk (s, st').
Proof. intros E cfg rk HR fuel t st H1 H2. apply (total_fuel E cfg rk HR fuel t st). split; assumption. Qed.
Print Assumptions C20_total.

(* a self-referencing dataclass diverges for every fuel: the model counterpart of the
   RecursionError of build_json_schema (known finding C20/schema-recursive-class, D10) *)
Theorem C20_cyclic_diverges : forall fuel cfg st, schema_fuel E_self cfg fuel (TClass "Node") st = SFuel.
Proof. exact self_ref_diverges. Qed.
Print Assumptions C20_cyclic_diverges.

Theorem C20_cyclic_unranked : forall rk, ~ tab_ranked E_self rk.
Proof. exact self_ref_unranked. Qed.
Print Assumptions C20_cyclic_unranked.

(* well formed: outputs and definitions satisfy the keyword constraints of the metaschema *)
Theorem C20_wf : forall E cfg fuel ts st ds st',
  tab_nodup E ->
  build_seq E cfg fuel ts st = SOk (ds, st') -> defs_meta st ->
  defs_meta st' /\ Forall (fun d => meta_ok d = true) ds.
Proof. exact meta_seq. Qed.
Print Assumptions C20_wf.

Theorem C20_wf_single : forall E cfg fuel wd uri t st d st',
  tab_nodup E ->
  build E cfg fuel wd uri t st = SOk (d, st') -> defs_meta st ->
  defs_meta st' /\ meta_ok d = true.
Proof. exact meta_build. Qed.
Print Assumptions C20_wf_single.

(* "definitions accumulate consistently" fails across two specialisations of one generic
   dataclass: the definition is stored under the bare class name (known finding) *)
Theorem C20_accumulate_refuted :
  exists d1 st1 d2 st2,
    build E_g1 (mkcfg true "#/$defs") 1 false None (TClass "G") [] = SOk (d1, st1) /\
    build E_g2 (mkcfg true "#/$defs") 1 false None (TClass "G") st1 = SOk (d2, st2) /\
    d1 = d2 /\ lookup "G" st1 <> lookup "G" st2.
Proof. exact bare_name_overwrites. Qed.
Print Assumptions C20_accumulate_refuted.

(* ---- non-vacuity: a three-class acyclic table satisfies every hypothesis ---- *)
Definition E3 : ctab :=
  [("In", [mkfld "a" TInt false (Some (JInt 1)) None]);
   ("Mid", [mkfld "i" (TClass "In") true None (Some "d"); mkfld "$ref" (TList (TClass "In")) false None None]);
   ("Top", [mkfld "m" (TUnion [TClass "Mid"; TNone]) false (Some JNull) None; mkfld "t" (TTuple [TClass "In"; TStr]) true None None])].
Definition rk3 (c: string) : nat :=
  if String.eqb c "In" then 0 else if String.eqb c "Mid" then 1 else 2.

Example C20_nonvacuous_ranked : tab_ranked E3 rk3 /\ tab_nodup E3 /\ defs_closed "#/$defs" [] /\ defs_meta [].
Proof.
  split; [|split; [|split]].
  - intros c fs Hl f Hin. apply lookup_in in Hl. simpl in Hl.
    destruct Hl as [Hl|[Hl|[Hl|[]]]]; inversion Hl; subst; simpl in Hin;
      repeat (destruct Hin as [<-|Hin]; [split; [reflexivity|]; simpl;
                                         intros d Hd; repeat (destruct Hd as [<-|Hd]; [split; [discriminate|cbv; lia]|]); try contradiction|]);
      try contradiction.
  - intros c fs Hl. apply lookup_in in Hl. simpl in Hl.
    destruct Hl as [Hl|[Hl|[Hl|[]]]]; inversion Hl; subst; simpl;
      repeat (constructor; [simpl; intros H; repeat (destruct H as [H|H]; [discriminate|]); contradiction|]); constructor.
  - intros c d [].
  - intros c d [].
Qed.

Example C20_nonvacuous_run :
  exists ds st', build_seq E3 (mkcfg true "#/x") 3 [TClass "Top"; TList (TClass "Mid")] [] = SOk (ds, st')
                 /\ keys st' = ["In"; "Mid"; "Top"]
                 /\ flat_map refs ds = ["#/x/Top"; "#/x/Mid"].
Proof. eexists _, _. split; [vm_compute; reflexivity|]. split; reflexivity. Qed.

(* ---- kernel K9 (translated from /repo on this run): which prefix / all_refs the builder uses ---- *)
From Verif Require Import PyK PyK_schema K9Proofs.
From VerifGen Require Import K9.

(* single build with ref_prefix=p: the model configuration read from the translated context uses
   p without trailing slashes (the dialect pointer when nothing is left), never a trailing slash *)
Theorem C20_K9_prefix : forall wd ar D p pl, In D dialects -> In ar tri ->
  exists c cfg, build_ctx KNone wd ar D (KStr p) pl = Ok c /\ cfg_of_ctx c = Some cfg /\
    c_prefix cfg = (if String.eqb (rstrip_slash p) "" then pointer_of D else rstrip_slash p) /\
    (rstrip_slash p <> "" -> ends_with_slash (c_prefix cfg) = false).
Proof. exact K9_model_prefix. Qed.
Print Assumptions C20_K9_prefix.

Theorem C20_K9_dialect_defaults :
  pointer_of OPEN_API_3_1 = "#/components/schemas" /\ dialect_all_refs OPEN_API_3_1 = KBool true /\
  pointer_of DRAFT_2020_12 = "#/$defs" /\ dialect_all_refs DRAFT_2020_12 = KBool false /\
  pointer_of KNone = "#/$defs" /\ dialect_all_refs KNone = KBool false.
Proof. exact K9_dialect_defaults. Qed.
Print Assumptions C20_K9_dialect_defaults.

Theorem C20_K9_builder : forall D ar p pl, In D [DRAFT_2020_12; OPEN_API_3_1] -> In ar tri ->
  exists c, builder_init (KNs []) D ar (KStr p) pl = Ok c
            /\ k_getattr2 c (KStr "ref_prefix") = Ok (KStr (rstrip_slash p))
            /\ k_getattr2 c (KStr "all_refs") = Ok (match ar with KNone => dialect_all_refs D | _ => ar end)
            /\ k_getattr2 c (KStr "dialect") = Ok D.
Proof. exact K9_builder_init. Qed.
Print Assumptions C20_K9_builder.

(* the emitted reference is <used prefix>/<name> and <name> is the very key the definition is registered under *)
Theorem C20_K9_ref_names_key : forall D ar q defs pl name tn, In D [DRAFT_2020_12; OPEN_API_3_1] ->
  let c := KNs [("dialect", D); ("definitions", defs); ("all_refs", ar); ("ref_prefix", KStr q); ("plugins", pl)] in
  ref_of c (KStr name) tn = Ok (KStr (used_prefix q D ++ "/" ++ name)) /\
  reg_key (KStr name) tn = Ok (KStr name).
Proof. exact K9_ref_shape. Qed.
Print Assumptions C20_K9_ref_names_key.

(* a PASSED context: explicit ref_prefix argument (stripped) > the context's own ref_prefix (as is) >
   pointer of the effective dialect (dialect argument, else the context's); same order for all_refs;
   the definitions dict of the passed context is the one the build writes into *)
Theorem C20_K9_passed_context : forall cD (car: option bool) cq defs pl wd (ar: option bool) D p pl',
  In cD [DRAFT_2020_12; OPEN_API_3_1] -> In D dialects ->
  let c0 := KNs [("dialect", cD); ("definitions", defs); ("all_refs", opt_bool car); ("ref_prefix", opt_str cq); ("plugins", pl)] in
  exists c, build_ctx c0 wd (opt_bool ar) D (opt_str p) pl' = Ok c
    /\ k_getattr2 c (KStr "plugins") = Ok (if k_truthy pl' then pl' else pl)
    /\ k_getattr2 c (KStr "ref_prefix") =
       Ok (KStr (match p with
                 | Some p' => rstrip_slash p'
                 | None => match cq with Some q => q | None => pointer_of (pick_dialect D cD) end
                 end))
    /\ k_getattr2 c (KStr "all_refs") =
       Ok (match ar with
           | Some b => KBool b
           | None => match car with Some b => KBool b | None => dialect_all_refs (pick_dialect D cD) end end)
    /\ k_getattr2 c (KStr "dialect") = Ok (pick_dialect D cD)
    /\ k_getattr2 c (KStr "definitions") = Ok defs.
Proof. exact K9_passed_context. Qed.
Print Assumptions C20_K9_passed_context.

Example C20_K9_nonvacuous :
  exists c, build_ctx KNone (KBool true) KNone OPEN_API_3_1 (KStr "#/x//") (KTuple []) = Ok c
            /\ cfg_of_ctx c = Some (mkcfg true "#/x").
Proof. eexists. split; reflexivity. Qed.

(* ---- degenerate shapes: a NamedTuple without fields (list and dict form) and Tuple[()] are inside the
        model grammar, so C20_wf covers them; meta_ok rejects an empty prefixItems / anyOf ---- *)
Example C20_empty_named_list : forall E cfg fuel st,
  schema_fuel E cfg fuel (TNamed false [] [] []) st = SOk (arr_sk None None, st)
  /\ canon (render (arr_sk None None)) = "{4:types5:array}".
Proof. intros. split; [destruct fuel; reflexivity|reflexivity]. Qed.

Example C20_empty_named_dict : forall E cfg fuel st,
  exists s, schema_fuel E cfg fuel (TNamed true [] [] []) st = SOk (s, st)
            /\ canon (render s) = "{4:types6:object20:additionalPropertiesf8:required[]}" /\ meta_ok (render s) = true.
Proof. intros. eexists. split; [destruct fuel; reflexivity|split; reflexivity]. Qed.

Example C20_meta_rejects_empty_schema_arrays :
  meta_ok (JObj [("type", JStr "array"); ("prefixItems", JArr [])]) = false /\
  meta_ok (JObj [("anyOf", JArr [])]) = false /\
  meta_ok (JObj [("required", JArr [JStr "a"; JStr "a"])]) = false /\
  meta_ok (JObj [("uniqueItems", JStr "true")]) = false /\
  meta_ok (JObj [("minItems", JInt (-1))]) = false.
Proof. repeat split; reflexivity. Qed.

(* ---- the schema document survives JSONSchema.from_dict(.).to_dict() unchanged: [norm] models that composition
        (field order of the JSONSchema dataclass, $-aliases, omit_none, const/default sentinels, unknown keys dropped);
        every output and every collected definition of every sequence of builds is a fixed point ---- *)
From Verif Require Import SchemaRoundtrip.

Theorem C20_model_roundtrip : forall E cfg fuel ts st ds st',
  tab_nodup E ->
  build_seq E cfg fuel ts st = SOk (ds, st') -> defs_nf st ->
  defs_nf st' /\ Forall (fun d => norm d = NOk d) ds.
Proof. exact roundtrip_seq. Qed.
Print Assumptions C20_model_roundtrip.

Theorem C20_model_roundtrip_single : forall E cfg fuel wd uri t st d st',
  tab_nodup E ->
  build E cfg fuel wd uri t st = SOk (d, st') -> defs_nf st ->
  defs_nf st' /\ norm d = NOk d.
Proof. exact roundtrip_build. Qed.
Print Assumptions C20_model_roundtrip_single.

Example C20_roundtrip_nonvacuous :
  (exists ds st', build_seq E3 (mkcfg true "#/x") 3 [TClass "Top"; TNamed true ["a"] [TInt] [Some (JInt 0)]] [] = SOk (ds, st')
                  /\ Forall (fun d => norm d = NOk d) ds /\ List.length st' = 3%nat) /\
  norm (JObj [("default", JStr ""); ("const", JBool false); ("x-unknown", JInt 1); ("title", JNull)])
    = NOk (JObj [("const", JBool false); ("default", JStr "")]) /\
  norm (JObj [("type", JStr "strin")]) = NErr.
Proof.
  split; [|split; reflexivity].
  eexists _, _. split; [vm_compute; reflexivity|]. split; [|reflexivity].
  repeat constructor.
Qed.

(* ---- Instance.fields() / Instance.alias as a function of the fields as written (anchor: field iteration) ---- *)
Theorem C20_fields_digest : forall al om dial conf l f,
  In f (digest_fields al om dial conf l) ->
  exists r, In r l /\ r_init r = true /\ digest_field al om dial conf r = Some f /\ f_ty f = resolve_field dial conf r /\
            f_req f = (match r_def r with RNone => negb (om && nullable_ty (r_ty r)) | _ => false end) /\
            (f_default f <> None <-> exists v, r_def r = RDefault v).
Proof. exact digest_fields_spec. Qed.
Print Assumptions C20_fields_digest.

(* the new constructs (leaf formats, Enum / Literal, TypedDict with sorted required keys, description, alias resolution,
   init=False) in one run: total, closed, well formed and a round-trip fixed point *)
Definition ER : list (string * rcls) :=
  [("Leafy", mkrcls [("u", "cfg_u")] (Some true) (Some false) [] []
      [mkrfld "when" None None (TLeaf "string" (Some "date-time") None) false true RNone (Some "when it happened") None None;
       mkrfld "u" None None (TLeaf "string" (Some "uuid") None) false true (RDefault (JStr "0")) None None None;
       mkrfld "a2" None (Some "ann2") TBool false true (RDefault (JBool false)) None None None;
       mkrfld "opt" None None (TUnion [TInt; TNone]) true true RNone None None None;
       mkrfld "hidden" None None TInt false false (RDefault (JInt 1)) None None None;
       mkrfld "e" (Some "") (Some "ann") (TEnum false [JStr "a"; JInt 2]) false true RFactory (Some "") None None;
       mkrfld "l" (Some "meta") (Some "ann") (TEnum true [JInt 0]) false true (RDefault (JInt 0)) None None None;
       mkrfld "td" None None (TTyped ["b"; "a"; "c"] [TInt; TClass "Other"; TStr] [true; true; false]) false true RFactory None None None]);
   ("Other", mkrcls [] None None [] [] [mkrfld "z" None None TInt false true RNone None None None])].

Example C20_new_constructs_nonvacuous :
  keys (match lookup "Leafy" (digest_tab ER) with Some fs => map (fun f => (f_alias f, f_ty f)) fs | None => [] end)
    = ["when"; "cfg_u"; "ann2"; "opt"; "e"; "meta"; "td"] /\
  exists d st, build (digest_tab ER) (mkcfg true "#/$defs") 3 true None (TList (TClass "Leafy")) [] = SOk (d, st)
               /\ meta_ok d = true /\ norm d = NOk d /\ refs d = ["#/$defs/Other"; "#/$defs/Leafy"] /\ keys st = ["Other"; "Leafy"].
Proof.
  split; [reflexivity|].
  eexists _, _. split; [vm_compute; reflexivity|]. repeat split; vm_compute; reflexivity.
Qed.

(* ---- overridden serialization (on_type_with_overridden_serialization) as a rewriting of field types ---- *)
Theorem C20_override_noop : forall t, resolve_ty [] [] t = t.
Proof. exact resolve_ty_noop. Qed.
Print Assumptions C20_override_noop.

(* /repo fcaa28c: a strategy registered under the ORIGIN class applies to every List[..] / Dict[..] position (the lookup
   keys of the schema are those of the serializer: the type, then its origin); other containers are not touched by it *)
Theorem C20_override_origin_key : forall dial conf a o,
  first_ser [lookup "list" dial; lookup "list" conf] = Some o -> apply_ov (Some o) (TList a) = None \/
  (forall t', apply_ov (Some o) (TList a) = Some t' -> resolve_ty dial conf (TList a) = t').
Proof.
  intros dial conf a o H. destruct (apply_ov (Some o) (TList a)) as [t'|] eqn:E; [right|left; reflexivity].
  intros t'' Ht; inversion Ht; subst. cbn [resolve_ty table_ov tykey okey]. rewrite H, E. reflexivity.
Qed.
Print Assumptions C20_override_origin_key.
Example C20_origin_key_nonvacuous :
  resolve_ty [("list", ORet (Some TStr))] [] (TDict (TList TInt)) = TDict TStr /\
  resolve_ty [] [("dict", ORet None)] (TTuple [TMap TInt TStr; TDict TBool; TSet TInt]) = TTuple [TAny; TAny; TSet TInt] /\
  resolve_ty [("list", ODeser)] [("list", ORet (Some TBool)); ("int", ORet (Some TStr))] (TList TInt) = TBool /\
  resolve_ty [("list", OPass)] [("list", ORet (Some TBool)); ("int", ORet (Some TStr))] (TList TInt) = TList TStr.
Proof. repeat split; reflexivity. Qed.

(* a type whose third-party classes are all covered by serializing strategies with supported replacements is supported *)
Theorem C20_override_covered : forall dial conf t, covered dial conf t = true -> ty_ok (resolve_ty dial conf t) = true.
Proof. exact covered_ok. Qed.
Print Assumptions C20_override_covered.

Definition EP : list (string * rcls) :=
  [("Inv", mkrcls [] None None [("Pt", ORet (Some TInt)); ("int", ODeser)] [("int", ORet (Some TStr)); ("Pt", OPass)]
      [mkrfld "p" None None (TOpaque "Pt") false true RNone None None None;
       mkrfld "ps" None None (TList (TUnion [TOpaque "Pt"; TNone])) false true RFactory None None None;
       mkrfld "n" None None (TDict TInt) false true RNone None None None;
       mkrfld "q" None None (TOpaque "Pt") false true RNone None (Some (ORet None)) (Some (OBasic TStr));
       mkrfld "r" None None TInt false true RNone None (Some OPass) (Some (ORet (Some TBool)))]);
   ("Bare", mkrcls [] None None [] [] [mkrfld "p" None None (TOpaque "Pt") false true RNone None None None])].

Example C20_override_nonvacuous :
  (match lookup "Inv" (digest_tab EP) with Some fs => map f_ty fs | None => [] end)
    = [TInt; TList (TUnion [TInt; TNone]); TDict TStr; TAny; TInt] /\
  (exists s st, schema_fuel (digest_tab EP) (mkcfg false "#") 2 (TClass "Inv") [] = SOk (s, st) /\ meta_ok (render s) = true) /\
  schema_fuel (digest_tab EP) (mkcfg false "#") 2 (TClass "Bare") [] = SErr.
Proof. split; [reflexivity|]. split; [eexists _, _; split; [vm_compute; reflexivity|vm_compute; reflexivity]|reflexivity]. Qed.

(* ---- overridden serialization as the implementation runs it: a chain of replacements per position (SchemaChain) ----
   get_schema is entered again with the replacement type, which is looked up in the tables of the class again (a field-level
   option only once: /repo 42523b8).  rchain is that loop with the Python stack as fuel. *)
From Verif Require Import SchemaChain.

(* more fuel never changes a result *)
Theorem C20_chain_mono : forall dial conf (n m: nat) t u, (n <= m)%nat -> rchain dial conf n t = Some u -> rchain dial conf m t = Some u.
Proof. exact rchain_mono_le. Qed.
Print Assumptions C20_chain_mono.

(* totality of the rewriting.  Full statement: forall dial conf t, exists n u, rchain dial conf n t = Some u.  It holds under the
   computable predicate chain_ok (every registered replacement type resolves within N steps) ... *)
Theorem C20_chain_total_partial : forall dial conf N, chain_ok dial conf N = true ->
  forall t, exists n u, rchain dial conf n t = Some u.
Proof. exact rchain_total. Qed.
Print Assumptions C20_chain_total_partial.

(* ... and, since /repo PENDING (Instance._overridden_types: a table strategy is not applied again below its own replacement),
   for EVERY table: rchain_v is the rewriting with the keys already used on the path skipped *)
Theorem C20_chain_total : forall dial conf vis t, exists n u, rchain_v dial conf n vis t = Some u.
Proof. exact rchain_v_total. Qed.
Print Assumptions C20_chain_total.

Theorem C20_chain_v_mono : forall dial conf (n m: nat) vis t u, (n <= m)%nat -> rchain_v dial conf n vis t = Some u -> rchain_v dial conf m vis t = Some u.
Proof. exact rchain_v_mono_le. Qed.
Print Assumptions C20_chain_v_mono.

(* the tables of the former finding table-override-recursion (int -> List[int]; int -> str -> int): the chain without the
   visited keys never stops on them (rchain, the behaviour before the fix), the implementation's rewriting does *)
Example C20_chain_cycle_resolved :
  (forall n, rchain [] [("int", ORet (Some (TList TInt)))] n TInt = None) /\
  rchain_v [] [("int", ORet (Some (TList TInt)))] 6%nat [] TInt = Some (TList TInt) /\
  rchain_v [] [("int", ORet (Some TStr)); ("str", ORet (Some TInt))] 6%nat [] (TTuple [TInt; TStr]) = Some (TTuple [TInt; TStr]).
Proof. split; [intros n; exact (proj1 (cyc1_diverges n))|split; vm_compute; reflexivity]. Qed.

(* on the one-step fragment (tabs_flat: no registered replacement type mentions an overridden key) the chain IS the rewriting
   resolve_ty of the C20_override_* theorems, for every sufficient fuel ... *)
From Verif Require Import SchemaChainAgree.
Theorem C20_chain_agrees_flat : forall dial conf, tabs_flat dial conf = true ->
  forall t, exists n, forall m, (n <= m)%nat -> rchain dial conf m t = Some (resolve_ty dial conf t).
Proof. exact rchain_agrees_flat. Qed.
Print Assumptions C20_chain_agrees_flat.

(* ... hence covered third-party classes are eliminated by the chain as well *)
Theorem C20_chain_covered : forall dial conf t, tabs_flat dial conf = true -> covered dial conf t = true ->
  exists n u, rchain dial conf n t = Some u /\ ty_ok u = true.
Proof.
  intros dial conf t Hf Hc. destruct (rchain_agrees_flat dial conf Hf t) as [n Hn].
  exists n, (resolve_ty dial conf t). split; [apply Hn; apply le_n|apply covered_ok; exact Hc].
Qed.
Print Assumptions C20_chain_covered.

Example C20_chain_flat_nonvacuous :
  tabs_flat [("list", ORet (Some TStr)); ("Pt", ORet (Some (TList TBool)))] [("int", ORet (Some TFloat)); ("Pt", OPass)] = false /\
  tabs_flat [("dict", ORet (Some TStr)); ("Pt", ORet (Some (TSet TBool)))] [("int", ORet (Some TFloat)); ("Pt", OPass)] = true /\
  tabs_flat [("Pt", ORet (Some TInt)); ("int", ODeser)] [("int", ORet (Some TStr)); ("Pt", OPass)] = false /\
  tabs_flat [] [("int", ORet (Some (TList TInt)))] = false /\
  covered [("dict", ORet (Some TStr)); ("Pt", ORet (Some (TSet TBool)))] [("int", ORet (Some TFloat)); ("Pt", OPass)] (TList (TUnion [TOpaque "Pt"; TNone])) = true /\
  rchain [("dict", ORet (Some TStr)); ("Pt", ORet (Some (TSet TBool)))] [("int", ORet (Some TFloat)); ("Pt", OPass)] 6%nat (TList (TUnion [TOpaque "Pt"; TNone]))
    = Some (TList (TUnion [TSet TBool; TNone])).
Proof. repeat split; vm_compute; reflexivity. Qed.

(* non-vacuity: Pt -> int -> List[str] -> bool over three table entries, a field-level replacement resolved by the tables below it,
   float -> float stays; EP above (Pt -> int by the dialect, int -> str by Config) is outside the one-step fragment: the chain gives str *)
Example C20_chain_nonvacuous :
  (match digest_tab_chain 8%nat EC with Some [(_, fs)] => map f_ty fs | _ => [] end) = [TBool; TDict TBool; TTuple [TBool; TStr]; TFloat; TAny] /\
  (match digest_tab_chain 8%nat EP with Some ((_, fs) :: _) => map f_ty fs | _ => [] end) = [TStr; TList (TUnion [TStr; TNone]); TDict TStr; TAny; TInt] /\
  tab_flat EP = false /\ tab_flat EC = false /\ tab_flat ER = true /\
  (exists E, digest_tab_chain 8%nat ER = Some E /\ map (fun c => map f_ty (snd c)) E = map (fun c => map f_ty (snd c)) (digest_tab ER)).
Proof. repeat split; try (vm_compute; reflexivity). eexists; split; vm_compute; reflexivity. Qed.

(* ---- the default VALUE of a property: the reference serialization (TyModel.ref_enc, the lead's model of to_dict)
        of the value under the field's type, through the embedding sty_of of this grammar; None is always null ---- *)
From Verif Require Core TyModel.
From Verif Require Import SchemaDefault.

Theorem C20_default_value_is_ref_enc : forall tab t v,
  render_default tab t v =
  match v with
  | Core.VNone => Some JNull
  | _ => match sty_of t with
         | Some st => match TyModel.ref_enc [] (prims_of tab) v st with Core.Ok w => js_of_pv w | Core.Exn _ => None end
         | None => None end
  end.
Proof. intros tab t v. destruct v; reflexivity. Qed.
Print Assumptions C20_default_value_is_ref_enc.

Theorem C20_default_prerendered : forall tab vals c r v,
  find_val c (r_name r) vals = Some v ->
  r_def (prerender_field tab vals c r) =
    match render_default tab (r_ty r) v with Some j => RDefault j | None => RFactory end /\
  r_ty (prerender_field tab vals c r) = r_ty r /\ r_name (prerender_field tab vals c r) = r_name r /\
  r_init (prerender_field tab vals c r) = r_init r.
Proof. exact prerender_field_spec. Qed.
Print Assumptions C20_default_prerendered.

Theorem C20_default_scalars : forall tab,
  (forall z, render_default tab TInt (Core.VInt z) = Some (JInt z)) /\
  (forall b, render_default tab TBool (Core.VBool b) = Some (JBool b)) /\
  (forall s, render_default tab TStr (Core.VStr s) = Some (JStr s)) /\
  (forall t, render_default tab t Core.VNone = Some JNull) /\
  (forall k w fmt pat tp, render_default tab (TLeaf tp fmt pat) (Core.VLeaf k w) = Some (JStr w)).
Proof. exact render_scalar. Qed.
Print Assumptions C20_default_scalars.

Example C20_default_nonvacuous :
  let ER := [("D", mkrcls [] None None [] []
                 [mkrfld "t" None None (TTuple [TInt; TEnum false [JStr "a"; JInt 2]]) false true RFactory None None None;
                  mkrfld "o" None None (TClass "D") false true RFactory None None None])] in
  let vals := [("D", ("t", Core.VTuple [Core.VInt 0; Core.VEnum "enum" "A"])); ("D", ("o", Core.VNone))] in
  match lookup "D" (digest_tab (prerender [("A", Core.VStr "a")] vals ER)) with
  | Some fs => map f_default fs | None => [] end = [Some (JArr [JInt 0; JStr "a"]); Some JNull].
Proof. reflexivity. Qed.

(* ---- Annotated constraints, mappings with non-str keys (Counter, ChainMap spellings), in one run ---- *)
Example C20_annotated_map_nonvacuous :
  let t := TTuple [TAnn [ANum AMinimum 0; ANum AMaxLength 3; APattern "^a*$"] TInt;
                   TAnn [ANum AMinLength 0; APattern "^a*$"; ANum AMaximum 9] TStr;
                   TAnn [ANum AMaxItems 3; AUnique false] (TSet TInt);
                   TAnn [ANum AMinProps 1] (TMap (TLeaf "string" (Some "date") None) TInt);
                   TList (TMap TInt TAny)] in
  (exists s st, schema_fuel [] (mkcfg false "#") 0 t [] = SOk (s, st) /\ meta_ok (render s) = true /\ norm (render s) = NOk (render s)
     /\ canon (render s) = "{4:types5:array11:prefixItems[{4:types7:integer7:minimumi0;}{4:types6:string9:minLengthi0;7:patterns4:^a*$}{4:types5:array5:items{4:types7:integer}8:maxItemsi3;11:uniqueItemsf}{4:types6:object20:additionalProperties{4:types7:integer}13:propertyNames{4:types6:string6:formats4:date}13:minPropertiesi1;}{4:types5:array5:items{4:types6:object13:propertyNames{4:types7:integer}}}]8:maxItemsi5;8:minItemsi5;}") /\
  schema_fuel [] (mkcfg false "#") 0 (TAnn [ANum AMinItems (-1)] (TList TInt)) [] = SErr.
Proof. split; [eexists _, _; split; [vm_compute; reflexivity|]; repeat split; vm_compute; reflexivity|reflexivity]. Qed.
