(* C04: format codecs are lossless and equal the format encoding of the basic form.
   encode = ser_F o pack_ls, decode = unpack_ls o parse_F  (Fmt.v), where ls is the effective dialect:
   the format's own dialect merged with the caller's dialect (Dialect.merge).  The model has a class table
   (nested / inherited-flattened / self-referencing dataclasses, typing.Self, named tuples, typed dicts), enums,
   discriminated unions, Any positions, Literal tags, lists / tuples (variable and fixed length) / sets / frozensets,
   str-keyed mappings,
   Optional and the text-rendered leaves.
   ser/parse (json, orjson, yaml, msgpack, tomli_w/tomllib), the stdlib leaf codecs and the user's strategy
   pairs are universally quantified functions constrained only by their assumed laws. *)
From Coq Require Import List String ZArith Bool.
From Verif Require Import Fmt FmtProofs.
Import ListNotations.
Open Scope string_scope.

(* full-strength round trip: refuted (TOML omits a None-valued key; a required Optional field
   is then missing on decode) *)
Definition C04_roundtrip_full : Prop := roundtrip_full.

Theorem C04_roundtrip_refuted : ~ C04_roundtrip_full.
Proof. exact roundtrip_refuted. Qed.
Print Assumptions C04_roundtrip_refuted.

(* the round trip holds for every coherent effective dialect once Optional fields default to None
   (a premise only when the dialect omits None, i.e. TOML) *)
Theorem C04_roundtrip_partial :
  forall (render: lkind -> string -> string) (parse_leaf: lkind -> string -> option string)
         (urender: nat -> lkind -> string -> string) (uparse: nat -> lkind -> string -> option string)
         (leaf_ok: lkind -> string -> bool) (E: env) (EN: enums),
    (forall k p, leaf_ok k p = true -> parse_leaf k (render k p) = Some p) ->
    (forall u k p, leaf_ok k p = true -> uparse u k (urender u k p) = Some p) ->
    forall (doc: Type) (ser: fmt -> bv -> doc) (parse: fmt -> doc -> option bv)
           (leaf_repr: fmt -> lkind -> string -> bool),
    (forall F b, representable leaf_repr F b = true -> parse F (ser F b) = Some (norm render F b)) ->
    forall ls F t v d,
      coherentb F ls = true ->
      in_subset render urender leaf_ok E EN leaf_repr ls F t v -> defaults_ok E ls ->
      encode render urender E EN doc ser ls F t v = Ok d -> decode parse_leaf uparse E EN doc parse ls F t d = Ok v.
Proof. exact roundtrip. Qed.
Print Assumptions C04_roundtrip_partial.

(* the five format dialects are coherent, and stay so under a caller's dialect that gives both directions *)
Theorem C04_format_dialects_coherent : forall F X, both_dirs X = true -> coherentb F (eff_lsem F X) = true.
Proof. exact user_coherent. Qed.
Print Assumptions C04_format_dialects_coherent.

(* parse_F(encode v) ~ basic form (under the same caller's dialect), where
   d ~ b  :=  render_natives d = (omit_none ? drop_nulls b : b) *)
Theorem C04_doc_is_basic :
  forall (render: lkind -> string -> string) (urender: nat -> lkind -> string -> string)
         (leaf_ok: lkind -> string -> bool) (E: env) (EN: enums),
    (forall k p, render (wire k) p = render k p) ->
    forall (doc: Type) (ser: fmt -> bv -> doc) (parse: fmt -> doc -> option bv)
           (leaf_repr: fmt -> lkind -> string -> bool),
    (forall F b, representable leaf_repr F b = true -> parse F (ser F b) = Some (norm render F b)) ->
    forall ls F t v d,
      (omit_none ls = true -> F = FToml) ->
      in_subset render urender leaf_ok E EN leaf_repr ls F t v -> encode render urender E EN doc ser ls F t v = Ok d ->
      exists pd bb, parse F d = Some pd /\ pack render urender E EN (basic_of ls) v "" t = Ok bb /\
                    approx render (omit_none ls) pd bb.
Proof. exact doc_is_basic. Qed.
Print Assumptions C04_doc_is_basic.

(* for json, yaml and orjson the relation is plain equality: nothing is ignored *)
Theorem C04_doc_exact :
  forall (render: lkind -> string -> string) (urender: nat -> lkind -> string -> string)
         (leaf_ok: lkind -> string -> bool) (E: env) (EN: enums),
    (forall k p, render (wire k) p = render k p) ->
    forall (doc: Type) (ser: fmt -> bv -> doc) (parse: fmt -> doc -> option bv)
           (leaf_repr: fmt -> lkind -> string -> bool),
    (forall F b, representable leaf_repr F b = true -> parse F (ser F b) = Some (norm render F b)) ->
    forall ls F t v d,
      exact_fmt F = true -> omit_none ls = false ->
      in_subset render urender leaf_ok E EN leaf_repr ls F t v -> encode render urender E EN doc ser ls F t v = Ok d ->
      exists bb, pack render urender E EN (basic_of ls) v "" t = Ok bb /\ parse F d = Some bb.
Proof. exact doc_exact. Qed.
Print Assumptions C04_doc_exact.

(* ---- non-vacuity: a self-referencing class (typing.Self and by name), a discriminated union whose
        variants hold native leaves, an Any position, an omitted None, a caller's dialect for bytes ---- *)
Definition ex_env : env :=
  [("Node", [("when", (TLeaf KDatetime, false)); ("blob", (TLeaf KBytearray, false)); ("raw", (TLeaf KBytes, false));
             ("opt", (TOpt TInt, true)); ("extra", (TAny, true));
             ("next", (TOpt TSelf, true)); ("kids", (TList (TData "Node"), false));
             ("shape", (TDiscr "kind" [("c", "Circle"); ("s", "Square")], false));
             ("tags", (TColl CFrozenSet (TEnum "Color"), false)); ("pt", (TNamed "Pt", false)); ("td", (TTyped "Opts", false));
             ("pair", (TFix "Pair", false))]);
   ("Pair", [("i0", (TInt, false)); ("i1", (TLeaf KDate, false))]);
   ("Pt", [("x", (TInt, false)); ("day", (TOpt (TLeaf KDate), true))]);
   ("Opts", [("a", (TColl CTuple TStr, false)); ("b", (TLeaf KBytes, false))]);
   ("Circle", [("r", (TFloat, false)); ("at", (TLeaf KTime, false)); ("kind", (TLit "c", false))]);
   ("Square", [("side", (TInt, false)); ("kind", (TLit "s", false))])].

Definition ex_leaf : pv :=
  VObj "Node" [("when", VLeaf KDatetime "2021-01-01T00:00:00"); ("blob", VLeaf KBytearray ""); ("raw", VLeaf KBytes "ff");
               ("opt", VInt 7%Z); ("extra", VStr "x"); ("next", VNone); ("kids", VList []);
               ("shape", VObj "Square" [("side", VInt 2%Z); ("kind", VStr "s")]);
               ("tags", VColl CFrozenSet []); ("pt", VNT "Pt" [VInt 0%Z; VLeaf KDate "2020-01-01"]);
               ("td", VDict [("a", VColl CTuple []); ("b", VLeaf KBytes "")]);
               ("pair", VColl CTuple [VInt 1%Z; VLeaf KDate "2020-01-01"])].
Definition ex_val : pv :=
  VObj "Node" [("when", VLeaf KDatetime "2020-01-02T03:04:05"); ("blob", VLeaf KBytearray "ab"); ("raw", VLeaf KBytes "00");
               ("opt", VNone); ("extra", VList [VInt 1%Z; VDict [("k", VStr "v")]]);
               ("next", ex_leaf); ("kids", VList [ex_leaf]);
               ("shape", VObj "Circle" [("r", VFloat (FFin 1%Z)); ("at", VLeaf KTime "01:02:03"); ("kind", VStr "c")]);
               ("tags", VColl CFrozenSet [VEnum "Color" "RED"; VEnum "Color" "BLUE"]);
               ("pt", VNT "Pt" [VInt 3%Z; VLeaf KDate "2020-02-29"]);
               ("td", VDict [("a", VColl CTuple [VStr "p"; VStr "q"]); ("b", VLeaf KBytes "0a")]);
               ("pair", VColl CTuple [VInt (-5)%Z; VLeaf KDate "1999-12-31"])].
Definition ex_enums : enums := [("Color", [("RED", EvStr "r"); ("BLUE", EvInt 2%Z)])].

(* caller's dialect: bytes rendered by user strategy 0 (callable id 2) in both directions *)
Definition ex_user : udialect := udial_of [(KBytes, EDict (Some 2%nat) (Some 2%nat))].

Example C04_nonvacuous_subset :
  in_subset id_render id_urender all_ok ex_env ex_enums all_repr (eff_lsem FMsgpack ex_user) FMsgpack (TData "Node") ex_val
  /\ coherentb FMsgpack (eff_lsem FMsgpack ex_user) = true
  /\ in_subset id_render id_urender all_ok ex_env ex_enums all_repr (eff_lsem FToml no_user) FToml (TData "Node") ex_leaf
  /\ defaults_ok ex_env (eff_lsem FToml no_user).
Proof.
  split; [|split; [|split]].
  - unfold in_subset. split; [reflexivity|]. split; [reflexivity|]. split; [reflexivity|]. split; [reflexivity|].
    eexists. split; [vm_compute; reflexivity | vm_compute; reflexivity].
  - reflexivity.
  - unfold in_subset. split; [reflexivity|]. split; [reflexivity|]. split; [reflexivity|]. split; [reflexivity|].
    eexists. split; [vm_compute; reflexivity | vm_compute; reflexivity].
  - intro H. reflexivity.
Qed.

(* the msgpack tree keeps the bytearray native (handed back as bytes), renders `raw` by the caller's
   strategy, and the whole value - recursion, discriminated union, Any - decodes back *)
Example C04_nonvacuous_trees :
  exists b, pack id_render id_urender ex_env ex_enums (eff_lsem FMsgpack ex_user) ex_val "" (TData "Node") = Ok b
    /\ lookup "blob" (match norm id_render FMsgpack b with BDict l => l | _ => [] end) = Some (BNat KBytes "ab")
    /\ lookup "raw" (match b with BDict l => l | _ => [] end) = Some (BStr "00")
    /\ lookup "opt" (match b with BDict l => l | _ => [] end) = Some BNone
    /\ unpack id_parse_leaf id_uparse ex_env ex_enums (eff_lsem FMsgpack ex_user) (norm id_render FMsgpack b) "" (TData "Node")
       = Ok ex_val.
Proof. eexists. split; [vm_compute; reflexivity|]. repeat split; vm_compute; reflexivity. Qed.
