(* C04: format codecs are lossless and equal the format encoding of the basic form.
   encode_F = ser_F o pack_{dialect F}, decode_F = unpack_{dialect F} o parse_F  (Format.v);
   ser/parse (json, orjson, yaml, msgpack, tomli_w/tomllib) and the stdlib leaf codecs are
   universally quantified functions constrained only by their assumed laws. *)
From Coq Require Import List String ZArith Bool.
From Verif Require Import Format FormatProofs.
Import ListNotations.
Open Scope string_scope.

(* full-strength round trip: refuted (TOML omits a None-valued key; a required Optional field
   is then missing on decode) *)
Definition C04_roundtrip_full : Prop := roundtrip_full.

Theorem C04_roundtrip_refuted : ~ C04_roundtrip_full.
Proof. exact roundtrip_refuted. Qed.
Print Assumptions C04_roundtrip_refuted.

(* the round trip holds for all five formats once Optional fields default to None
   (a premise only for TOML: defaults_ok F t := omit_none (dialect F) = true -> ...) *)
Theorem C04_roundtrip_partial :
  forall (render: lkind -> string -> string) (parse_leaf: lkind -> string -> option string)
         (leaf_ok: lkind -> string -> bool),
    (forall k p, leaf_ok k p = true -> parse_leaf k (render k p) = Some p) ->
    forall (doc: Type) (ser: fmt -> bv -> doc) (parse: fmt -> doc -> option bv)
           (leaf_repr: fmt -> lkind -> string -> bool),
    (forall F b, representable leaf_repr F b = true -> parse F (ser F b) = Some (norm render F b)) ->
    forall F t v d,
      in_subset render leaf_ok leaf_repr F t v -> defaults_ok F t ->
      encode render doc ser F t v = Ok d -> decode parse_leaf doc parse F t d = Ok v.
Proof. exact roundtrip. Qed.
Print Assumptions C04_roundtrip_partial.

(* parse_F(encode_F v) ~_F basic form, where  d ~_F b  :=  render_natives d = (toml ? drop_nulls b : b) *)
Theorem C04_doc_is_basic :
  forall (render: lkind -> string -> string) (leaf_ok: lkind -> string -> bool),
    (forall k p, render (wire k) p = render k p) ->
    forall (doc: Type) (ser: fmt -> bv -> doc) (parse: fmt -> doc -> option bv)
           (leaf_repr: fmt -> lkind -> string -> bool),
    (forall F b, representable leaf_repr F b = true -> parse F (ser F b) = Some (norm render F b)) ->
    forall F t v d,
      in_subset render leaf_ok leaf_repr F t v -> encode render doc ser F t v = Ok d ->
      exists pd bb, parse F d = Some pd /\ pack render basic_dl t v = Ok bb /\ approx render F pd bb.
Proof. exact doc_is_basic. Qed.
Print Assumptions C04_doc_is_basic.

(* for json, yaml and orjson the relation is plain equality: nothing is ignored *)
Theorem C04_doc_exact :
  forall (render: lkind -> string -> string) (leaf_ok: lkind -> string -> bool),
    (forall k p, render (wire k) p = render k p) ->
    forall (doc: Type) (ser: fmt -> bv -> doc) (parse: fmt -> doc -> option bv)
           (leaf_repr: fmt -> lkind -> string -> bool),
    (forall F b, representable leaf_repr F b = true -> parse F (ser F b) = Some (norm render F b)) ->
    forall F t v d,
      exact_fmt F = true ->
      in_subset render leaf_ok leaf_repr F t v -> encode render doc ser F t v = Ok d ->
      exists bb, pack render basic_dl t v = Ok bb /\ parse F d = Some bb.
Proof. exact doc_exact. Qed.
Print Assumptions C04_doc_exact.

(* ---- non-vacuity: the premises are met by an instance with native leaves, a nested record,
        an omitted None and a non-trivial document ---- *)
Definition ex_ty : ty :=
  TRec "Outer" [("when", (TLeaf KDatetime, false)); ("blob", (TLeaf KBytearray, false));
                ("opt", (TOpt TInt, true));
                ("inner", (TList (TRec "In" [("t", (TLeaf KTime, false)); ("m", (TDict TStr, false))]), false))].
Definition ex_val : pv :=
  VObj "Outer" [("when", VLeaf KDatetime "2020-01-02T03:04:05"); ("blob", VLeaf KBytearray "ab");
                ("opt", VNone);
                ("inner", VList [VObj "In" [("t", VLeaf KTime "01:02:03"); ("m", VDict [("k", VStr "v")])]])].

Example C04_nonvacuous_subset_toml :
  in_subset id_render all_ok all_repr FToml ex_ty ex_val /\ defaults_ok FToml ex_ty.
Proof.
  split.
  - unfold in_subset. split; [reflexivity|]. split; [reflexivity|].
    eexists. split; [reflexivity | reflexivity].
  - intro H. reflexivity.
Qed.

(* the TOML tree keeps the datetime and the time native and has no "opt" key;
   the msgpack tree keeps the bytearray native, which the library hands back as bytes *)
Example C04_nonvacuous_trees :
  pack id_render (dialect_of FToml) ex_ty ex_val =
    Ok (BDict [("when", BNat KDatetime "2020-01-02T03:04:05"); ("blob", BStr "ab");
               ("inner", BList [BDict [("t", BNat KTime "01:02:03"); ("m", BDict [("k", BStr "v")])]])])
  /\ (exists b, pack id_render (dialect_of FMsgpack) ex_ty ex_val = Ok b /\
                lookup "blob" (match norm id_render FMsgpack b with BDict l => l | _ => [] end) = Some (BNat KBytes "ab"))
  /\ unpack id_parse_leaf (dialect_of FToml) ex_ty
       (BDict [("when", BNat KDatetime "2020-01-02T03:04:05"); ("blob", BStr "ab");
               ("inner", BList [BDict [("t", BNat KTime "01:02:03"); ("m", BDict [("k", BStr "v")])]])])
     = Ok ex_val.
Proof. split; [reflexivity|]. split; [eexists; split; reflexivity | reflexivity]. Qed.
