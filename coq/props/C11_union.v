(* C11: Union, Optional and Literal resolution is deterministic and never swallows data.
   Model: theories/UnionModel.v (faithful to the generated code, parametric in the member
   (un)packers); proofs: theories/UnionProofs.v.  Tie to /repo: behavioural correspondence
   on every run (harness/props/c11.py). *)
From Coq Require Import List String ZArith Bool.
From Verif Require Import UnionModel UnionProofs UnionDeep UnionDeepProofs UnionEmit K19Proofs.
From VerifGen Require Import K19.
From Verif Require PackEmit K21Proofs.
From Verif Require Import UnionDeepEnc UnionDeepEncProofs.
From Verif Require LitEmit K22Proofs PyLit PyLitProofs PyStrLit.
From VerifGen Require K22.
From VerifGen Require K21.
From Verif Require Import UnionDispatch K43Proofs.
From Verif Require Import UnionMember.
From Verif Require Import ScalarCreators K43aProofs.
From VerifGen Require Import K43a.
From VerifGen Require Import K43.
Import ListNotations.
Open Scope string_scope.
Open Scope Z_scope.

(* ---------- decode: generated union method = reference ---------- *)

(* full strength (every union, every input) -- FALSE for the generated code, see the two
   _refuted lemmas below *)
Definition C11_union_decode_full : Prop :=
  forall co ms d, union_dec co ms d = ref_union co ms d.

(* proved where the None fallback is harmless (no None member, or the input is None) and no
   earlier non-scalar member accepts an input of exact scalar member class *)
Theorem C11_union_decode_partial : forall co ms d,
  coherent ms d -> none_safe ms d = true -> no_shadow ms d = true ->
  union_dec co ms d = ref_union co ms d.
Proof. exact union_decode_partial. Qed.
Print Assumptions C11_union_decode_partial.

(* the two listed deviations are the only ones, and each has exactly the listed shape *)
Theorem C11_union_deviation_char : forall co ms d, coherent ms d ->
  union_dec co ms d <> ref_union co ms d ->
  no_shadow ms d = false \/
  (scalar_member KNone ms = true /\ is_none d = false /\ union_dec co ms d = Some UNone).
Proof. exact union_deviation_char. Qed.
Print Assumptions C11_union_deviation_char.

Theorem C11_union_shadow_result : forall co ms d, coherent ms d -> no_shadow ms d = false ->
  union_dec co ms d = first_some (ref_nonscalar d) ms /\ union_dec co ms d <> None /\ exact_hit ms d = true.
Proof. exact union_shadow_result. Qed.
Print Assumptions C11_union_shadow_result.

(* D2: Union[int, None, date] <- "garbage" returns None instead of raising *)
Definition w_date (d: uv) : option uv :=
  match d with UStr "2020-01-01" => Some (UObj "date" "datetime.date(2020, 1, 1)") | _ => None end.
Definition w_co (k: skind) (d: uv) : option uv :=
  match k, d with
  | KInt, UInt z => Some (UInt z) | KInt, UStr "1" => Some (UInt 1)
  | KStr, UStr s => Some (UStr s)
  | _, _ => None end.

Lemma C11_union_none_witness :
  let ms := [MS KInt; MS KNone; MN 0 w_date] in let d := UStr "garbage" in
  coherent ms d /\ no_shadow ms d = true /\ none_safe ms d = false /\
  union_dec w_co ms d = Some UNone /\ ref_union w_co ms d = None.
Proof.
  cbv zeta. split; [|repeat split; reflexivity].
  intros e f g [H|[H|[H|[]]]] [H'|[H'|[H'|[]]]]; try discriminate. inversion H; inversion H'; subst; reflexivity.
Qed.

Theorem C11_union_none_refuted : ~ C11_union_decode_full.
Proof.
  intro H. specialize (H w_co [MS KInt; MS KNone; MN 0%nat w_date] (UStr "garbage")). discriminate H.
Qed.
Print Assumptions C11_union_none_refuted.

(* Union[date, str] <- "2020-01-01" returns a date although str is a member (no None member involved) *)
Lemma C11_union_shadow_witness :
  let ms := [MN 0 w_date; MS KStr] in let d := UStr "2020-01-01" in
  none_safe ms d = true /\ no_shadow ms d = false /\
  union_dec w_co ms d = Some (UObj "date" "datetime.date(2020, 1, 1)") /\ ref_union w_co ms d = Some d.
Proof. cbv zeta. repeat split; reflexivity. Qed.

Theorem C11_union_shadow_refuted :
  ~ (forall co ms d, none_safe ms d = true -> union_dec co ms d = ref_union co ms d).
Proof.
  intro H. specialize (H w_co [MN 0%nat w_date; MS KStr] (UStr "2020-01-01") eq_refl). discriminate H.
Qed.
Print Assumptions C11_union_shadow_refuted.

(* ---------- no cross-coercion, provenance, raise, determinism ---------- *)

Theorem C11_no_cross_coercion : forall co ms d k, coherent ms d ->
  kind_of d = Some k -> In (MS k) ms -> no_shadow ms d = true -> union_dec co ms d = Some d.
Proof. exact no_cross_coercion. Qed.
Print Assumptions C11_no_cross_coercion.

(* static sufficient condition: scalar members declared before all others *)
Theorem C11_scalars_first_no_shadow : forall ms d, scalars_first ms = true -> no_shadow ms d = true.
Proof. exact scalars_first_no_shadow. Qed.
Print Assumptions C11_scalars_first_no_shadow.

Theorem C11_union_result_from_member : forall co ms d r, union_dec co ms d = Some r ->
  (exact_hit ms d = true /\ r = d) \/
  (exists e f, In (MN e f) ms /\ f d = Some r) \/
  (exists k, In (MS k) ms /\ coerce co k d = Some r).
Proof. exact union_result_from_member. Qed.
Print Assumptions C11_union_result_from_member.

Theorem C11_union_raises_iff : forall co ms d, coherent ms d ->
  (union_dec co ms d = None <-> forall m, In m ms -> att1 d m = None /\ att2 co d m = None).
Proof. exact union_raises_iff. Qed.
Print Assumptions C11_union_raises_iff.

Theorem C11_none_member_never_raises : forall co ms d, coherent ms d ->
  In (MS KNone) ms -> union_dec co ms d <> None.
Proof. exact none_member_never_raises. Qed.
Print Assumptions C11_none_member_never_raises.

Theorem C11_deterministic : forall co ms ms' d, Forall2 (magree co d) ms ms' ->
  union_dec co ms d = union_dec co ms' d.
Proof. exact union_deterministic. Qed.
Print Assumptions C11_deterministic.

(* the generator's skipping of repeated (condition, expression) pairs is invisible *)
Theorem C11_union_dedup_invisible : forall co ms d, coherent ms d -> union_dec co ms d = union_run co ms d.
Proof. exact union_dec_dedup. Qed.
Print Assumptions C11_union_dedup_invisible.

(* nested unions (a union as a member of a union, e.g. TypeVar constraints that are unions):
   the generated method equals the reference when every union inside is in the domain *)
Theorem C11_nested_union_partial : forall co t d, tcoh co d t -> tsafe co d t = true ->
  tdec co t d = tref co t d.
Proof. exact nested_union_partial. Qed.
Print Assumptions C11_nested_union_partial.

Example C11_nested_nonvacuous :
  let t := TU 9 [TS KInt; TU 8 [TLeaf 0 w_date; TLeaf 1 (fun _ => None)]; TS KStr] in
  (forall d, tcoh w_co d t) /\ tsafe w_co (UStr "x") t = true /\ tsafe w_co (UStr "2020-01-01") t = false /\
  tdec w_co t (UStr "x") = Some (UStr "x") /\ tdec w_co t (UObj "list" "[]") = None.
Proof.
  cbv zeta. split; [|repeat split; reflexivity].
  intro d; simpl; repeat split; unfold coherent; simpl; intros e f g H H';
    repeat (destruct H as [H|H]; try discriminate; try contradiction);
    repeat (destruct H' as [H'|H']; try discriminate; try contradiction);
    inversion H; inversion H'; subst; try reflexivity; discriminate.
Qed.

(* several union positions in one shape (tuple[U1, U2], fields, mapping values): each position follows
   the reference for its own declaration order, whatever unions occur at the other positions *)
Theorem C11_shape_positions : forall co ps,
  Forall (fun p => coherent (fst p) (snd p) /\ none_safe (fst p) (snd p) = true /\ no_shadow (fst p) (snd p) = true) ps ->
  shape_run (union_dec co) ps = shape_run (ref_union co) ps.
Proof. exact shape_positions. Qed.
Print Assumptions C11_shape_positions.

(* tuple[Union[int, float], Union[float, int]] <- ["1", "1"] is (1, 1.0) *)
Example C11_shape_permuted_orders :
  let co := fun k d => match k, d with KInt, UStr "1" => Some (UInt 1) | KFloat, UStr "1" => Some (UFloat (Some 1) "1.0") | _, _ => None end in
  shape_run (union_dec co) [([MS KInt; MS KFloat], UStr "1"); ([MS KFloat; MS KInt], UStr "1")]
  = Some [UInt 1; UFloat (Some 1) "1.0"].
Proof. reflexivity. Qed.

(* TypeVar positions: constraints decide, a default or bound next to them is irrelevant *)
Theorem C11_typevar_constraints_win : forall co cs fb fb' d, cs <> [] ->
  typevar_dec co cs fb d = union_dec co cs d /\ typevar_dec co cs fb d = typevar_dec co cs fb' d.
Proof. exact typevar_constraints_win. Qed.
Print Assumptions C11_typevar_constraints_win.

Theorem C11_typevar_partial : forall co cs fb d, cs <> [] ->
  coherent cs d -> none_safe cs d = true -> no_shadow cs d = true ->
  typevar_dec co cs fb d = ref_union co cs d.
Proof. exact typevar_partial. Qed.
Print Assumptions C11_typevar_partial.

(* T = TypeVar("T", int, str, default=str) <- 1 is 1, not "1" *)
Example C11_typevar_default_ignored :
  typevar_dec (fun k d => match k, d with KStr, UInt 1 => Some (UStr "1") | _, _ => None end)
              [MS KInt; MS KStr] (fun d => match d with UInt 1 => Some (UStr "1") | _ => None end) (UInt 1) = Some (UInt 1).
Proof. reflexivity. Qed.

(* ---------- union positions at any depth of the surrounding type ---------- *)
(* cty: scalars, leaves, unions, Optional, List[T], Tuple[T, ...], Tuple[T1..Tn], Dict[str, T], nested at will.
   ydec = generated unpacker (union positions: union_dec; containers: the comprehension / indexing
   expressions); yref = the same plumbing with the property's ref_union at every union position. *)
Definition C11_deep_decode_full : Prop := forall co t d, ydec co t d = yref co t d.

(* ysafe: every union visited while decoding d (at the value it receives) satisfies none_safe and no_shadow *)
Theorem C11_deep_decode_partial : forall co t d,
  ycoh co t d -> ysafe co t d = true -> ydec co t d = yref co t d.
Proof. exact deep_partial. Qed.
Print Assumptions C11_deep_decode_partial.

(* List[Union[date, str]] <- ["2020-01-01"]: the shadowing deviation occurs below a container *)
Theorem C11_deep_decode_refuted : ~ C11_deep_decode_full.
Proof.
  intro H. specialize (H w_co (YList (YU [(0%nat, YLeaf w_date); (1%nat, YS KStr)])) (UList [UStr "2020-01-01"])).
  discriminate H.
Qed.
Print Assumptions C11_deep_decode_refuted.

Example C11_deep_nonvacuous :
  let u := YU [(0%nat, YS KInt); (1%nat, YLeaf w_date); (2%nat, YS KStr)] in
  let t := YDict (YTupF [YList u; YOpt (YTupV u)]) in
  let d := UDict [(UStr "k", UList [UList [UInt 1; UStr "x"; UStr "1"]; UTuple [UStr "y"]])] in
  ycoh w_co t d /\ ysafe w_co t d = true /\
  ydec w_co t d = Some (UDict [(UStr "k", UTuple [UList [UInt 1; UStr "x"; UStr "1"]; UTuple [UStr "y"]])]) /\
  ysafe w_co t (UDict [(UStr "k", UList [UList [UStr "2020-01-01"]; UNone])]) = false /\
  ydec w_co t (UDict [(UStr "k", UList [UList [UObj "set" "{1}"]; UNone])]) = None.
Proof.
  cbv zeta. split; [|repeat split; reflexivity].
  assert (C: forall d, coherent [MS KInt; MN 1 w_date; MS KStr] d).
  { intro d. apply nodup_coherent. simpl. repeat constructor; simpl; intuition discriminate. }
  simpl. unfold dict_All, seq_All. intros kvs E; inversion E; subst; clear E. repeat constructor; simpl.
  - intros x E; inversion E; subst; clear E. intros l E; inversion E; subst; clear E.
    repeat constructor; simpl; auto; apply C.
  - intros x E; inversion E; subst; clear E. intros _ l E; inversion E; subst; clear E.
    repeat constructor; simpl; auto; apply C.
Qed.

(* ---------- K19: the translated emission loop of UnionUnpackerBuilder._add_body ---------- *)
(* K19.emit is re-translated from /repo on every run; the method text it describes computes union_dec *)
Theorem C11_union_emit_correct : forall co ms d, Forall wf_mspec ms ->
  run_lines co (emit ms) d = union_dec co (map to_member ms) d.
Proof. exact emit_correct. Qed.
Print Assumptions C11_union_emit_correct.

(* hence the code the current source emits follows the reference on the stated domain *)
Theorem C11_union_emitted_partial : forall co ms d, Forall wf_mspec ms ->
  coherent (map to_member ms) d -> none_safe (map to_member ms) d = true -> no_shadow (map to_member ms) d = true ->
  run_lines co (emit ms) d = ref_union co (map to_member ms) d.
Proof. intros. rewrite emit_correct by assumption. apply union_decode_partial; assumption. Qed.
Print Assumptions C11_union_emitted_partial.

(* exception classes: whatever the member expressions raise, the only exception that leaves the emitted
   union method is its own final raise (ValueError(value) / InvalidFieldValue), exactly when no member accepts *)
Theorem C11_union_raise_class : forall co ms d, Forall wf_mspec ms ->
  run_lines_x co (emit ms) d = match union_dec co (map to_member ms) d with Some x => XRet x | None => XValueError end.
Proof. exact emit_raise_class. Qed.
Print Assumptions C11_union_raise_class.

Example C11_emit_nonvacuous :
  let ms := [SM KInt; NM 0 false w_date; SM KNone; NM 0 false w_date; NM 1 true Some] in
  Forall wf_mspec ms /\
  emit ms = [LValueType; LPlain (BIfRet (CVt (SM KInt))); LTry [BRet (NM 0 false w_date)]; LPlain (BIfRet (CVt (SM KNone)));
             LPlain (BRet (NM 1 true Some)); LTryRet (SM KInt); LTryRet (SM KNone); LRaise] /\
  run_lines w_co (emit ms) (UStr "2020-01-01") = Some (UObj "date" "datetime.date(2020, 1, 1)").
Proof. cbv zeta. split; [repeat constructor; simpl; auto | split; reflexivity]. Qed.

(* ---------- Optional ---------- *)

Theorem C11_opt : forall co,
  (forall f, opt_dec f UNone = Some UNone) /\
  (forall f d, is_none d = false -> opt_dec f d = f d) /\
  (forall e f d, opt_dec f d = ref_union co [MN e f; MS KNone] d /\ opt_dec f d = ref_union co [MS KNone; MN e f] d) /\
  (forall k d, k <> KNone -> (forall x, kind_of x = Some k -> co k x = Some x) ->
     opt_dec (co k) d = ref_union co [MS k; MS KNone] d /\ opt_dec (co k) d = ref_union co [MS KNone; MS k] d).
Proof.
  intro co. split; [exact opt_none | split; [exact opt_not_none | split; [exact (opt_ref_nonscalar co) | exact (opt_ref_scalar co)]]].
Qed.
Print Assumptions C11_opt.

(* ---------- K43: the translated dispatch at union / Optional / type variable positions ---------- *)
(* K43.is_optional, not_none_type_arg, is_type_var_any, expr_or_maybe_none and the union / type variable
   branches of unpack_special_typing_primitive / pack_special_typing_primitive are re-translated from /repo
   on every run.  dty / dspec / dexpr: what these functions read of a type / ValueSpec and the expression
   they return; xden / pden: its meaning in terms of opt_dec / union_dec / pack_union. *)

(* which unions are the Optional short-circuit: exactly two arguments, one resolving to NoneType *)
Theorem C11_is_optional_spec : forall rtp t,
  is_optional t rtp = match t with DUnion [a; b] => rnone rtp a || rnone rtp b | _ => false end.
Proof. exact is_optional_spec. Qed.
Print Assumptions C11_is_optional_spec.

(* which argument it delegates to: the first that does not resolve to NoneType *)
Theorem C11_not_none_arg_spec : forall rtp l, not_none_type_arg l rtp = find (fun t => negb (rnone rtp t)) l.
Proof. exact not_none_spec. Qed.
Print Assumptions C11_not_none_arg_spec.

(* a union position (no Discriminator annotation): short-circuit or the generated union method *)
Theorem C11_union_dispatch_correct : forall co D eid rtp args c,
  xden co D eid (unpack_special_typing_primitive rtp (DS (DUnion args) c false)) =
    if is_optional (DUnion args) rtp
    then (if c then opt_dec (D (not_none_type_arg args rtp)) else D (not_none_type_arg args rtp))
    else union_dec co (map (dmember D eid) args).
Proof. exact unpack_union_dispatch. Qed.
Print Assumptions C11_union_dispatch_correct.

(* a type variable position: Any-like -> the value; constrained -> union of the constraints (default / bound
   ignored); otherwise Optional[default, else bound] *)
Theorem C11_typevar_dispatch_correct : forall co D eid rtp n cs b d c,
  let t := DTypeVar n false cs b d in
  xden co D eid (unpack_special_typing_primitive rtp (DS t c false)) =
    if is_type_var_any t then Some
    else match cs with
         | [] => let fb := D (match d with Some x => Some x | None => b end) in if c then opt_dec fb else fb
         | _ => union_dec co (map (dmember D eid) cs) end.
Proof. exact unpack_typevar_dispatch. Qed.
Print Assumptions C11_typevar_dispatch_correct.

(* ... which is the hand-written typevar_dec of C11_typevar_partial *)
Theorem C11_typevar_dispatch_model : forall co D eid rtp n cs b d dd,
  let t := DTypeVar n false cs b d in
  is_type_var_any t = false ->
  xden co D eid (unpack_special_typing_primitive rtp (DS t true false)) dd =
    typevar_dec co (map (dmember D eid) cs) (D (match d with Some x => Some x | None => b end)) dd.
Proof. exact unpack_typevar_dispatch_model. Qed.
Print Assumptions C11_typevar_dispatch_model.

(* FULL strength on the two-member Optional form, in either order: no domain predicate *)
Theorem C11_optional_position_full : forall co D eid rtp a c d,
  dwf co D -> rnone rtp a = false -> is_nonetype a = false -> c = true ->
  xden co D eid (unpack_special_typing_primitive rtp (DS (DUnion [a; DScalar KNone]) c false)) d
    = ref_union co (map (dmember D eid) [a; DScalar KNone]) d /\
  xden co D eid (unpack_special_typing_primitive rtp (DS (DUnion [DScalar KNone; a]) c false)) d
    = ref_union co (map (dmember D eid) [DScalar KNone; a]) d.
Proof. exact optional_position_full. Qed.
Print Assumptions C11_optional_position_full.

(* every union position: the statement of the property over what the CURRENT SOURCE dispatches to *)
Definition C11_union_position_full : Prop :=
  forall co D eid rtp args d, dwf co D -> rtp_inert rtp args -> NoDup args ->
    coherent (map (dmember D eid) args) d ->
    xden co D eid (unpack_special_typing_primitive rtp (DS (DUnion args) true false)) d
      = ref_union co (map (dmember D eid) args) d.

Theorem C11_union_position_partial : forall co D eid rtp args d,
  dwf co D -> rtp_inert rtp args -> NoDup args ->
  coherent (map (dmember D eid) args) d ->
  (is_optional (DUnion args) rtp = true \/
   (none_safe (map (dmember D eid) args) d = true /\ no_shadow (map (dmember D eid) args) d = true)) ->
  xden co D eid (unpack_special_typing_primitive rtp (DS (DUnion args) true false)) d
    = ref_union co (map (dmember D eid) args) d.
Proof. exact union_position_partial. Qed.
Print Assumptions C11_union_position_partial.

(* witness coercions that are the identity on the exact class (dwf) *)
Definition w_co2 (k: skind) (d: uv) : option uv :=
  if has_kind k d then Some d else match k, d with KInt, UStr "1" => Some (UInt 1) | _, _ => None end.
Definition w_D (t: option dty) : uv -> option uv :=
  match t with
  | Some (DScalar KNone) | None => fun _ => Some UNone
  | Some (DScalar k) => w_co2 k
  | Some (DPlain 0) => w_date
  | _ => fun _ => None end.
Definition w_eid (t: dty) : nat := match t with DPlain n => n | _ => 99%nat end.

Lemma w_dwf : dwf w_co2 w_D.
Proof.
  intros k Hk. split.
  - destruct k; try reflexivity. contradiction Hk; reflexivity.
  - intros x Hx. unfold w_co2, has_kind. rewrite Hx. destruct k; reflexivity.
Qed.

(* Union[int, None, date] at a position <- "garbage": dispatched to the union method, None fallback (D2) *)
Theorem C11_union_position_refuted : ~ C11_union_position_full.
Proof.
  intro H.
  specialize (H w_co2 w_D w_eid no_rtp [DScalar KInt; DScalar KNone; DPlain 0%nat] (UStr "garbage") w_dwf
                (no_rtp_inert _)).
  assert (Hnd: NoDup [DScalar KInt; DScalar KNone; DPlain 0%nat]).
  { repeat constructor; simpl; intuition discriminate. }
  assert (Hc: coherent (map (dmember w_D w_eid) [DScalar KInt; DScalar KNone; DPlain 0%nat]) (UStr "garbage")).
  { apply nodup_coherent. simpl. repeat constructor; simpl; intuition discriminate. }
  specialize (H Hnd Hc). discriminate H.
Qed.
Print Assumptions C11_union_position_refuted.

(* both directions take the same decision *)
Theorem C11_dispatch_symmetric : forall rtp t c,
  pack_special_typing_primitive rtp (DS t c false) = unpack_special_typing_primitive rtp (DS t c false).
Proof. exact dispatch_symmetric. Qed.
Print Assumptions C11_dispatch_symmetric.

(* Optional[a], serialization: None as None, anything else by a's packer; argument order irrelevant *)
Theorem C11_optional_encode : forall P pcls pid eid rtp a v,
  rnone rtp a = false ->
  (pid a = true -> P (Some a) v = Some v) ->
  let e := pack_special_typing_primitive rtp (DS (DUnion [a; DScalar KNone]) true false) in
  let e' := pack_special_typing_primitive rtp (DS (DUnion [DScalar KNone; a]) true false) in
  pden P pcls pid eid e v = (if is_none v then Some UNone else p_out (dpmember P pcls pid eid a) v) /\
  pden P pcls pid eid e' v = pden P pcls pid eid e v.
Proof. exact optional_encode. Qed.
Print Assumptions C11_optional_encode.

(* the None test is made exactly once, by the field (nullable: compiled with could_be_none = False) or by
   expr_or_maybe_none *)
Theorem C11_field_none_test_once : forall co D eid nullable e d,
  field_dec nullable (xden co D eid (expr_or_maybe_none (DS DAny (negb nullable) false) e)) d = opt_dec (xden co D eid e) d.
Proof. exact field_none_test_once. Qed.
Print Assumptions C11_field_none_test_once.

(* what runs before the dispatch in the registries: user overrides (C10), SerializableType, dataclasses,
   Final, Any -- none of them answers for a plain Union / Optional / type variable position *)
Example C11_creators_before :
  unpack_creators_before = ["unpack_type_with_overridden_deserialization"; "unpack_serializable_type";
                            "unpack_generic_serializable_type"; "unpack_dataclass"; "unpack_final"; "unpack_any"]%string /\
  pack_creators_before = ["pack_type_with_overridden_serialization"; "pack_serializable_type";
                          "pack_generic_serializable_type"; "pack_dataclass"; "pack_final"; "pack_any"]%string.
Proof. split; reflexivity. Qed.

Example C11_dispatch_nonvacuous :
  let tv := DTypeVar 7 false [] None None in
  (* Optional[date] / Union[None, date]: short-circuit on date *)
  unpack_special_typing_primitive no_rtp (DS (DUnion [DPlain 0; DScalar KNone]) true false) = XOrNone (XReg (Some (DPlain 0%nat))) /\
  unpack_special_typing_primitive no_rtp (DS (DUnion [DScalar KNone; DPlain 0]) false false) = XReg (Some (DPlain 0%nat)) /\
  (* Optional[Union[int, date]] is Union[int, date, None]: the union method *)
  unpack_special_typing_primitive no_rtp (DS (DUnion [DScalar KInt; DPlain 0; DScalar KNone]) true false)
    = XUnion [DScalar KInt; DPlain 0%nat; DScalar KNone] /\
  (* Union[T, date] in a class specialised with T = None *)
  unpack_special_typing_primitive (fun n => if Nat.eqb n 7 then Some (DScalar KNone) else None) (DS (DUnion [tv; DPlain 0]) true false)
    = XOrNone (XReg (Some (DPlain 0%nat))) /\
  (* TypeVar("T", int, str, default=str): the constraints; TypeVar("T", bound=date): Optional[date]; TypeVar("T"): the value *)
  unpack_special_typing_primitive no_rtp (DS (DTypeVar 1 false [DScalar KInt; DScalar KStr] None (Some (DScalar KStr))) true false)
    = XTypeVar [DScalar KInt; DScalar KStr] /\
  pack_special_typing_primitive no_rtp (DS (DTypeVar 1 false [] (Some (DPlain 0%nat)) None) true false) = XOrNone (XReg (Some (DPlain 0%nat))) /\
  unpack_special_typing_primitive no_rtp (DS tv true false) = XValue /\
  (* meaning *)
  xden w_co2 w_D w_eid (unpack_special_typing_primitive no_rtp (DS (DUnion [DPlain 0; DScalar KNone]) true false)) (UStr "2020-01-01")
    = Some (UObj "date" "datetime.date(2020, 1, 1)") /\
  xden w_co2 w_D w_eid (unpack_special_typing_primitive no_rtp (DS (DUnion [DPlain 0; DScalar KNone]) true false)) UNone = Some UNone /\
  xden w_co2 w_D w_eid (unpack_special_typing_primitive no_rtp (DS (DUnion [DPlain 0; DScalar KNone]) true false)) (UStr "garbage") = None /\
  xden w_co2 w_D w_eid (unpack_special_typing_primitive no_rtp (DS (DUnion [DScalar KInt; DScalar KNone; DPlain 0]) true false)) (UStr "garbage")
    = Some UNone.
Proof. cbv zeta. repeat split; reflexivity. Qed.

(* ---------- encode ---------- *)

Definition C11_union_encode_full : Prop :=
  forall pms v m, In m pms -> p_accepts m v = true -> pack_union pms v = p_out m v.

Theorem C11_union_encode_partial : forall pms v m, pcoherent pms v ->
  In m pms -> p_accepts m v = true -> wire_disjoint pms v = true -> pack_union pms v = p_out m v.
Proof. exact pack_union_partial. Qed.
Print Assumptions C11_union_encode_partial.

(* Union[List[int], List[date]] holding [date(2020,1,1)]: the first packer (`value.copy()`)
   does not check the element class and returns the list of dates unchanged *)
Definition w_copy (v: uv) : option uv := match v with UObj "list" _ => Some v | _ => None end.
Definition w_isolist (v: uv) : option uv :=
  match v with UObj "list" "[datetime.date(2020, 1, 1)]" => Some (UObj "list" "['2020-01-01']") | _ => None end.

Theorem C11_union_encode_refuted : ~ C11_union_encode_full.
Proof.
  intro H.
  specialize (H [PM "list" (Some 1%nat) w_copy; PM "list" (Some 2%nat) w_isolist]
                (UObj "list" "[datetime.date(2020, 1, 1)]") (PM "list" (Some 2%nat) w_isolist)
                (or_intror (or_introl eq_refl)) eq_refl).
  discriminate H.
Qed.
Print Assumptions C11_union_encode_refuted.

(* ---------- K21: the translated loops of pack.py:pack_union ---------- *)
(* K21.emit is re-translated from /repo on every run; the method it describes computes pack_union *)
Theorem C11_pack_emit_correct : forall pms v, pms <> [] ->
  PackEmit.run_pres (K21.emit pms) v = pack_union pms v.
Proof. exact K21Proofs.emit_pack_correct. Qed.
Print Assumptions C11_pack_emit_correct.

(* hence the packer the current source emits picks the matching member on the stated domain *)
Theorem C11_pack_emitted_partial : forall pms v m, pms <> [] -> pcoherent pms v ->
  In m pms -> p_accepts m v = true -> wire_disjoint pms v = true ->
  PackEmit.run_pres (K21.emit pms) v = p_out m v.
Proof. intros. rewrite K21Proofs.emit_pack_correct by assumption. apply pack_union_partial; assumption. Qed.
Print Assumptions C11_pack_emitted_partial.

Example C11_pack_emit_nonvacuous :
  let d := fun v => match v with UObj "date" _ => Some (UStr "2020-01-01") | _ => None end in
  let pms := [PM "date" (Some 1%nat) d; PM "str" None Some; PM "int" None Some; PM "date" (Some 1%nat) d] in
  K21.emit pms = PackEmit.PMethod [PackEmit.PLIdent (PackEmit.PIn ["str"; "int"]); PackEmit.PLTry (PM "date" (Some 1%nat) d); PackEmit.PLRaise] /\
  K21.emit [PM "str" None Some; PM "int" None Some] = PackEmit.PIdentity /\
  PackEmit.run_pres (K21.emit pms) (UObj "date" "datetime.date(2020, 1, 1)") = Some (UStr "2020-01-01").
Proof. cbv zeta. repeat split; reflexivity. Qed.

(* ---------- serialization at any depth ---------- *)
(* flat: with a member whose branch accepts the value and agreeing branches, the generated packer is the
   first accepting member in declaration order *)
Theorem C11_union_encode_ref : forall pms v, pcoherent pms v -> wire_disjoint pms v = true ->
  existsb (fun m => p_accepts m v) pms = true -> pack_union pms v = ref_pack pms v.
Proof. exact pack_union_ref. Qed.
Print Assumptions C11_union_encode_ref.

Definition C11_deep_encode_full : Prop := forall t v, qenc t v = qref t v.

(* qsafe: every union visited while packing v has an accepting member and agreeing branches *)
Theorem C11_deep_encode_partial : forall t v, qcoh t v -> qsafe t v = true -> qenc t v = qref t v.
Proof. exact deep_enc_partial. Qed.
Print Assumptions C11_deep_encode_partial.

(* List[Union[Decimal, int]] holding [5] (Decimal's packer is str(value)): the class-checked identity
   block is emitted first, so 5 stays 5 although the member declared first would accept it.  Here the
   generated code is RIGHT and the declaration-order reading is not: the reference [ref_pack] is only the
   model-internal proxy of "the member matching the value" (membership of a value in a type is judged by
   the harness); inside the domain [qsafe] all firing branches agree and the two readings coincide. *)
Theorem C11_deep_encode_refuted : ~ C11_deep_encode_full.
Proof.
  intro H.
  specialize (H (QList (QU [(1%nat, QLeaf "Decimal" false (fun v => match v with UInt 5 => Some (UStr "5") | _ => None end));
                            (2%nat, QLeaf "int" true Some)]))
                (UList [UInt 5])).
  discriminate H.
Qed.
Print Assumptions C11_deep_encode_refuted.

Example C11_deep_encode_nonvacuous :
  let dt := QLeaf "date" false (fun v => match v with UObj "date" _ => Some (UStr "2020-01-01") | _ => None end) in
  let u := QU [(0%nat, QLeaf "int" true Some); (1%nat, dt); (2%nat, QList (QU [(0%nat, QLeaf "str" true Some); (1%nat, dt)]))] in
  let t := QDict (QTupF [u; QOpt u]) in
  let d := UObj "date" "datetime.date(2020, 1, 1)" in
  let v := UDict [(UStr "k", UTuple [UList [UStr "a"; d]; UNone])] in
  qsafe t v = true /\ qenc t v = Some (UDict [(UStr "k", UList [UList [UStr "a"; UStr "2020-01-01"]; UNone])]) /\
  qenc t (UDict [(UStr "k", UTuple [UInt 5; d])]) = Some (UDict [(UStr "k", UList [UInt 5; UStr "2020-01-01"])]) /\
  qenc t (UDict [(UStr "k", UTuple [UFloat None "1.5"; UNone])]) = None.
Proof. cbv zeta. repeat split; reflexivity. Qed.

(* ---------- K43a: which members are the "basic scalar members" ---------- *)
(* the creators unpack_any / unpack_number / unpack_bool / unpack_none, the str branch of unpack_collection and
   their pack counterparts are re-translated from /repo on every run (oty: the origin type they test) *)

(* int / float / bool / str / NoneType get a TypeMatchEligibleExpression of their OWN coercion: the MS k of
   union_dec (exact-type statement + coerce k as the fallback), no cross-coercion is ever emitted *)
Theorem C11_scalar_members_tme : forall k, scalar_unpack (origin_of k) = Some (STme k).
Proof. exact scalar_members_tme. Qed.
Print Assumptions C11_scalar_members_tme.

(* their packer is the expression "value": the identity members of pack_union *)
Theorem C11_scalar_members_identity_packer : forall k, scalar_pack (origin_of k) = Some SValue.
Proof. exact scalar_members_identity_packer. Qed.
Print Assumptions C11_scalar_members_identity_packer.

Theorem C11_tme_only_scalars : forall o k, scalar_unpack o = Some (STme k) ->
  o = origin_of k \/ (o = ONonePy /\ k = KNone) \/ (o = OStr true /\ k = KStr).
Proof. exact tme_only_scalars. Qed.
Print Assumptions C11_tme_only_scalars.

(* at most one of the five creators answers for a type (bool is not a number here), so their order is irrelevant *)
Theorem C11_scalar_creators_exclusive : forall o,
  (fold_right Nat.add 0 (map (fun f => match f o with Some _ => 1 | None => 0 end)
                             [unpack_any; unpack_number; unpack_bool; unpack_none; unpack_str]) <= 1)%nat.
Proof. exact creators_exclusive. Qed.
Print Assumptions C11_scalar_creators_exclusive.

(* the member that K19's emission loop sees for a basic scalar type is SM k, i.e. MS k of the model *)
Theorem C11_scalar_type_is_scalar_member : forall k e dec,
  mspec_of (origin_of k) e dec = SM k /\ to_member (mspec_of (origin_of k) e dec) = MS k /\ is_tme (mspec_of (origin_of k) e dec) = true.
Proof. exact scalar_type_is_scalar_member. Qed.
Print Assumptions C11_scalar_type_is_scalar_member.

(* ---------- serialization of member VALUES: typing membership inside the model ---------- *)
(* rty = pty whose leaves carry their membership; rconf r v: v is a value of type r (Optional: None or the
   argument, Union: some member, containers: exact class and every item); rmem: at every union the FIRST
   member, in declaration order, to which the value BELONGS packs it (the property's encode_member);
   renc = the generated packer (qenc, pack_union at union positions). *)
Definition C11_member_value_full : Prop :=
  forall r v, rleaves r -> rconf r v = true -> qcoh (to_pty r) v -> renc r v = rmem r v.

(* rwd: along the members the value belongs to, the branches that fire on it agree (hereditary wire_disjoint).
   Conclusion: the value is packed as by its member, and packing does not raise. *)
Theorem C11_member_value_partial : forall r v,
  rleaves r -> rconf r v = true -> qcoh (to_pty r) v -> rwd r v = true ->
  renc r v = rmem r v /\ rmem r v <> None.
Proof. exact (fun r v => member_value_partial r v). Qed.
Print Assumptions C11_member_value_partial.

(* Union[List[int], List[date]] holding [date(..)]: belongs to the second member only, the first packer takes it *)
Definition w_enc1 (v: uv) : option uv := match v with UList _ => Some v | _ => None end.
Definition w_conf1 (v: uv) : bool := match v with UList [UInt _] => true | _ => false end.
Definition w_enc2 (v: uv) : option uv :=
  match v with UList [UObj c _] => if String.eqb c "date" then Some (UList [UStr "2020-01-01"]) else None | _ => None end.
Definition w_conf2 (v: uv) : bool := match v with UList [UObj c _] => String.eqb c "date" | _ => false end.

Lemma w_leaf1 : leaf_ok "list" false w_enc1 w_conf1.
Proof. intros v H. destruct v; try discriminate H. split; [discriminate | intro E; discriminate E]. Qed.
Lemma w_leaf2 : leaf_ok "list" false w_enc2 w_conf2.
Proof.
  intros v H. destruct v as [| | | | |l| | |]; try discriminate H.
  destruct l as [|x l']; try discriminate H. destruct x; try discriminate H. destruct l'; try discriminate H.
  simpl in *. rewrite H. split; [discriminate | intro E; discriminate E].
Qed.

Theorem C11_member_value_refuted : ~ C11_member_value_full.
Proof.
  intro H.
  specialize (H (RU [(1%nat, RLeaf "list" false w_enc1 w_conf1); (2%nat, RLeaf "list" false w_enc2 w_conf2)])
                (UList [UObj "date" "datetime.date(2020, 1, 1)"])).
  assert (L: rleaves (RU [(1%nat, RLeaf "list" false w_enc1 w_conf1); (2%nat, RLeaf "list" false w_enc2 w_conf2)])).
  { simpl. split; [exact w_leaf1 | split; [exact w_leaf2 | exact I]]. }
  assert (Q: qcoh (to_pty (RU [(1%nat, RLeaf "list" false w_enc1 w_conf1); (2%nat, RLeaf "list" false w_enc2 w_conf2)]))
                  (UList [UObj "date" "datetime.date(2020, 1, 1)"])).
  { simpl. split; [|repeat split].
    intros a b Ha Hb _ _ Hk. simpl in Ha, Hb.
    destruct Ha as [Ha|[Ha|[]]]; destruct Hb as [Hb|[Hb|[]]]; subst; simpl in Hk; try discriminate Hk; reflexivity. }
  specialize (H L eq_refl Q). discriminate H.
Qed.
Print Assumptions C11_member_value_refuted.

Example C11_member_value_nonvacuous :
  let dt := RLeaf "date" false (fun v => match v with UObj c _ => if String.eqb c "date" then Some (UStr "2020-01-01") else None | _ => None end)
                  (fun v => match v with UObj c _ => String.eqb c "date" | _ => false end) in
  let it := RLeaf "int" true Some (fun v => match v with UInt _ => true | _ => false end) in
  let r := RDict (RTupF [RList (RU [(1%nat, it); (2%nat, dt)]); ROpt (RU [(1%nat, dt); (2%nat, it)])]) in
  let d := UObj "date" "datetime.date(2020, 1, 1)" in
  let v := UDict [(UStr "k", UTuple [UList [UInt 1; d]; UNone])] in
  rconf r v = true /\ rwd r v = true /\
  renc r v = Some (UDict [(UStr "k", UList [UList [UInt 1; UStr "2020-01-01"]; UNone])]) /\
  rmem r v = renc r v /\
  (* a list is not a value of Tuple[...], a float not a member of Union[int, date] *)
  rconf r (UDict [(UStr "k", UList [UList [UInt 1]; UNone])]) = false /\
  rconf r (UDict [(UStr "k", UTuple [UList [UFloat None "1.5"]; UNone])]) = false.
Proof. cbv zeta. repeat split; reflexivity. Qed.

(* ---------- Literal (after fix 0e88a65: the class of the value is compared too) ---------- *)

(* Literal positions accept exactly their listed values and return the listed constant.
   lit_nofloat: listed constants are int/bool/str/None/bytes or enum members whose value is not a
   float (for a float-valued enum member Python's 0.0 == -0.0 is the one remaining difference). *)
Theorem C11_literal_full : forall bdec lits v, lit_nofloat lits = true ->
  lit_dec bdec lits v = ref_lit bdec lits v.
Proof. exact lit_dec_full. Qed.
Print Assumptions C11_literal_full.

(* serializing a Literal position: the branch of the listed constant equal to the value, packed
   like a value of its class; anything else raises *)
Theorem C11_literal_encode_full : forall benc lits v, lit_nofloat lits = true ->
  lit_enc benc lits v = ref_lit_enc benc lits v.
Proof. exact lit_enc_full. Qed.
Print Assumptions C11_literal_encode_full.

Theorem C11_literal_returns_listed : forall bdec lits v c, lit_dec bdec lits v = Some c ->
  exists l, In l lits /\ c = lit_const l /\ lit_match bdec v l = true.
Proof. exact lit_dec_returns_listed. Qed.
Print Assumptions C11_literal_returns_listed.

Theorem C11_literal_accepts_listed : forall bdec lits v l, In l lits -> lit_strict bdec v l = true ->
  lit_dec bdec lits v <> None.
Proof. exact lit_dec_accepts_listed. Qed.
Print Assumptions C11_literal_accepts_listed.

(* the inputs of the repaired finding: Literal[1, True] <- True, Literal[1] <- 1.0 / True *)
Lemma C11_literal_cross_type_rejected :
  lit_dec (fun _ => None) [LInt 1; LBool true] (UBool true) = Some (UBool true) /\
  lit_dec (fun _ => None) [LInt 1] (UFloat (Some 1) "1.0") = None /\
  lit_dec (fun _ => None) [LInt 1] (UBool true) = None /\
  lit_dec (fun _ => None) [LEnum (UInt 1) (UObj "Lvl" "<Lvl.LO: 1>")] (UBool true) = None /\
  lit_enc (fun _ => None) [LEnum (UInt 1) (UObj "Num" "<Num.ONE: 1>"); LBool true] (UBool true) = Some (Some (UBool true)).
Proof. repeat split; reflexivity. Qed.

(* ---------- K22: the translated loops of the Literal unpacker and packer builders ---------- *)
Theorem C11_literal_emit_correct : forall bdec lits v,
  LitEmit.run_ulines bdec (K22.emit_unpack lits) v = lit_dec bdec lits v.
Proof. exact K22Proofs.emit_unpack_correct. Qed.
Print Assumptions C11_literal_emit_correct.

(* hence the Literal unpacker the current source emits accepts exactly the listed values *)
Theorem C11_literal_emitted_full : forall bdec lits v, lit_nofloat lits = true ->
  LitEmit.run_ulines bdec (K22.emit_unpack lits) v = ref_lit bdec lits v.
Proof. intros. rewrite K22Proofs.emit_unpack_correct. apply lit_dec_full; assumption. Qed.
Print Assumptions C11_literal_emitted_full.

Theorem C11_literal_pack_emit_correct : forall benc lits v,
  LitEmit.run_klines benc (K22.emit_pack lits) v = K22Proofs.flat2 (lit_enc benc lits v).
Proof. exact K22Proofs.emit_pack_lit_correct. Qed.
Print Assumptions C11_literal_pack_emit_correct.

(* the comparison text spliced for a listed str / bytes / int / bool / None value (literal_repr = the builtin
   repr, C16's PyLit.render_lit) denotes that value in both contexts the builders use it:
   `... == <text>:` and `(<text>).__class__` *)
Theorem C11_literal_text_denotes : forall p v rest, PyStrLit.oracle_ok p -> PyLit.wf_lit v ->
  PyLit.eval_lit (PyLit.render_lit p v ++ 58%N :: rest) = Some (v, 58%N :: rest) /\
  PyLit.eval_lit (PyLit.render_lit p v ++ PyLit.RP :: rest) = Some (v, PyLit.RP :: rest).
Proof. intros p v rest Hp Hw. split; apply PyLitProofs.render_eval; auto. Qed.
Print Assumptions C11_literal_text_denotes.

(* ---------- non-vacuity: the hypotheses hold on non-trivial instances ---------- *)

Example C11_decode_nonvacuous :
  let ms := [MS KInt; MN 0 w_date; MS KStr; MN 1 (fun _ => None)] in
  (forall d, coherent ms d) /\
  none_safe ms (UStr "2020-01-01") = true /\ no_shadow ms (UStr "2020-01-01") = false /\
  none_safe ms (UStr "x") = true /\ no_shadow ms (UStr "x") = true /\
  union_dec w_co ms (UStr "x") = Some (UStr "x") /\
  union_dec w_co ms (UBool true) = None /\
  no_shadow ms (UObj "list" "[1]") = true /\ union_dec w_co ms (UObj "list" "[1]") = None.
Proof.
  cbv zeta. split; [|repeat split; reflexivity].
  intros d e f g [H|[H|[H|[H|[]]]]] [H'|[H'|[H'|[H'|[]]]]]; try discriminate;
    inversion H; inversion H'; subst; try reflexivity; discriminate.
Qed.

Example C11_encode_nonvacuous :
  let pms := [PM "int" None Some; PM "date" (Some 1%nat) (fun v => match v with UObj "date" _ => Some (UStr "2020-01-01") | _ => None end)] in
  let v := UObj "date" "datetime.date(2020, 1, 1)" in
  wire_disjoint pms v = true /\ pack_union pms v = Some (UStr "2020-01-01") /\
  wire_disjoint pms (UInt 5) = true /\ pack_union pms (UInt 5) = Some (UInt 5) /\ pack_union pms (UBool true) = None.
Proof. cbv zeta. repeat split; reflexivity. Qed.

Example C11_literal_nonvacuous :
  let lits := [LInt 1; LStr "a"; LNone; LEnum (UStr "r") (UObj "Color" "<Color.RED: 'r'>")] in
  lit_nofloat lits = true /\
  lit_dec (fun _ => None) lits (UStr "a") = Some (UStr "a") /\
  lit_dec (fun _ => None) lits (UStr "r") = Some (UObj "Color" "<Color.RED: 'r'>") /\
  lit_dec (fun _ => None) lits (UInt 2) = None /\
  lit_enc (fun _ => None) lits (UObj "Color" "<Color.RED: 'r'>") = Some (Some (UStr "r")) /\
  lit_enc (fun _ => None) lits (UInt 2) = None.
Proof. cbv zeta. repeat split; reflexivity. Qed.
