(* C05 over kernel K45 (unpack.py unpack_named_tuple: the code emitted for a NamedTuple class, translated from /repo
   to coq/gen/K45.v on every run; semantics NtEmit.v), dict form (namedtuple_as_dict / deserialize="as_dict"), run with
   exception classes, arbitrary item unpackers [ev] (any exception class, KeyError included) and membership test [has]:
   "invalid data is never silently replaced by a default" and "the first bad item decides" for the items of a
   NamedTuple -- a KeyError raised inside a defaulted item's own unpacker is not taken for "key absent". *)
From Coq Require Import List String Bool.
From Verif Require Import Core TyModel NtEmit ErrsNtEmit.
From VerifGen Require Import K45.
Import ListNotations.

(* every item of a returned NamedTuple is its own unpacker's result, or has a default, its key is absent and it is that default *)
Theorem C05_namedtuple_dict_no_silent_default : forall ev has vlen nodef in_defaults fds r,
  run_code ev has vlen (k45_indices true (map sf_name fds)) (k45_code true nodef in_defaults (map sf_name fds)) fds = Ok r ->
  Forall2 (fun f y => ev (IName f.(sf_name)) f = Ok y \/
                      ((nodef = false /\ in_defaults f.(sf_name) = true /\ has f.(sf_name) = Ok false) /\ f.(sf_default) = Some y)) fds r.
Proof. exact nd_no_silent_default. Qed.
Print Assumptions C05_namedtuple_dict_no_silent_default.

(* the first item (declaration order) whose key is read and whose unpacker raises decides, whatever the class *)
Theorem C05_namedtuple_dict_first_exn : forall ev has vlen nodef in_defaults pre f post e,
  Forall (item_pass ev has nodef in_defaults) pre -> present has nodef in_defaults f ->
  ev (IName f.(sf_name)) f = Exn e ->
  run_code ev has vlen (k45_indices true (map sf_name (pre ++ f :: post)))
           (k45_code true nodef in_defaults (map sf_name (pre ++ f :: post))) (pre ++ f :: post) = Exn e.
Proof. exact nd_first_exn. Qed.
Print Assumptions C05_namedtuple_dict_first_exn.

(* a KeyError from INSIDE the unpacker of a defaulted item whose key is there leaves the helper *)
Theorem C05_namedtuple_dict_inner_keyerror : forall ev has vlen nodef in_defaults pre f post,
  nodef = false -> in_defaults f.(sf_name) = true -> has f.(sf_name) = Ok true -> ev (IName f.(sf_name)) f = Exn XKeyError ->
  Forall (item_pass ev has nodef in_defaults) pre ->
  run_code ev has vlen (k45_indices true (map sf_name (pre ++ f :: post)))
           (k45_code true nodef in_defaults (map sf_name (pre ++ f :: post))) (pre ++ f :: post) = Exn XKeyError.
Proof. exact nd_inner_keyerror_propagates. Qed.
Print Assumptions C05_namedtuple_dict_inner_keyerror.
