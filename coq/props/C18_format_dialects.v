(* C18: the default dialects of the format mixins (orjson / msgpack / toml), read from the source on this run
   (kernel K118d), are what the documentation promises -- no_copy_collections = (list, dict) -- and what that means
   in the sharing model for a class without Config.dialect and a call without dialect=. *)
From Coq Require Import List Bool.
From Verif Require Import Share ShareProofs ShareK118a.
From VerifGen Require Import K118d.
Import ListNotations.

Theorem C18_format_dialects_as_documented :
  fmt_nocopy_orjson = Some [OList; ODict] /\ fmt_nocopy_msgpack = Some [OList; ODict] /\
  fmt_nocopy_toml = Some [OList; ODict] /\
  (forall k, fmt_leafpass_orjson k = match k with LDate => true | _ => false end) /\
  (forall k, fmt_leafpass_msgpack k = match k with LBytearray => true | _ => false end) /\
  (forall k, fmt_leafpass_toml k = match k with LDate => true | _ => false end).
Proof. repeat split; intro k; destruct k; reflexivity. Qed.
Print Assumptions C18_format_dialects_as_documented.

(* a format mixin's packer for a class that sets no dialect itself, called without dialect=: exactly list and dict
   positions with identity elements are handed out; every other collection is rebuilt *)
Theorem C18_format_default_decisions : forall E k hsup o t,
  (E.(e_fmt) = fmt_nocopy_orjson \/ E.(e_fmt) = fmt_nocopy_msgpack \/ E.(e_fmt) = fmt_nocopy_toml) ->
  k.(c_nc) = None -> is_seq_origin o = true ->
  let N := effN E None k in
  N = [OList; ODict] /\
  (is_id (cp E N hsup t) = true ->
     cp E N hsup (TSeq o t) = (if origin_eqb o OList then IId else ISeqComp (cp E N hsup t))) /\
  (is_id (cp E N hsup t) = false -> cp E N hsup (TSeq o t) = ISeqComp (cp E N hsup t)).
Proof.
  intros E k hsup o t Hf Hk Ho N.
  assert (HN : N = [OList; ODict]).
  { unfold N, effN, first_nc. rewrite Hk. destruct Hf as [H | [H | H]]; rewrite H; reflexivity. }
  split; [exact HN |]. rewrite HN. simpl cp. unfold seq_expr. split; intro Hi; rewrite Hi.
  - destruct o; try discriminate Ho; reflexivity.
  - reflexivity.
Qed.
Print Assumptions C18_format_default_decisions.

(* non-vacuity: under orjson's default dialect a List[date] is handed out by reference (dates pass through), under
   msgpack's it is rebuilt; a Set[int] is rebuilt under all three *)
Example C18_format_examples :
  let Eo := {| e_ct := e_ct env0; e_fmt := fmt_nocopy_orjson; e_lp := fmt_leafpass_orjson |} in
  let Em := {| e_ct := e_ct env0; e_fmt := fmt_nocopy_msgpack; e_lp := fmt_leafpass_msgpack |} in
  let k := e_ct env0 0 in
  cp Eo (effN Eo None k) false (TSeq OList (TLeaf LDate)) = IId /\
  cp Em (effN Em None k) false (TSeq OList (TLeaf LDate)) = ISeqComp IConv /\
  cp Em (effN Em None k) false (TMap ODict TAtom (TLeaf LBytearray)) = IId /\
  cp Eo (effN Eo None k) false (TSeq OSet TAtom) = ISeqComp IId.
Proof. repeat split; reflexivity. Qed.
