(* C18, anchor "copy() vs by-reference vs comprehension decision" (pack.py:803-817): the model's
   decision functions equal the kernel K15 translated from the source on this run. *)
From Coq Require Import List Bool.
From Verif Require Import Share CollDecision ShareK15.
From VerifGen Require Import K15.

Theorem C18_seq_decision_is_source : forall N o ie,
  seq_expr N o ie = ir_of_seq_decision (seq_decision (is_id ie) (inN N o) (origin_eqb o OList)) ie.
Proof. exact seq_expr_is_source. Qed.
Print Assumptions C18_seq_decision_is_source.

Theorem C18_map_decision_is_source : forall N o ke ve,
  map_expr N o ke ve =
  ir_of_map_decision (map_decision (is_id ke && is_id ve) (inN N o) (origin_eqb o ODict)) ke ve.
Proof. exact map_expr_is_source. Qed.
Print Assumptions C18_map_decision_is_source.
