(* C08 - kernel K108b = the statement that orders the fields in _add_pack_method_lines
   (`if self.get_config().sort_keys: fnames_and_types = sorted(fnames_and_types, key=lambda x: x[0])`), condition and
   sort key translated from /repo on this run.  Clause: "keys ordered by field name iff sort_keys is set". *)
From Coq Require Import List String ZArith Bool.
From Verif Require Import PyK PyK_c08 OptProj K108bProofs.
From VerifGen Require Import K108b.
Import ListNotations.
Open Scope string_scope.

(* the sort key of an item (field name, field type) is the field name: it depends on nothing else -- not on the type,
   an alias table or an option *)
Theorem K108b_key : forall (n: string) (t: kv), order_key (KTuple [KStr n; t]) = Ok (KStr n).
Proof. exact K108b_key_lemma. Qed.
Print Assumptions K108b_key.

(* for EVERY list of rows and whatever the items' second components are: the translated statement sorts by field name
   iff Config.sort_keys, and leaves the declaration order otherwise *)
Theorem K108b_order : forall (sort_keys: bool) (ty: row -> kv) (rows: list row),
  kernel_order sort_keys ty rows = Ok (if sort_keys then sort_by row_name rows else rows).
Proof. exact K108b_order_lemma. Qed.
Print Assumptions K108b_order.

(* ... which is the order the model of the generated body visits the fields in *)
Theorem K108b_body : forall (c: sctx) (sort_keys: bool) (ty: row -> kv) (rows: list row),
  exists ordered, kernel_order sort_keys ty rows = Ok ordered /\ body c sort_keys rows = body c false ordered.
Proof. exact K108b_body_lemma. Qed.
Print Assumptions K108b_body.
