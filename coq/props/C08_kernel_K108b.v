(* C08 - kernel K108b = the statement that orders the fields in _add_pack_method_lines
   (`if self.get_config().sort_keys: fnames_and_types = sorted(fnames_and_types, key=lambda x: x[0])`), condition and
   sort key translated from /repo on this run.  Clause: "keys ordered by field name iff sort_keys is set". *)
From Coq Require Import List String ZArith Bool.
From Verif Require Import PyK PyK_c08 OptProj K108bProofs.
From VerifGen Require Import K108b.
Import ListNotations.
Open Scope string_scope.

(* the sort key of an item (field name, field type) is the field name: it depends on nothing else -- not on the type,
   an alias table or an option *)
Theorem K108b_key : forall (n: string) (t: kv), order_key (KTuple [KStr n; t]) = Ok (KStr n).
Proof. exact K108b_key_lemma. Qed.
Print Assumptions K108b_key.

(* for EVERY list of rows and whatever the items' second components are: the translated statement sorts by field name
   iff Config.sort_keys, and leaves the declaration order otherwise *)
Theorem K108b_order : forall (sort_keys: bool) (ty: row -> kv) (rows: list row),
  kernel_order sort_keys ty rows = Ok (if sort_keys then sort_by row_name rows else rows).
Proof. exact K108b_order_lemma. Qed.
Print Assumptions K108b_order.

(* ... which is the order the model of the generated body visits the fields in *)
Theorem K108b_body : forall (c: sctx) (sort_keys: bool) (ty: row -> kv) (rows: list row),
  exists ordered, kernel_order sort_keys ty rows = Ok ordered /\ body c sort_keys rows = body c false ordered.
Proof. exact K108b_body_lemma. Qed.
Print Assumptions K108b_body.

(* ---- the alias sources (kernel K4 = CodeBuilder.__get_field_alias, translated on this run) ---- *)
From Verif Require Import KeyModel KeyImpl K108bAlias.

(* the alias of a field plan: field metadata, else the last Annotated Alias, else the Config.aliases entry *)
Theorem C08_alias_sources : forall (c: cls) (f: fld),
  plan_alias c f = orelse (f_meta f) (orelse (ann_alias f) (assoc (c_aliases c) (f_name f))).
Proof. exact plan_alias_sources_lemma. Qed.
Print Assumptions C08_alias_sources.

(* ... and the key written for it, in the dict-literal form and in the kwargs form: renamed iff by-alias is in effect
   (statically, or at run time where the by_alias keyword exists), whatever the source of the alias *)
Theorem C08_alias_key : forall (sc: sctx) (c: cls) (f: fld) (p: fplan),
  p.(p_name) = f_name f -> p.(p_alias) = plan_alias c f ->
  let renamed := match orelse (f_meta f) (orelse (ann_alias f) (assoc (c_aliases c) (f_name f))) with
                 | Some a => a | None => f_name f end in
  key_lit sc p = (if sc.(s_ba) then renamed else f_name f) /\
  key_kw sc p = (if (if sc.(s_fba) then sc.(r_ba) else sc.(s_ba)) then renamed else f_name f).
Proof. exact plan_alias_key_lemma. Qed.
Print Assumptions C08_alias_key.
