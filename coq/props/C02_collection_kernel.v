(* C02 / C18, collection expressions (kernel K15 translated from pack.py:pack_collection on
   every run): the type-level model's copy-vs-comprehension decisions are exactly the code's;
   a by-reference result is chosen only for identity elements of an origin listed in
   no_copy_collections, and a needed element conversion is never skipped. *)
From Coq Require Import List String Bool.
From Verif Require Import Core TyModel CollDecision K15Proofs.
From VerifGen Require Import K15.

Theorem C02_seq_decision_is_code : forall is_list ie,
  seq_expr is_list ie = ir_of_seq (seq_decision (is_id ie) false is_list) ie.
Proof. exact K15_seq_model. Qed.
Print Assumptions C02_seq_decision_is_code.

Theorem C02_map_decision_is_code : forall ke ve,
  map_expr ke ve = ir_of_map (map_decision (is_id ke && is_id ve) false true) ke ve.
Proof. exact K15_map_model. Qed.
Print Assumptions C02_map_decision_is_code.

Theorem C02_conversion_never_skipped : forall nocopy base,
  seq_decision false nocopy base = DComp /\ map_decision false nocopy base = DComp.
Proof. exact K15_never_skips_conversion. Qed.
Print Assumptions C02_conversion_never_skipped.

Theorem C02_byref_iff_listed_identity : forall e n b,
  (seq_decision e n b = DByRef <-> e = true /\ n = true) /\
  (map_decision e n b = DByRef <-> e = true /\ n = true).
Proof. exact K15_byref_iff. Qed.
Print Assumptions C02_byref_iff_listed_identity.
