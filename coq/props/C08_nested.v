(* C08 - nested classes: an outer class's options never leak into nested classes that did not opt
   in; hereditary projection.  Model: Verif.OptNested over Verif.OptProj. *)
From Coq Require Import List String ZArith Bool.
From Verif Require Import OptProj OptProjProofs OptNested OptNestedProofs.
Import ListNotations.
Open Scope string_scope.

(* full statement: whenever the reference (hereditary projection of the plain output, every nested
   call receiving the flags enabled on the caller and on the class of the value) is defined, the
   generated code yields it *)
Definition C08_nested_full : Prop :=
  forall (ct: list cls) (n: node) (cid: nat) (k: kwv),
    to_dict_h ct true n cid k <> None -> to_dict_h ct false n cid k = to_dict_h ct true n cid k.

(* proved under ok_h: at every dataclass node kw_ok, flag_defaults_ok (no D14), vals_ok, and the
   union's first accepting member forwards the same flags as the value's own class (no D8b) *)
Theorem C08_nested_partial :
  forall (ct: list cls) (n: node) (cid: nat) (k: kwv),
    ok_h ct n [cid] root_flags k None = true -> to_dict_h ct false n cid k = to_dict_h ct true n cid k.
Proof. exact nested_partial. Qed.
Print Assumptions C08_nested_partial.

(* D8b (known finding C08/union-member-flags) *)
Theorem C08_union_flags_refuted : ~ C08_nested_full.
Proof. exact union_flags_refuted. Qed.
Print Assumptions C08_union_flags_refuted.

(* a directly nested class receives exactly the flags enabled on both sides ... *)
Theorem C08_forwarded_exactly :
  forall (ct: list cls) (outer: flags) (cid: nat),
    pick_impl ct outer [cid] cid = Some (both outer (flags_c ct cid)).
Proof. exact forwarded_exactly. Qed.
Print Assumptions C08_forwarded_exactly.

(* ... so a class that enabled no keyword flag is serialized identically under every outer class,
   outer flag set and outer run-time keyword values (pd: default dialect handed down by the
   compiling builder, = None under a mixin root by K14 / pass_dd) *)
Theorem C08_no_leak :
  forall (ct: list cls) (spec: bool) (cid: nat) (ch: list node) (outer outer': flags) (a a': kwv) (pd: option ns),
    flags_c ct cid = no_flags ->
    pack_h ct spec (NObj cid ch) [cid] outer a pd = pack_h ct spec (NObj cid ch) [cid] outer' a' pd.
Proof. exact no_leak. Qed.
Print Assumptions C08_no_leak.

(* a nested class that set nothing -- mixin or plain dataclass, whichever owner compiled it first --
   contributes exactly its own plain serialization *)
Theorem C08_option_free_is_plain :
  forall (ct: list cls) (cid: nat) (c: cls) (vs: list fval) (outer: flags) (a: kwv),
    nth_error ct cid = Some c -> option_free c ->
    List.length vs = List.length c.(c_fields) ->
    forallb (fun p => negb p.(p_omit)) (map fst c.(c_fields)) = true ->
    pack_h ct false (NObj cid (map leaf vs)) [cid] outer a None
    = Some (POpq 0, PDict (dict_of (plain_out (map fst c.(c_fields)) vs))).
Proof. exact option_free_is_plain. Qed.
Print Assumptions C08_option_free_is_plain.

(* non-vacuity: Outer (omit_none flag, Config.dialect.omit_none) with a mixin Inner that opted in and a
   plain Inner that did not *)
Definition ex_ct : list cls :=
  [ {| c_mixin := true; c_cfgd := Some {| n_on := T; n_od := U; n_ba := U |}; c_cfg := ns_unset; c_sort := false; c_flags := fl_on;
       c_fields := [({| p_name := "i"; p_alias := None; p_ty := TyPlain; p_trivial := false; p_default := DNo; p_omit := false |}, [1]);
                    ({| p_name := "j"; p_alias := None; p_ty := TyPlain; p_trivial := false; p_default := DNo; p_omit := false |}, [2]);
                    (fld "x", [])] |};
    {| c_mixin := true; c_cfgd := None; c_cfg := ns_unset; c_sort := false; c_flags := fl_on; c_fields := [(fld "a", [])] |};
    {| c_mixin := false; c_cfgd := None; c_cfg := ns_unset; c_sort := false; c_flags := fl_none; c_fields := [(fld "b", [])] |} ]%nat.
Definition ex_inst : node := NObj 0 [NObj 1 [NLeaf PNone PNone]; NObj 2 [NLeaf PNone PNone]; NLeaf PNone PNone].

Example C08_nested_nonvacuous :
  ok_h ex_ct ex_inst [0%nat] root_flags no_kw None = true /\
  to_dict_h ex_ct false ex_inst 0 no_kw = Some (PDict [("i", PDict []); ("j", PDict [("b", PNone)])]).
Proof. split; reflexivity. Qed.
