(* C08 - nested classes: an outer class's options never leak into nested classes that did not opt
   in; hereditary projection.  Model: Verif.OptNested over Verif.OptProj. *)
From Coq Require Import List String ZArith Bool.
From Verif Require Import OptProj OptProjProofs OptNested OptNestedProofs.
Import ListNotations.
Open Scope string_scope.

(* full statement: whenever the reference (hereditary projection of the plain output, every nested
   call receiving the flags enabled on the caller and on the class of the value) is defined, the
   generated code yields it *)
Definition C08_nested_full : Prop :=
  forall (ct: list cls) (n: node) (cid: nat) (k: kwv),
    to_dict_h ct true n cid k <> None -> to_dict_h ct false n cid k = to_dict_h ct true n cid k.

(* proved under ok_h: at every dataclass node kw_ok, flag_defaults_ok (no D14), vals_ok, and the
   union's first accepting member forwards the same flags as the value's own class (no D8b) *)
Theorem C08_nested_partial :
  forall (ct: list cls) (n: node) (cid: nat) (k: kwv),
    ok_h ct true n [cid] root_flags k None = true -> to_dict_h ct false n cid k = to_dict_h ct true n cid k.
Proof. exact nested_partial. Qed.
Print Assumptions C08_nested_partial.

(* D8b (known finding C08/union-member-flags) *)
Theorem C08_union_flags_refuted : ~ C08_nested_full.
Proof. exact union_flags_refuted. Qed.
Print Assumptions C08_union_flags_refuted.

(* known finding C08/subclass-instance-flags: a field of type A holding an instance of a subclass B(A)
   that enabled a keyword flag: the call names the flags of the declared class A *)
Theorem C08_subclass_flags_refuted : ~ C08_nested_full.
Proof. exact subclass_flags_refuted. Qed.
Print Assumptions C08_subclass_flags_refuted.

(* a directly nested class receives exactly the flags enabled on both sides ... *)
Theorem C08_forwarded_exactly :
  forall (ct: list cls) (outer: flags) (cid: nat),
    pick_impl ct outer [cid] cid = Some (both outer (flags_c ct cid)).
Proof. exact forwarded_exactly. Qed.
Print Assumptions C08_forwarded_exactly.

(* ... so a class that enabled no keyword flag is serialized identically under every outer class,
   outer flag set and outer run-time keyword values (pd: default dialect handed down by the
   compiling builder, = None under a mixin root by K14 / pass_dd) *)
Theorem C08_no_leak :
  forall (ct: list cls) (nailed spec: bool) (cid: nat) (ch: list node) (outer outer': flags) (a a': kwv) (pd: option ns),
    flags_c ct cid = no_flags ->
    pack_h ct nailed spec (NObj cid ch) [cid] outer a pd = pack_h ct nailed spec (NObj cid ch) [cid] outer' a' pd.
Proof. exact no_leak. Qed.
Print Assumptions C08_no_leak.

(* a nested class that set nothing -- mixin or plain dataclass, whichever owner compiled it first --
   contributes exactly its own plain serialization *)
Theorem C08_option_free_is_plain :
  forall (ct: list cls) (cid: nat) (c: cls) (vs: list fval) (outer: flags) (a: kwv),
    nth_error ct cid = Some c -> option_free c ->
    List.length vs = List.length c.(c_fields) ->
    forallb (fun p => negb p.(p_omit)) (map fst c.(c_fields)) = true ->
    pack_h ct true false (NObj cid (map leaf vs)) [cid] outer a None
    = Some (POpq 0, PDict (dict_of (plain_out (map fst c.(c_fields)) vs))).
Proof. intros ct. exact (option_free_is_plain ct true). Qed.
Print Assumptions C08_option_free_is_plain.

(* the projection commutes with containers: a List[<dataclass>] / Dict[str, <dataclass>] field is
   projected element by element, every element receiving the same flags and keyword values *)
Theorem C08_list_elementwise :
  forall (ct: list cls) (nailed spec: bool) (items: list node) (members: list nat) (outer: flags) (a: kwv) (pd: option ns),
    pack_h ct nailed spec (NList items) members outer a pd =
    match go_items (fun x => pack_h ct nailed spec x members outer a pd) items with
    | Some l => Some (POpq (S (List.length items)), PList l)
    | None => None end.
Proof. exact pack_h_list. Qed.
Print Assumptions C08_list_elementwise.

Theorem C08_dict_elementwise :
  forall (ct: list cls) (nailed spec: bool) (items: list (string * node)) (members: list nat) (outer: flags) (a: kwv) (pd: option ns),
    pack_h ct nailed spec (NDict items) members outer a pd =
    match go_entries (fun x => pack_h ct nailed spec x members outer a pd) items with
    | Some l => Some (POpq (S (List.length items)), PDict l)
    | None => None end.
Proof. exact pack_h_dict. Qed.
Print Assumptions C08_dict_elementwise.

(* ---- codec path: BasicEncoder(cls, default_dialect=dd).encode(x) ---- *)
Definition C08_codec_full : Prop :=
  forall (ct: list cls) (n: node) (cid: nat) (dd: option ns),
    to_dict_codec ct true n cid dd <> None -> to_dict_codec ct false n cid dd = to_dict_codec ct true n cid dd.

(* proved for dataclass fields that are not unions (the codec's static dispatch over union members is
   known finding codec-union-static-dispatch of C02/C15) and vals_ok at every node *)
Theorem C08_codec_partial :
  forall (ct: list cls) (n: node) (cid: nat) (dd: option ns),
    ok_h ct false n [cid] root_flags no_kw dd = true -> to_dict_codec ct false n cid dd = to_dict_codec ct true n cid dd.
Proof. exact codec_partial. Qed.
Print Assumptions C08_codec_partial.

(* every class, mixin or plain, runs with its own Config.dialect and Config over the codec's default
   dialect pd, without keyword arguments, and hands the same default dialect further down (K14) *)
Theorem C08_codec_obj :
  forall (ct: list cls) (spec: bool) (cid: nat) (ch: list node) (outer: flags) (a: kwv) (pd: option ns),
    pack_h ct false spec (NObj cid ch) [cid] outer a pd =
    match nth_error ct cid with
    | Some c =>
        let o := opts_of c no_kw pd in
        match go_pack (fun x m => pack_h ct false spec x m c.(c_flags) (avail_of spec o) pd) ch c.(c_fields) with
        | Some vs => finish spec o (map fst c.(c_fields)) vs
        | None => None end
    | None => None end.
Proof. intros ct. exact (codec_obj ct false eq_refl). Qed.
Print Assumptions C08_codec_obj.

(* so no option, flag or run-time value of an owner reaches a nested class -- for EVERY nested class *)
Theorem C08_codec_no_leak :
  forall (ct: list cls) (spec: bool) (cid: nat) (ch: list node) (outer outer': flags) (a a': kwv) (pd: option ns),
    pack_h ct false spec (NObj cid ch) [cid] outer a pd = pack_h ct false spec (NObj cid ch) [cid] outer' a' pd.
Proof. intros ct. exact (codec_no_leak ct false eq_refl). Qed.
Print Assumptions C08_codec_no_leak.

(* non-vacuity: Outer (omit_none flag, Config.dialect.omit_none) with a mixin Inner that opted in and a
   plain Inner that did not *)
Definition ex_ct : list cls :=
  [ {| c_mixin := true; c_cfgd := Some {| n_on := T; n_od := U; n_ba := U |}; c_cfg := ns_unset; c_sort := false; c_flags := fl_on;
       c_fields := [({| p_name := "i"; p_alias := None; p_ty := TyPlain; p_trivial := false; p_default := DNo; p_omit := false |}, [1]);
                    ({| p_name := "j"; p_alias := None; p_ty := TyPlain; p_trivial := false; p_default := DNo; p_omit := false |}, [2]);
                    (fld "x", [])]; c_parent := None |};
    {| c_mixin := true; c_cfgd := None; c_cfg := ns_unset; c_sort := false; c_flags := fl_on; c_fields := [(fld "a", [])]; c_parent := None |};
    {| c_mixin := false; c_cfgd := None; c_cfg := ns_unset; c_sort := false; c_flags := fl_none; c_fields := [(fld "b", [])]; c_parent := None |} ]%nat.
Definition ex_inst : node := NObj 0 [NObj 1 [NLeaf PNone PNone]; NObj 2 [NLeaf PNone PNone]; NLeaf PNone PNone].

Example C08_nested_nonvacuous :
  ok_h ex_ct true ex_inst [0%nat] root_flags no_kw None = true /\
  to_dict_h ex_ct false ex_inst 0 no_kw = Some (PDict [("i", PDict []); ("j", PDict [("b", PNone)])]).
Proof. split; reflexivity. Qed.

(* non-vacuity (codec): default dialect {omit_none: True}; the mixin Inner's own Config.dialect says False *)
Definition exc_ct : list cls :=
  [ {| c_mixin := true; c_cfgd := None; c_cfg := ns_unset; c_sort := false; c_flags := fl_on;
       c_fields := [({| p_name := "i"; p_alias := None; p_ty := TyPlain; p_trivial := false; p_default := DNo; p_omit := false |}, [1]);
                    ({| p_name := "j"; p_alias := None; p_ty := TyPlain; p_trivial := false; p_default := DNo; p_omit := false |}, [2]);
                    (fld "x", [])]; c_parent := None |};
    {| c_mixin := true; c_cfgd := Some {| n_on := F; n_od := U; n_ba := U |}; c_cfg := ns_unset; c_sort := false; c_flags := fl_on; c_fields := [(fld "a", [])]; c_parent := None |};
    {| c_mixin := false; c_cfgd := None; c_cfg := ns_unset; c_sort := false; c_flags := fl_none; c_fields := [(fld "b", [])]; c_parent := None |} ]%nat.
Example C08_codec_nonvacuous :
  ok_h exc_ct false ex_inst [0%nat] root_flags no_kw (Some {| n_on := T; n_od := U; n_ba := U |}) = true /\
  to_dict_codec exc_ct false ex_inst 0 (Some {| n_on := T; n_od := U; n_ba := U |})
  = Some (PDict [("i", PDict [("a", PNone)]); ("j", PDict [])]).
Proof. split; reflexivity. Qed.
