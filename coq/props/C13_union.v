(* C13 - unions of dataclass members with differing keyword-flag options: which keywords (omit_none, by_alias,
   dialect, context) reach the instance. *)
From Coq Require Import List Bool.
From Verif Require Import OptProj DialectUnion.
Import ListNotations.

Definition C13_union4_full := union4_full.

Theorem C13_union4_partial :
  forall owner members actual, In actual members -> (forall m, In m members -> m = actual) ->
    union_forward4 owner members actual = union_expected4 owner actual.
Proof. exact union4_partial. Qed.
Print Assumptions C13_union4_partial.

Theorem C13_union4_total :
  forall owner members actual, In actual members ->
    exists f, union_forward4 owner members actual = Some f /\ flags_sub f actual = true.
Proof. exact union4_total. Qed.
Print Assumptions C13_union4_total.

Theorem C13_union4_refuted : ~ C13_union4_full.
Proof. exact union4_refuted. Qed.
Print Assumptions C13_union4_refuted.

Example C13_union4_nonvacuous :
  union_forward4 (fl true true true true) [fl true false true false; fl true false true false] (fl true false true false)
    = Some (fl true false true false).
Proof. reflexivity. Qed.
