(* C08 - kernel K18 = body of the per-field bookkeeping loop of _add_pack_method_lines (packers,
   aliases, nullable_fields, nontrivial_nullable_fields), translated from /repo on this run. *)
From Coq Require Import List String ZArith Bool.
From Verif Require Import PyK PyK_c08 OptProj K8Proofs K18Proofs K18K8Proofs.
From VerifGen Require Import K8 K18.
Import ListNotations.
Open Scope string_scope.

(* folding the translated loop body over ANY field list from the empty collections: omitted fields
   leave no trace; a field is in nullable_fields iff it is not omitted and is_field_nullable (K17)
   holds; it is in nontrivial_nullable_fields iff moreover its packer is not the identity *)
Theorem K18_bookkeeping : forall (fs: list fplan),
  let b := fold_b fs empty_b in
  run_fields fs init_state = Ok (enc_state b) /\
  k_truthy (KDict b.(b_aliases)) = existsb has_alias (filter keepf fs) /\
  k_truthy (KList (map KStr b.(b_nullable))) = existsb nullable (filter keepf fs) /\
  k_truthy (KList (map KStr b.(b_nontrivial))) = existsb (fun p => nullable p && negb p.(p_trivial)) (filter keepf fs) /\
  (forall x, existsb (String.eqb x) b.(b_nullable) = existsb (fun p => String.eqb x p.(p_name) && nullable p) (filter keepf fs)).
Proof. exact K18_bookkeeping_lemma. Qed.
Print Assumptions K18_bookkeeping.

(* ... and the translated kwargs-vs-literal test (K8) on those collections is the model's form decision *)
Theorem K18_use_kwargs : forall (c: sctx) (fs: list fplan),
  let b := fold_b fs empty_b in
  run_fields fs init_state = Ok (enc_state b) /\
  res_truthy (use_kwargs_test (KList (map KStr b.(b_nontrivial))) (KList (map KStr b.(b_nullable)))
                              (KBool c.(s_on)) (KBool c.(s_fon)) (KBool c.(s_fba)) (KDict b.(b_aliases)) (KBool c.(s_od)))
  = Some (use_kwargs c (filter keepf fs)).
Proof. exact K18_use_kwargs_lemma. Qed.
Print Assumptions K18_use_kwargs.

(* non-vacuity: an omitted field, a nullable identity field with alias, a nullable date field *)
Example K18_example :
  run_fields [ {| p_name := "h"; p_alias := Some "H"; p_ty := TyOptional; p_trivial := false; p_default := DNo; p_omit := true |};
               {| p_name := "a"; p_alias := Some "A"; p_ty := TyAnnotated TyOptional; p_trivial := true; p_default := DNo; p_omit := false |};
               {| p_name := "d"; p_alias := None; p_ty := TyPlain; p_trivial := false; p_default := DVal PNone; p_omit := false |} ] init_state
  = Ok (KTuple [KDict [(KStr "a", KStr "value"); (KStr "d", KStr "<packer expression>")]; KDict [(KStr "a", KStr "A")];
                KList [KStr "a"; KStr "d"]; KList [KStr "d"]]).
Proof. reflexivity. Qed.
