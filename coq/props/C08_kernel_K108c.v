(* C08 - kernel K108c = the body of the loop that builds the parts of the dict literal (`else:` branch of the
   kwargs-vs-literal test of _add_pack_method_lines; anchor "decision whether to build kwargs incrementally or emit a dict
   literal"), translated from /repo on this run: the model's dict-literal form (OptProj.emit_lit / key_lit). *)
From Coq Require Import List String ZArith Bool.
From Verif Require Import PyK PyK_c08 OptProj K18Proofs K108cProofs.
From VerifGen Require Import K108c.
Import ListNotations.
Open Scope string_scope.

(* for every static context, field plan and packer expression, and every alias table that answers the field's alias
   (aliases[fname] = alias iff alias is not None: kernel K18): the translated loop body yields the pair
   (key_lit, the attribute itself for the identity packer / the packer expression otherwise) *)
Theorem K108c_literal_part : forall (c: sctx) (p: fplan) (al: list (kv * kv)) (packer: string),
  d_get al (KStr p.(p_name)) = option_map KStr p.(p_alias) ->
  literal_part (KBool c.(s_ba)) (KDict al) (KStr p.(p_name)) (KStr packer)
  = Ok (KTuple [KStr (key_lit c p); KStr (lit_value_expr p.(p_name) packer)]).
Proof. exact K108c_literal_part_lemma. Qed.
Print Assumptions K108c_literal_part.

(* the hypothesis is what the translated bookkeeping step (K18) leaves in the table for a field that is not omitted *)
Theorem K108c_table_one : forall (p: fplan), p.(p_omit) = false ->
  d_get (b_aliases (step_b p empty_b)) (KStr p.(p_name)) = option_map KStr p.(p_alias).
Proof. exact K108c_table_one_lemma. Qed.
Print Assumptions K108c_table_one.

(* non-vacuity *)
Example K108c_example :
  literal_part (KBool true) (KDict [(KStr "a", KStr "A")]) (KStr "a") (KStr "value") = Ok (KTuple [KStr "A"; KStr "self.a"]) /\
  literal_part (KBool false) (KDict [(KStr "a", KStr "A")]) (KStr "a") (KStr "value") = Ok (KTuple [KStr "a"; KStr "self.a"]) /\
  literal_part (KBool true) (KDict []) (KStr "d") (KStr "self.d.isoformat()") = Ok (KTuple [KStr "d"; KStr "self.d.isoformat()"]).
Proof. repeat split; reflexivity. Qed.
