(* C13 - isolation for calls on values that contain nested dataclass instances (nested classes, subclass
   instances, Self / by-name recursion), with the call dialect forwarded exactly along paths on which
   every class enables ADD_DIALECT_SUPPORT. *)
From Coq Require Import List Arith Bool.
From Verif Require Import DialectCache DialectDeep.
Import ListNotations.

Theorem C13_isolation_deep :
  forall (code: Type) (compile: nat -> option nat -> code) (ancestors: nat -> list nat) (support: nat -> bool)
         (ops: list dop) (i: nat) (t: vtree) (d: option nat),
    well_formed support [] ops -> nth_error ops i = Some (DCall t d) ->
    nth_error (fst (drun compile ancestors support init ops)) i = Some (expected_tree compile support t d).
Proof. exact (@isolation_deep). Qed.
Print Assumptions C13_isolation_deep.

(* one deep call from any state satisfying the invariant: state invariant kept, every node served by its own
   fresh compile, definitions kept *)
Theorem C13_call_tree_correct :
  forall (code: Type) (compile: nat -> option nat -> code) (ancestors: nat -> list nat) (support: nat -> bool)
         (t: vtree) (s: state) (d: option nat),
    inv compile support s -> all_defined s t -> call_ok support t d ->
    inv compile support (fst (call_tree compile ancestors support s t d)) /\
    snd (call_tree compile ancestors support s t d) = expected_tree compile support t d /\
    (forall c, c_default (s c) <> None -> c_default (fst (call_tree compile ancestors support s t d) c) <> None).
Proof. exact (@call_tree_correct). Qed.
Print Assumptions C13_call_tree_correct.

(* non-vacuity: child class 1 (of 0) holding a nested instance of class 4 WITHOUT dialect support, which holds a
   class-0 instance; a Self-recursive class-1 kid; dialect 7 reaches the Self kid but not what is below class 4 *)
Example C13_isolation_deep_nonvacuous :
  let h := [(1, [0])] in
  let support := fun k => negb (Nat.eqb k 4) in
  let t := Node 1 [Node 4 [Node 0 []]; Node 1 []] in
  let ops := [DDefine 0; DDefine 4; DDefine 1; DCall (Node 0 []) (Some 7); DCall t (Some 7)] in
  well_formed support [] ops /\
  nth_error (fst (drun tcompile (anc_of h) support init ops)) 4 =
    Some [(1, Some 7, Some (1, Some 7)); (4, None, Some (4, None)); (0, None, Some (0, None)); (1, Some 7, Some (1, Some 7))].
Proof. split; [cbn; unfold call_ok; cbn; intuition (subst; auto 10)|vm_compute; reflexivity]. Qed.
