(* C03 / kernel K45: the NamedTuple unpacker of the model is the code unpack_named_tuple emits.
   [k45_indices] / [k45_code] are translated from /repo on every run (coq/gen/K45.v); [run_code] (NtEmit.v) is
   the semantics of the emitted statements.  Hence the two rules the model relies on are read off the source:
   as_list -- `except IndexError: if len(fields) < len(value): raise` (fix 8ccb0df: trailing defaults only when the
              input itself is exhausted; an item's own IndexError propagates);
   as_dict -- `if 'name' in value:` exactly on the fields that have a default (fix 28df7ca). *)
From Coq Require Import List String ZArith Bool.
From Verif Require Import Core TyModel TyProofs TyNtDict NtEmit K45Proofs.
From VerifGen Require Import K45.
Import ListNotations.

(* `field in defaults` of the source: the NamedTuple's _field_defaults has a key per defaulted field *)
Definition in_defaults_of (fds: list sfield) (n: String.string) : bool :=
  existsb (fun f => String.eqb f.(sf_name) n && match f.(sf_default) with Some _ => true | None => false end) fds.

(* as_list, list / tuple input: the generated unpacker of TyModel = the emitted code run on the items *)
Theorem C03_named_code_is_model : forall (E: senv) (P: prims) (c: String.string) (k: scls) (l: list pv) (has: String.string -> res bool),
  sfind E KNamed c = Some k ->
  uk E P (VList l) (cu true (SNamed c)) =
    (r <- run_code (ev_list (fun f x => uk E P x (cu true f.(sf_ty))) (konst_u E) l) has (List.length l)
                   (k45_indices false (map sf_name k.(sc_fields)))
                   (k45_code false (negb (has_default k.(sc_fields))) (in_defaults_of k.(sc_fields)) (map sf_name k.(sc_fields)))
                   k.(sc_fields) ;;
     Ok (VNT c r)).
Proof.
  intros E P c k l has Ef. cbn [cu]. rewrite uk_unfold. rewrite Ef. rewrite k45_as_list. reflexivity.
Qed.
Print Assumptions C03_named_code_is_model.

(* as_dict, every input: the generated unpacker of TyNtDict = the emitted code *)
Theorem C03_ntdict_code_is_model : forall (E: senv) (P: prims) (c: String.string) (k: scls) (d: pv) (vlen: nat),
  sfind E KNamed c = Some k -> names_nodup k.(sc_fields) = true ->
  uk_nd E P d c =
    (r <- run_code (ev_dict (fun f (dx: pdec -> res pv) => dx (cu true f.(sf_ty))) (konst_u E) (nd_input_of (fun x => uk E P x) d))
                   (nd_has (nd_input_of (fun x => uk E P x) d)) vlen
                   (k45_indices true (map sf_name k.(sc_fields)))
                   (k45_code true (negb (has_default k.(sc_fields))) (in_defaults_of k.(sc_fields)) (map sf_name k.(sc_fields)))
                   k.(sc_fields) ;;
     Ok (VNT c r)).
Proof.
  intros E P c k d vlen Ef Hnd. unfold uk_nd. rewrite Ef. rewrite k45_as_dict; [reflexivity|].
  (* field names are pairwise distinct: `field in defaults` is "this field has a default" *)
  clear Ef. revert Hnd. generalize (sc_fields k) as fds.
  intros fds Hnd f Hf. unfold in_defaults_of.
  induction fds as [|g rest IH]; [destruct Hf|].
  cbn [names_nodup] in Hnd. apply andb_prop in Hnd. destruct Hnd as [Hng Hnd]. apply negb_true_iff in Hng.
  cbn [existsb]. destruct Hf as [Hf|Hf].
  - subst g. rewrite String.eqb_refl. cbn [andb].
    destruct (sf_default f); [reflexivity|]. cbn [orb].
    apply not_true_is_false. intros Hx. apply existsb_exists in Hx. destruct Hx as [h [Hh Hx]].
    apply andb_prop in Hx. destruct Hx as [Hx _]. rewrite String.eqb_sym in Hx.
    rewrite (names_nodup_notin f rest h Hng Hh) in Hx. discriminate Hx.
  - rewrite (names_nodup_notin g rest f Hng Hf). cbn [andb orb]. apply (IH Hnd Hf).
Qed.
Print Assumptions C03_ntdict_code_is_model.

(* what the guards are for: NT(a: int, b: int = 7).
   as_list: [1] -> NT(1, 7); [] -> IndexError has no default to fall back on (TypeError: missing a);
   as_dict: {'a': 1} -> NT(1, 7); {} -> KeyError *)
Definition kE : senv :=
  [ {| sc_kind := KNamed; sc_name := "NT"; sc_fields :=
         [ {| sf_name := "a"; sf_ty := SIntT; sf_default := None; sf_opt := false |};
           {| sf_name := "b"; sf_ty := STupleFix [SIntT; SIntT]; sf_default := Some (VTuple [VInt 0; VInt 0]); sf_opt := false |};
           {| sf_name := "c"; sf_ty := SIntT; sf_default := Some (VInt 7); sf_opt := false |} ] |} ].
Definition kP : prims := {|
  p_render := fun k w => VStr w; p_parse := fun _ _ => None; p_enum_value := fun _ _ => None; p_enum_of := fun _ _ => None;
  p_b64enc := fun b => b; p_b64dec := fun _ => None; p_int := fun _ => None; p_float := fun _ => None; p_str := fun _ => None |}.
Example C03_k45_emitted :
  k45_code false false (in_defaults_of [ ]) ["a"; "b"; "c"] = NCTry [NLAppend; NLAppend; NLAppend] /\
  k45_code true false (fun n => negb (String.eqb n "a")) ["a"; "b"; "c"] = NCKw [NLSet "a"; NLSetIf "b"; NLSetIf "c"] /\
  k45_code true true (fun _ => false) ["a"; "b"] = NCCall /\
  k45_indices true ["a"; "b"] = [IName "a"; IName "b"] /\ k45_indices false ["a"; "b"] = [IPos 0; IPos 1] /\
  uk kE kP (VList [VInt 1]) (cu true (SNamed "NT")) = Ok (VNT "NT" [VInt 1; VTuple [VInt 0; VInt 0]; VInt 7]) /\
  uk kE kP (VList [VInt 1; VList [VInt 5]; VInt 9]) (cu true (SNamed "NT")) = Exn XIndexError /\          (* 8ccb0df *)
  uk_nd kE kP (VDict [(VStr "a", VInt 1)]) "NT" = Ok (VNT "NT" [VInt 1; VTuple [VInt 0; VInt 0]; VInt 7]) /\   (* 28df7ca *)
  uk_nd kE kP (VDict [(VStr "b", VList [VInt 1; VInt 2])]) "NT" = Exn XKeyError.
Proof. repeat split; vm_compute; reflexivity. Qed.
