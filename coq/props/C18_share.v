(* C18 - no hidden sharing or mutation: property theorems (proofs in theories/ShareProofs.v). *)
From Coq Require Import List Arith Bool ZArith.
From Verif Require Import Share ShareProofs.
Import ListNotations.

(* Serialization.  For every class table / format dialect E, call dialect, no_copy set,
   type t and conforming value v whose labels are all old (< n0): the maximal old-labelled
   sub-values of the result are exactly -- same objects, same order -- the input sub-values at
   Any / pass_through positions and at collection positions whose origin is in the effective
   no_copy set and whose element packer is the identity; every other container is new. *)
Theorem C18_share : forall E n0 call Ntop t v,
  conforms E v t = true -> all_old n0 v = true ->
  let (r, n1) := pack_top E call Ntop t v n0 in
  maxold n0 r = byref E (ident E) v call Ntop true t /\ n0 <= n1.
Proof. exact pack_top_share. Qed.
Print Assumptions C18_share.

(* Deserialization: only Any / pass_through positions keep input objects. *)
Theorem C18_decode_fresh : forall E n0 t w,
  wconforms E w t = true -> all_old n0 w = true ->
  let (r, n1) := unpack_top E t w n0 in
  maxold n0 r = anyref E w t /\ n0 <= n1.
Proof. exact unpack_top_fresh. Qed.
Print Assumptions C18_decode_fresh.

(* The reading "Optional[T] elements need no conversion when T needs none" is refuted by the
   faithful model (known finding C18/nocopy-optional-elements: the list is copied). *)
Definition C18_share_full : Prop := share_full.
Theorem C18_share_full_refuted : ~ C18_share_full.
Proof. exact share_full_refuted. Qed.
Print Assumptions C18_share_full_refuted.

(* non-vacuity: a nested list under no_copy {list} is handed out wholesale; by default
   both levels are new; a list of dates is rebuilt even under no_copy *)
Example C18_nonvacuous_nocopy :
  let v := VSeq KList 0 [VSeq KList 1 [VAtom 7%Z]; VSeq KList 2 []] in
  conforms env0 v (TSeq OList (TSeq OList TAtom)) = true /\ all_old 3 v = true /\
  fst (pack_top env0 None [OList] (TSeq OList (TSeq OList TAtom)) v 3) = v /\
  maxold 3 (fst (pack_top env0 None [] (TSeq OList (TSeq OList TAtom)) v 3)) = [] /\
  maxold 3 (fst (pack_top env0 None [OList] (TSeq OList (TLeaf LDate)) (VSeq KList 0 [VLeaf 1%Z]) 3)) = [].
Proof. vm_compute. repeat split; reflexivity. Qed.

Example C18_nonvacuous_decode :
  let w := VSeq KList 0 [VMap KDict 1 [(VAtom 1%Z, VSeq KList 2 [])]] in
  wconforms env0 w (TSeq OList (TMap ODict TAtom TAny)) = true /\
  maxold 3 (fst (unpack_top env0 (TSeq OList (TMap ODict TAtom TAny)) w 3)) = [VSeq KList 2 []].
Proof. vm_compute. split; reflexivity. Qed.
