(* C18 - no hidden sharing or mutation: property theorems (proofs in theories/ShareProofs.v). *)
From Coq Require Import List Arith Bool ZArith.
From Verif Require Import Share ShareProofs ShareMore ShareTwice ShareNoDup.
Import ListNotations.

(* Serialization.  For every class table / format dialect E, call dialect, no_copy set,
   type t and conforming value v whose labels are all old (< n0): the maximal old-labelled
   sub-values of the result are exactly -- same objects, same order -- the input sub-values at
   Any / pass_through positions and at collection positions whose origin is in the effective
   no_copy set and whose element packer is the identity; every other container is new. *)
(* The grammar includes unions (pack_union: identity members guarded by the exact class of the value,
   then the other members' packers tried in declaration order, `accepts` = does not raise); there the
   statement needs the computable domain predicate udet: at every union position the value reaches,
   that dispatch lands on the first member the value conforms to. *)
Theorem C18_share : forall E n0 call Ntop t v,
  conforms E v t = true -> udet E v call Ntop true t = true -> all_old n0 v = true ->
  let (r, n1) := pack_top E call Ntop t v n0 in
  maxold n0 r = byref E (ident E) v call Ntop true t /\ n0 <= n1.
Proof. exact pack_top_share. Qed.
Print Assumptions C18_share.

(* union-free schemas: udet holds for every conforming value, the statement is unconditional *)
Theorem C18_share_unionfree : forall E n0 call Ntop t v,
  unionfree_env E -> unionfree t = true ->
  conforms E v t = true -> all_old n0 v = true ->
  let (r, n1) := pack_top E call Ntop t v n0 in
  maxold n0 r = byref E (ident E) v call Ntop true t /\ n0 <= n1.
Proof. exact pack_top_share_unionfree. Qed.
Print Assumptions C18_share_unionfree.

(* without udet the statement is false in the faithful model: Union[List[Decimal], List[int]] under
   no_copy {list} hands a list of Decimal out by reference, unconverted (known finding
   C18/nocopy-union-class-check) *)
Definition C18_share_union_full : Prop := share_union_full.
Theorem C18_share_union_refuted : ~ C18_share_union_full.
Proof. exact share_union_full_refuted. Qed.
Print Assumptions C18_share_union_refuted.

(* Deserialization: only Any / pass_through positions keep input objects. *)
Theorem C18_decode_fresh : forall E n0 t w,
  wconforms E w t = true -> all_old n0 w = true ->
  let (r, n1) := unpack_top E t w n0 in
  maxold n0 r = anyref E w t /\ n0 <= n1.
Proof. exact unpack_top_fresh. Qed.
Print Assumptions C18_decode_fresh.

(* Default dialect (no format dialect, no Config.dialect, no call dialect) and no Any /
   pass_through position in the schema: no label of the result is old -- the result shares
   no container with the argument and may be mutated freely. *)
Theorem C18_default_fresh : forall E n0 t v,
  default_env E -> anyfree_env E -> anyfree t = true ->
  conforms E v t = true -> udet E v None [] true t = true -> all_old n0 v = true ->
  forall l, In l (labels (fst (pack_top E None [] t v n0))) -> n0 <= l.
Proof. exact pack_default_fresh. Qed.
Print Assumptions C18_default_fresh.

(* Same for deserialization, whatever the dialects: without Any / pass_through positions every
   label of the result is new. *)
Theorem C18_decode_all_fresh : forall E n0 t w,
  anyfree_env E -> anyfree t = true ->
  wconforms E w t = true -> all_old n0 w = true ->
  forall l, In l (labels (fst (unpack_top E t w n0))) -> n0 <= l.
Proof. exact unpack_all_fresh. Qed.
Print Assumptions C18_decode_all_fresh.

(* Unions / constrained TypeVars on the decode side (members told apart by the class of the wire
   value): a typed member never hands back an input object -- instance of the previous theorem;
   with Any items (bare `list`) only the items may be input objects, never the list itself
   (C18_decode_fresh with anyref; see the example below). *)
Theorem C18_decode_union_fresh : forall E n0 us w,
  anyfree_env E -> forallb anyfree us = true ->
  wconforms E w (TUnion us) = true -> all_old n0 w = true ->
  forall l, In l (labels (fst (unpack_top E (TUnion us) w n0))) -> n0 <= l.
Proof. intros E n0 us w He Hu. apply unpack_all_fresh; auto. Qed.
Print Assumptions C18_decode_union_fresh.

(* The model cannot write (pure functions).  What can be stated inside it: an old label never
   comes back with altered content -- every old-labelled node of a result is, as a whole, a
   sub-value of the argument.  Mutation-freedom of the real library is what the oracle's
   snapshot comparison checks on every run. *)
Theorem C18_no_mutation : forall E n0 call Ntop t v,
  conforms E v t = true -> udet E v call Ntop true t = true -> all_old n0 v = true ->
  forall s, In s (maxold n0 (fst (pack_top E call Ntop t v n0))) -> In s (subvalues v).
Proof. exact pack_no_mutation. Qed.
Print Assumptions C18_no_mutation.

Theorem C18_decode_no_mutation : forall E n0 t w,
  wconforms E w t = true -> all_old n0 w = true ->
  forall s, In s (maxold n0 (fst (unpack_top E t w n0))) -> In s (subvalues w).
Proof. exact unpack_no_mutation. Qed.
Print Assumptions C18_decode_no_mutation.

(* On schemas without Optional the semantic reading of "elements need no conversion"
   (conv_free) and the generator's test coincide: the full statement holds there. *)
Theorem C18_share_partial : forall E n0 call Ntop t v,
  optfree_env E -> optfree t = true ->
  conforms E v t = true -> udet E v call Ntop true t = true -> all_old n0 v = true ->
  let (r, n1) := pack_top E call Ntop t v n0 in
  maxold n0 r = byref E (conv_free E) v call Ntop true t /\ n0 <= n1.
Proof. exact pack_share_partial. Qed.
Print Assumptions C18_share_partial.

(* The reading "Optional[T] elements need no conversion when T needs none" is refuted by the
   faithful model (known finding C18/nocopy-optional-elements: the list is copied). *)
Definition C18_share_full : Prop := share_full.
Theorem C18_share_full_refuted : ~ C18_share_full.
Proof. exact share_full_refuted. Qed.
Print Assumptions C18_share_full_refuted.

(* non-vacuity: a nested list under no_copy {list} is handed out wholesale; by default
   both levels are new; a list of dates is rebuilt even under no_copy *)
Example C18_nonvacuous_nocopy :
  let v := VSeq KList 0 [VSeq KList 1 [VAtom 7%Z]; VSeq KList 2 []] in
  conforms env0 v (TSeq OList (TSeq OList TAtom)) = true /\ all_old 3 v = true /\
  fst (pack_top env0 None [OList] (TSeq OList (TSeq OList TAtom)) v 3) = v /\
  maxold 3 (fst (pack_top env0 None [] (TSeq OList (TSeq OList TAtom)) v 3)) = [] /\
  maxold 3 (fst (pack_top env0 None [OList] (TSeq OList (TLeaf LDate)) (VSeq KList 0 [VLeaf 1%Z]) 3)) = [].
Proof. vm_compute. repeat split; reflexivity. Qed.

Example C18_nonvacuous_decode :
  let w := VSeq KList 0 [VMap KDict 1 [(VAtom 1%Z, VSeq KList 2 [])]] in
  wconforms env0 w (TSeq OList (TMap ODict TAtom TAny)) = true /\
  maxold 3 (fst (unpack_top env0 (TSeq OList (TMap ODict TAtom TAny)) w 3)) = [VSeq KList 2 []].
Proof. vm_compute. split; reflexivity. Qed.

(* Union[int, list] (bare list = list of Any) and Dict[str, Union[str, List[int]]]: the list
   member is rebuilt; only an item at an Any position is still the input's *)
Example C18_nonvacuous_decode_union :
  let w := VSeq KList 0 [VSeq KList 1 [VAtom 1%Z]] in
  let t := TUnion [TAtom; TSeq OList TAny] in
  wconforms env0 w t = true /\
  fst (unpack_top env0 t w 3) = VSeq KList 3 [VSeq KList 1 [VAtom 1%Z]] /\
  maxold 3 (fst (unpack_top env0 t w 3)) = [VSeq KList 1 [VAtom 1%Z]] /\
  maxold 3 (fst (unpack_top env0 (TMap ODict TAtom (TUnion [TAtom; TSeq OList TAtom]))
                            (VMap KDict 0 [(VAtom 0%Z, VSeq KList 1 [VAtom 5%Z]); (VAtom 1%Z, VAtom 2%Z)]) 3)) = [].
Proof. vm_compute. repeat split; reflexivity. Qed.

(* Type wrappers that the generator unwraps and re-dispatches (Final, Annotated, NewType, PEP 695
   aliases, Required / NotRequired / ReadOnly) are transparent: every theorem above holds for the
   wrapped type exactly as for the type itself; in particular a Final[...] container is copied by
   default like any other. *)
Theorem C18_wrapper_transparent : forall E call N t v n,
  pack_top E call N (TWrap t) v n = pack_top E call N t v n /\
  unpack_top E (TWrap t) v n = unpack_top E t v n.
Proof. intros. split; reflexivity. Qed.
Print Assumptions C18_wrapper_transparent.

Example C18_nonvacuous_final :
  let t := TWrap (TMap ODict TAtom (TWrap (TSeq OList TAtom))) in     (* Final[Dict[str, Annotated[List[int], ..]]] *)
  let v := VMap KDict 0 [(VAtom 0%Z, VSeq KList 1 [VAtom 1%Z])] in
  conforms env0 v t = true /\ anyfree t = true /\
  maxold 2 (fst (pack_top env0 None [] t v 2)) = [] /\
  fst (pack_top env0 None [OList; ODict] t v 2) = v.
Proof. vm_compute. repeat split; reflexivity. Qed.

(* encode-side unions.  Union[List[date], Dict[str, int], int]: a list goes through the first packer that
   does not raise and is rebuilt; under no_copy {dict} a dict is claimed by the identity branch and
   handed out; both are inside udet.  The known-finding witness is outside udet. *)
Example C18_nonvacuous_pack_union :
  let t := TUnion [TSeq OList (TLeaf LDate); TMap ODict TAtom TAtom; TAtom] in
  let v1 := VSeq KList 0 [VLeaf 1%Z] in
  let v2 := VMap KDict 1 [(VAtom 0%Z, VAtom 1%Z)] in
  conforms env0 v1 t = true /\ udet env0 v1 None [ODict] true t = true /\
  fst (pack_top env0 None [ODict] t v1 2) = VSeq KList 2 [VAtom 1%Z] /\
  conforms env0 v2 t = true /\ udet env0 v2 None [ODict] true t = true /\
  fst (pack_top env0 None [ODict] t v2 2) = v2 /\
  maxold 2 (fst (pack_top env0 None [] t v2 2)) = [] /\
  udet env0 (VSeq KList 0 [VLeaf 1%Z]) None [OList] true
       (TUnion [TSeq OList (TLeaf LDecimal); TSeq OList TAtom]) = false.
Proof. vm_compute. repeat split; reflexivity. Qed.

(* Deserialization consults no dialect at all: no_copy_collections (call dialect, Config.dialect,
   format / codec default dialect) and dialect support have no influence on the result; only the
   field types of the class table matter. *)
Theorem C18_decode_dialect_independent : forall E E' t w n,
  fields_agree E E' -> unpack_top E t w n = unpack_top E' t w n.
Proof. exact unpack_dialect_independent. Qed.
Print Assumptions C18_decode_dialect_independent.

(* Where labels come from (no conformance needed): every label of a result is a label of the argument
   or was drawn from the call's own supply [n, n').  Hence two calls on the same argument with
   disjoint supplies return structures that have nothing in common but the argument's own containers:
   no cached or shared default container can appear in two results. *)
Theorem C18_labels_arg_or_supply : forall E n0 v call e n,
  all_old n0 v = true -> n0 <= n ->
  let (r, n') := run_pack E v call e n in n <= n' /\ lab_ok n0 n n' r.
Proof. intros E n0 v. exact (pack_labels_all E n0 v). Qed.
Print Assumptions C18_labels_arg_or_supply.

Theorem C18_two_calls_disjoint : forall E n0 call N t v,
  all_old n0 v = true ->
  let (r1, n1) := pack_top E call N t v n0 in
  let (r2, n2) := pack_top E call N t v n1 in
  forall l, In l (labels r1) -> In l (labels r2) -> l < n0.
Proof. exact pack_twice_disjoint. Qed.
Print Assumptions C18_two_calls_disjoint.

Theorem C18_decode_two_calls_disjoint : forall E n0 t w,
  all_old n0 w = true ->
  let (r1, n1) := unpack_top E t w n0 in
  let (r2, n2) := unpack_top E t w n1 in
  forall l, In l (labels r1) -> In l (labels r2) -> l < n0.
Proof. exact unpack_twice_disjoint. Qed.
Print Assumptions C18_decode_two_calls_disjoint.

(* Absent keys: a field with default_factory=list whose key is missing from the input (TAbsent) gets a new list
   from the supply of that call -- covered by C18_decode_fresh / C18_decode_all_fresh (anyref is empty there)
   and C18_decode_two_calls_disjoint; Literal positions (TLit) are atoms packed by a helper that is not the
   bare name. *)
Definition env_dflt : env :=
  {| e_ct := fun _ => {| c_sup := false; c_nc := None; c_fields := [TSeq OList TAtom; TAbsent (DFresh KList); TAbsent DAtom; TLit] |};
     e_fmt := None; e_lp := fun _ => false |}.
Example C18_nonvacuous_defaults :
  let w := VMap KDict 0 [(VAtom 0%Z, VSeq KList 1 [VAtom 1%Z]); (VAtom 0%Z, VNone); (VAtom 0%Z, VNone); (VAtom 0%Z, VAtom 2%Z)] in
  wconforms env_dflt w (TDC 0) = true /\
  unpack_top env_dflt (TDC 0) w 2 = (VObj 0 2 [VSeq KList 3 [VAtom 1%Z]; VSeq KList 4 []; VAtom 0%Z; VAtom 2%Z], 5) /\
  fst (unpack_top env_dflt (TDC 0) w 5) = VObj 0 5 [VSeq KList 6 [VAtom 1%Z]; VSeq KList 7 []; VAtom 0%Z; VAtom 2%Z] /\
  fst (pack_top env0 None [OList] (TSeq OList TLit) (VSeq KList 0 [VAtom 1%Z]) 1) = VSeq KList 1 [VAtom 1%Z].
Proof. vm_compute. repeat split; reflexivity. Qed.

(* TypedDict (TRec) and ChainMap (TComp KChainMap (TRMap K V)) are always rebuilt: under any no_copy set
   the containers of the result are new, only items at by-reference positions stay the argument's. *)
Example C18_nonvacuous_typeddict_chainmap :
  let td := TRec [TSeq OList TAtom; TAtom] in
  let v := VMap KDict 0 [(VAtom 0%Z, VSeq KList 1 [VAtom 1%Z]); (VAtom 0%Z, VAtom 2%Z)] in
  let cm := TComp KChainMap (TRMap TAtom (TSeq OList TAtom)) in
  let c := VSeq KChainMap 0 [VMap KDict 1 [(VAtom 0%Z, VSeq KList 2 [VAtom 1%Z])]] in
  conforms env0 v td = true /\ udet env0 v None [OList; ODict] true td = true /\
  fst (pack_top env0 None [OList; ODict] td v 3) = VMap KDict 3 [(VAtom 0%Z, VSeq KList 1 [VAtom 1%Z]); (VAtom 0%Z, VAtom 2%Z)] /\
  maxold 3 (fst (pack_top env0 None [] td v 3)) = [] /\
  conforms env0 c cm = true /\
  fst (pack_top env0 None [OList; ODict] cm c 3) = VSeq KList 3 [VMap KDict 4 [(VAtom 0%Z, VSeq KList 2 [VAtom 1%Z])]] /\
  fst (unpack_top env0 cm (VSeq KList 0 [VMap KDict 1 [(VAtom 0%Z, VSeq KList 2 [VAtom 1%Z])]]) 3)
    = VSeq KChainMap 3 [VMap KDict 4 [(VAtom 0%Z, VSeq KList 5 [VAtom 1%Z])]].
Proof. vm_compute. repeat split; reflexivity. Qed.

(* No aliasing inside a result: the labels drawn from the supply occur once each, i.e. the new containers of
   a result are pairwise distinct objects (so mutating one part of the result cannot change another new part).
   No conformance hypothesis. *)
Theorem C18_fresh_distinct : forall E n0 call N t v,
  all_old n0 v = true -> NoDup (flabels n0 (fst (pack_top E call N t v n0))).
Proof. exact pack_fresh_nodup. Qed.
Print Assumptions C18_fresh_distinct.

Theorem C18_decode_fresh_distinct : forall E n0 t w,
  all_old n0 w = true -> NoDup (flabels n0 (fst (unpack_top E t w n0))).
Proof. exact unpack_fresh_nodup. Qed.
Print Assumptions C18_decode_fresh_distinct.
