(* C02, NamedTuple in the as_dict form (serialization strategy {C: {"serialize": "as_dict"}} of a dialect /
   Config for the class C at the top of a codec; the dialect / Config option namedtuple_as_dict for classes
   whose items reach no other NamedTuple).  Model: TyNtDict.v -- the generated expression
   {'a': p_a(value[0]), 'b': p_b(value[1]), ...} with the item packers of TyModel.v; tied to /repo by the
   per-run vm_compute correspondence (BasicEncoder(C, default_dialect=D)) and to the emitted code by
   kernel K45 (C03_ntdict_kernel.v). *)
From Coq Require Import List String ZArith Bool.
From Verif Require Import Core TyModel TyProofs TyBasic TyNtDict TyNtDictProofs.
Import ListNotations.

(* the generated packer returns the documented form: a dict with one converted item per field under the
   field's name, in field order -- for every class table, class and conforming instance *)
Theorem C02_ntdict_pack_ref : forall (E: senv) (P: prims) (v: pv) (c: String.string),
  conf E v (SNamed c) = true -> pk_nd E P v c = ref_enc_nd E P v c.
Proof. intros E P v c. exact (nd_pack_is_ref E P false v c). Qed.
Print Assumptions C02_ntdict_pack_ref.

(* only str / int / float / bool / None / list / dict (str keys) come out *)
Theorem C02_ntdict_basic : forall (E: senv) (P: prims),
  forallb (fun c => forallb (fun f => jsonable f.(sf_ty)) c.(sc_fields)) E = true ->
  (forall k w, scalar_basic (P.(p_render) k w) = true) ->
  (forall e m val, P.(p_enum_value) e m = Some val -> scalar_basic val = true) ->
  forall (v: pv) (c: String.string) (w: pv),
    conf E v (SNamed c) = true -> pk_nd E P v c = Ok w -> basic w = true.
Proof.
  intros E P H1 H2 H3 v c w HC Hpk. rewrite (nd_pack_is_ref E P false v c HC) in Hpk.
  exact (nd_enc_basic E P false H1 H2 H3 v c w HC Hpk).
Qed.
Print Assumptions C02_ntdict_basic.

(* the as_dict form is the as_list form with the field names attached: same items, same order *)
Theorem C02_ntdict_is_named_list : forall (E: senv) (P: prims) (v: pv) (c: String.string) (k: scls) (r: list pv),
  sfind E KNamed c = Some k -> pk E P v (cp true (SNamed c)) = Ok (VList r) ->
  pk_nd E P v c = Ok (VDict (nd_zip k.(sc_fields) r)).
Proof.
  intros E P v c k r Ef H. cbn [cp] in H. rewrite pk_unfold in H. rewrite Ef in H.
  unfold pk_nd, nd_pack. rewrite Ef.
  destruct v; try discriminate H.
  all: match type of H with (bind ?X _ = _) => destruct X as [r0|]; [|discriminate H] end; cbn [bind] in H; inversion H; reflexivity.
Qed.
Print Assumptions C02_ntdict_is_named_list.

(* non-vacuity: NT(a: int, n: None, i: In, b: Tuple[int, int] = (0, 0)) with In(p: int, q: str = "z") as a list inside *)
Definition ndE : senv :=
  [ {| sc_kind := KNamed; sc_name := "NT"; sc_fields :=
         [ {| sf_name := "a"; sf_ty := SIntT; sf_default := None; sf_opt := false |};
           {| sf_name := "n"; sf_ty := SNoneT; sf_default := None; sf_opt := false |};
           {| sf_name := "i"; sf_ty := SNamed "In"; sf_default := None; sf_opt := false |};
           {| sf_name := "b"; sf_ty := STupleFix [SIntT; SIntT]; sf_default := Some (VTuple [VInt 0; VInt 0]); sf_opt := false |} ] |};
    {| sc_kind := KNamed; sc_name := "In"; sc_fields :=
         [ {| sf_name := "p"; sf_ty := SIntT; sf_default := None; sf_opt := false |};
           {| sf_name := "q"; sf_ty := SStrT; sf_default := Some (VStr "z"); sf_opt := false |} ] |} ].
Definition ndP : prims := {|
  p_render := fun k w => VStr w; p_parse := fun _ _ => None; p_enum_value := fun _ _ => None; p_enum_of := fun _ _ => None;
  p_b64enc := fun b => b; p_b64dec := fun _ => None; p_int := fun _ => None; p_float := fun _ => None; p_str := fun _ => None |}.
Definition ndV : pv := VNT "NT" [VInt 1; VNone; VNT "In" [VInt 2; VStr "x"]; VTuple [VInt 3; VInt 4]].
Example C02_ntdict_nonvacuous :
  conf ndE ndV (SNamed "NT") = true /\
  pk_nd ndE ndP ndV "NT" =
    Ok (VDict [(VStr "a", VInt 1); (VStr "n", VNone); (VStr "i", VList [VInt 2; VStr "x"]); (VStr "b", VList [VInt 3; VInt 4])]) /\
  pk_nd ndE ndP (VNT "NT" [VInt 1; VNone]) "NT" = Exn XIndexError.
Proof. repeat split; vm_compute; reflexivity. Qed.
