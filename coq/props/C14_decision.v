(* C14: the compile-now / stub / raise decision of the builders and the arguments of the stub's re-build are the
   ones of the source (kernel K114a, translated from builder.py on every run). *)
From Coq Require Import List Arith Bool ZArith.
From Verif Require Import Regex PyK LazyModel LazyProofs LazyK114a LazyK114b LazyK114c LazyPostpone.
From VerifGen Require Import K114a K114b K114c.
Import ListNotations.
Close Scope Z_scope.
Open Scope nat_scope.

(* the translated tests, as boolean functions: lazy stub first iff lazy_compilation and the builder may postpone and is
   nailed and has no dialect; an unresolved reference raises iff the builder or the class' Config forbids postponing *)
Theorem C14_source_lazy_test : forall pack lazy ap nailed d,
  src_lazy_first pack lazy ap nailed d = Some (lazy && ap && nailed && match d with None => true | Some _ => false end).
Proof. exact src_lazy_first_eq. Qed.
Print Assumptions C14_source_lazy_test.

Theorem C14_source_unresolved_test : forall pack ap apc,
  src_unresolved_raises pack ap apc = Some (negb (ap && apc)).
Proof. exact src_unresolved_raises_eq. Qed.
Print Assumptions C14_source_unresolved_test.

(* LazyModel.build takes its three-way decision by the translated tests (incl. Config.allow_postponed_evaluation) *)
Theorem C14_build_follows_source : forall F n st ap c m d,
  build F true (S n) st ap c m d =
  match src_lazy_first (m_pack m) (c_lazy (cls F c)) ap true d with
  | Some true => install F st c m d (Stub c m)
  | Some false =>
      if unresolved F st c then
        match src_unresolved_raises (m_pack m) ap (c_apc (cls F c)) with
        | Some false => install F st c m d (Stub c m)
        | Some true => (st, Some EUnresolved)
        | None => (st, Some EUnresolved)
        end
      else
        match deps_with (fun st c' m' => build F true n st true c' m' None)
                        (match d with None => true | Some _ => false end) c m (c_fields (cls F c)) st with
        | (st1, None) => install F st1 c m d (Compiled c m d)
        | (st1, Some e) => (st1, Some e)
        end
  | None => (st, Some EUnresolved)
  end.
Proof. exact build_follows_source. Qed.
Print Assumptions C14_build_follows_source.

(* a call that finds a stub re-builds with the arguments of the emitted CodeBuilder(...) text - no postponing, the type
   arguments of the specialisation (fix e775114), no dialect - and calls the same method again *)
Theorem C14_stub_step_follows_source : forall F fuel st c m sc sm,
  mro_slot F st c m = Some (Stub sc sm) ->
  dispatch F true (S fuel) st c m None =
  match build F true (bfuel F) st (src_stub_ap (m_pack sm)) c (src_stub_target sm) (src_stub_dialect (m_pack sm)) with
  | (st1, None) => dispatch F true fuel st1 c sm None
  | (st1, Some e) => (st1, DExc e)
  end.
Proof. exact stub_step_follows_source. Qed.
Print Assumptions C14_stub_step_follows_source.

(* on-demand compilation of a nested dataclass (pack_dataclass / unpack_dataclass, kernel K114b): the translated test, as a
   boolean function ... *)
Theorem C14_source_ondemand_test : forall pack not_own other d top,
  src_ondemand pack not_own other d top =
  Some (not_own && (other || match d with None => false | Some _ => true end || top)).
Proof. exact src_ondemand_eq. Qed.
Print Assumptions C14_source_ondemand_test.

(* ... decides every step of LazyModel.deps_with, and the nested builder is the one the source creates (dialect None for a
   mixin builder - the nested class gets its DEFAULT method, fix 28d8957 -, postponing allowed, no first_method) *)
Theorem C14_deps_step_follows_source : forall F n c m d f r st,
  let sk := match d with None => true | Some _ => false end in
  let bld := fun st c' m' => build F true n st true c' m' None in
  deps_with bld sk c m (f :: r) st =
  match src_ondemand (m_pack m)
          (match get_slot st (f_cls f) (nested m (f_spec f)) with None => true | Some _ => false end)
          (negb (Nat.eqb (f_cls f) c)) d (m_top m) with
  | Some true =>
      match src_bld F n m d st (f_cls f) (nested m (f_spec f)) with
      | (st', None) => deps_with bld sk c m r st'
      | (st', Some e) => (st', Some e)
      end
  | Some false => deps_with bld sk c m r st
  | None => (st, Some EBuildCycle)
  end.
Proof. exact deps_step_follows_source. Qed.
Print Assumptions C14_deps_step_follows_source.

Theorem C14_build_ondemand_follows_source : forall F n st ap c m d,
  src_lazy_first (m_pack m) (c_lazy (cls F c)) ap true d = Some false ->
  unresolved F st c = false ->
  build F true (S n) st ap c m d =
  match deps_with (src_bld F n m d) (match d with None => true | Some _ => false end) c m (c_fields (cls F c)) st with
  | (st1, None) => install F st1 c m d (Compiled c m d)
  | (st1, Some e) => (st1, Some e)
  end.
Proof. exact build_ondemand_follows_source. Qed.
Print Assumptions C14_build_ondemand_follows_source.

(* non-vacuity: Config.allow_postponed_evaluation = False fails at class creation exactly when a reference is
   unresolved and the class is not lazy *)
Example C14_apc_false_fails_at_creation :
  run (F_apc false) true 40 st0 [Define 0] = [Exc EUnresolved] /\
  run (F_apc true) true 40 st0 [Define 0; Define 1; Call 0 (MN true 0 false 0) None (V [])] =
    [Out (Node 0 (MN false 0 false 0) None []); Out (Node 1 (MN false 0 false 0) None []);
     Out (Node 0 (MN true 0 false 0) None [])].
Proof. split; [exact (proj1 apc_false_fails_at_creation)|exact apc_false_lazy_still_postpones]. Qed.

(* ---- installation of a generated method (add_(un)pack_method / _add_setattr_method, kernel K114c) ---- *)
Theorem C14_source_install_tests : forall pack dsup d,
  src_creates_cache pack dsup = Some dsup /\
  src_dialect_branch pack dsup d = Some (dsup && match d with None => true | Some _ => false end) /\
  src_setattr_kind d = Some (match d with None => 0%Z | Some _ => 2%Z end).
Proof. intros; split; [apply src_creates_cache_eq|split; [apply src_dialect_branch_eq|apply src_setattr_kind_eq]]. Qed.
Print Assumptions C14_source_install_tests.

(* LazyModel.install: the dialect cache is created iff the source emits the creating line, the method goes to the class
   attribute for a default build and into the cache for a dialect-specific build *)
Theorem C14_install_follows_source : forall F st c m d x,
  install F st c m d x =
  let st1 := match src_creates_cache (m_pack m) (c_dsup (cls F c)) with
             | Some true => ensure_cache st c m
             | _ => st
             end in
  match src_setattr_kind d, d with
  | Some 0%Z, _ => (set_slot st1 c m x, None)
  | Some 2%Z, Some dd =>
      match get_cache st1 c m with
      | Some _ => (cache_store st1 c m dd x, None)
      | None => (st1, Some EAttrCache)
      end
  | _, _ => (st1, Some EAttrCache)
  end.
Proof. exact install_follows_source. Qed.
Print Assumptions C14_install_follows_source.

(* ---- class creation and Config.allow_postponed_evaluation (LazyPostpone.v) ---- *)

(* postponing allowed on every class: no class statement raises UnresolvedTypeReferenceError - in any state, any
   definition order, any mode, with any nesting compiled on demand *)
Theorem C14_creation_never_unresolved : forall F d5,
  (forall k, c_apc (cls F k) = true) ->
  forall fuel st c, snd (step F d5 fuel st (Define c)) <> Exc EUnresolved.
Proof. exact creation_never_unresolved. Qed.
Print Assumptions C14_creation_never_unresolved.

(* postponing forbidden on a non-lazy class compiled at creation whose references are unresolved: the class statement raises *)
Theorem C14_creation_unresolved_raises : forall F d5 fuel st c fu fp r,
  c_fmts (cls F c) = (fu, fp) :: r -> c_lazy (cls F c) = false -> c_apc (cls F c) = false -> unresolved F st c = true ->
  snd (step F d5 fuel st (Define c)) = Exc EUnresolved.
Proof. exact creation_unresolved_raises. Qed.
Print Assumptions C14_creation_unresolved_raises.
