(* C02 ("every entry point"): the packers compiled for a call-time dialect are cached per output format
   (kernel K13C: the attribute names are read off builder.py on every run). *)
From Coq Require Import List Bool String.
From Verif Require Import DialectDoc C02CachePerFormat.
Import ListNotations.
Open Scope string_scope.

Theorem C02_packer_cache_per_format : forall f1 f2,
  In f1 mixin_formats -> In f2 mixin_formats -> cache_name false f1 = cache_name false f2 -> f1 = f2.
Proof. exact packer_cache_per_format. Qed.
Print Assumptions C02_packer_cache_per_format.

Theorem C02_packer_cache_not_unpacker_cache : forall f1 f2,
  In f1 mixin_formats -> In f2 mixin_formats -> cache_name false f1 <> cache_name true f2.
Proof. exact packer_cache_not_unpacker_cache. Qed.
Print Assumptions C02_packer_cache_not_unpacker_cache.

Example C02_packer_cache_nonvacuous :
  cache_name false "dict" = "__dialect_dict_packer_cache__" /\ cache_name false "msgpack" = "__dialect_msgpack_packer_cache__".
Proof. split; reflexivity. Qed.
