(* C18, anchor "unpackers always build new containers" (unpack.py:unpack_collection, unpack_tuple,
   unpack_named_tuple, unpack_typed_dict): the decode compiler of the sharing model agrees with the kernel K118a
   translated from the source on this run, and no branch of the source hands back its input. *)
From Coq Require Import List Bool.
From Verif Require Import Share ShareProofs UnpackDecision ShareK118a.
From VerifGen Require Import K118a.
Import ListNotations.

(* whatever the origin type is (all 2^n vectors of the predicates the chain consults): the emitted template is never
   the bare input expression nor a shallow copy of it *)
Theorem C18_unpack_source_rebuilds : forall f, rebuilds (unpack_collection_decision f) = true.
Proof. exact unpack_collection_rebuilds. Qed.
Print Assumptions C18_unpack_source_rebuilds.

Theorem C18_unpack_structs_rebuild :
  forallb rebuilds (unpack_tuple_results ++ unpack_named_tuple_results ++ unpack_typed_dict_results) = true.
Proof. exact unpack_structs_rebuild. Qed.
Print Assumptions C18_unpack_structs_rebuild.

(* the model's unpacker for a sequence / mapping origin is the template the source chain selects for that
   origin's class (facts computed by CPython's issubclass on this run) *)
Theorem C18_unpack_seq_is_source : forall o t,
  is_seq_origin o = true ->
  uir_of_decision (unpack_collection_decision (origin_facts o)) (cu t) UId UId = Some (cu (TSeq o t)).
Proof. exact cu_seq_is_source. Qed.
Print Assumptions C18_unpack_seq_is_source.

Theorem C18_unpack_map_is_source : forall o kt vt,
  is_map_origin o = true ->
  uir_of_decision (unpack_collection_decision (origin_facts o)) UId (cu kt) (cu vt) = Some (cu (TMap o kt vt)).
Proof. exact cu_map_is_source. Qed.
Print Assumptions C18_unpack_map_is_source.

Theorem C18_unpack_tuple_is_source :
  unpack_collection_decision (origin_facts OTuple) = UDTuple /\
  forall d, In d unpack_tuple_results ->
            d = UDBuild CTuple BSeqComp \/ d = UDBuild CTuple BItems \/ d = UDBuild CTuple BEmpty.
Proof. exact tuple_is_source. Qed.
Print Assumptions C18_unpack_tuple_is_source.

(* the whole decode compiler, with its collection cases replaced by the translated source, is the model's *)
Theorem C18_unpack_compiler_is_source : forall t, wf_origins t = true -> cuK t = cu t.
Proof. exact cuK_is_cu. Qed.
Print Assumptions C18_unpack_compiler_is_source.

(* hence C18_decode_fresh holds for the compiler built from the source: only Any / pass_through positions keep
   input objects *)
Theorem C18_decode_fresh_source : forall E n0 t w,
  wf_origins t = true ->
  wconforms E w t = true -> all_old n0 w = true ->
  let (r, n1) := run_unpack E w (cuK t) n0 in
  maxold n0 r = anyref E w t /\ n0 <= n1.
Proof. exact unpack_fresh_source. Qed.
Print Assumptions C18_decode_fresh_source.
