(* C18, anchor "no_copy_collections taken from dialect/config and threaded through nested specs"
   (builder.py _get_field_packer, codecs/_builder.py add_encode_method): kernels K3 + K118c. *)
From Coq Require Import List String Bool.
From Verif Require Import PyK K3Proofs Share ShareK3.
From VerifGen Require Import K3 K118c.
Import ListNotations.
Open Scope string_scope.

(* the model's precedence (call dialect > Config.dialect > default dialect > ()) is the translated lookup, called
   with the option name and default that every site filling ValueSpec.no_copy_collections uses *)
Theorem C18_effective_nocopy_is_source : forall E call k a b c d,
  encodes a (match call with Some x => if k.(c_sup) then x else None | None => None end) ->
  encodes b k.(c_nc) -> ns_opt c nocopy_option = KMissing -> encodes d E.(e_fmt) ->
  get_dialect_or_config_option a b c d (KStr nocopy_option) nocopy_default = Ok (enc_origins (effN E call k)).
Proof. exact effN_is_source. Qed.
Print Assumptions C18_effective_nocopy_is_source.

(* ValueSpec.no_copy_collections is filled only where a packer tree is rooted (field packer, codec encoder), read only
   by pack_collection's two rule functions (kernel K15), never assigned afterwards, defaults to () and is inherited by
   nested specs (ValueSpec.copy = replace): unpackers never see a non-empty value and never look *)
Theorem C18_nocopy_sites :
  forallb pack_collection_site nocopy_read_sites = true /\
  forallb packer_root_site nocopy_write_sites = true /\
  existsb (String.eqb "mashumaro/core/meta/code/builder.py:CodeBuilder._get_field_packer") nocopy_write_sites = true /\
  existsb (String.eqb "mashumaro/codecs/_builder.py:CodecCodeBuilder.add_encode_method") nocopy_write_sites = true /\
  forallb (fun s => packer_root_site s || String.eqb s "mashumaro/dialect.py:Dialect.merge") nocopy_name_sites = true /\
  valuespec_nocopy_default = enc_origins [].
Proof. exact nocopy_sites_ok. Qed.
Print Assumptions C18_nocopy_sites.

(* "threaded through nested specs": inside pack.py / unpack.py no ValueSpec is built from scratch -- every item spec is
   spec.copy(...) (= dataclasses.replace, K118c) and so carries the holder's no_copy_collections; the sites that fill
   the option are ValueSpec constructions *)
Theorem C18_item_specs_inherit :
  existsb in_types_package valuespec_ctor_sites = false /\
  forallb (fun s => existsb (String.eqb s) valuespec_ctor_sites) nocopy_write_sites = true.
Proof. exact item_specs_inherit. Qed.
Print Assumptions C18_item_specs_inherit.
