(* C16 - schema-supplied strings are data, never code. *)
From Coq Require Import List String Ascii NArith Bool.
From Coq Require Import ZArith.
From Verif Require Import PyStrLit PyStrLitProofs PyLit PyLitProofs PyLine PyLineProofs Splice DefaultLit DefaultLitProofs SpliceProofs PyUse PyUseProofs SpliceUse LitRepr LitReprProofs LitReprK.
From VerifGen Require Import K10 K116a.
Import ListNotations.
Open Scope string_scope.
Open Scope N_scope.
Open Scope list_scope.

(* repr(s) is lexed back to exactly s, and the token ends exactly where repr ended - for ALL
   strings s of valid code points, every printable oracle (lone surrogates not printable), and
   every following text that does not start with a quote character. *)
Theorem C16_repr_lex : forall printable s rest,
  oracle_ok printable -> wf_str s -> ctx_ok rest = true ->
  lex_string (py_repr printable s ++ rest) = Some (s, rest).
Proof. exact repr_lex. Qed.
Print Assumptions C16_repr_lex.

(* harmless rewrite !r -> !a: ascii() is safe as well *)
Theorem C16_ascii_lex : forall s rest,
  wf_str s -> ctx_ok rest = true -> lex_string (py_ascii s ++ rest) = Some (s, rest).
Proof. exact ascii_lex. Qed.
Print Assumptions C16_ascii_lex.

(* Literal[b"..."]: repr of bytes is lexed back to the same bytes *)
Theorem C16_repr_bytes_lex : forall s rest,
  wf_bytes s -> ctx_ok rest = true -> lex_bytes (py_repr_bytes s ++ rest) = Some (s, rest).
Proof. exact repr_bytes_lex. Qed.
Print Assumptions C16_repr_bytes_lex.

(* what repr emits is printable ASCII or printable per the oracle: never NUL, a newline or
   (given oracle_ok) a surrogate, so the line structure of the generated source is intact *)
Theorem C16_repr_clean : forall printable s, wf_str s -> Forall (clean printable) (py_repr printable s).
Proof. exact repr_clean. Qed.
Print Assumptions C16_repr_clean.

(* strings without quote, backslash, newline, NUL, surrogate (e.g. identifiers) also survive
   raw splicing between static quotes: the remaining '{fname}' sites of the generator *)
Theorem C16_raw_plain_lex : forall s rest,
  Forall (fun c => plain_char c = true) s -> ctx_ok rest = true ->
  lex_string (SQ :: s ++ SQ :: rest) = Some (s, rest).
Proof. exact raw_plain_lex. Qed.
Print Assumptions C16_raw_plain_lex.

(* ... but not in general: the pre-fix generator (defect D6) *)
Definition its : str := codes "it's".
Theorem C16_raw_refuted : exists s, lex_string (SQ :: s ++ [SQ]) <> Some (s, []).
Proof. exists its. vm_compute. discriminate. Qed.
Print Assumptions C16_raw_refuted.

(* the injection of D6: the literal ends early and the remaining text is code *)
Example C16_raw_injection :
  lex_string (codes "'x', MISSING) or f() or d.get('x', MISSING)")
  = Some (codes "x", codes ", MISSING) or f() or d.get('x', MISSING)").
Proof. vm_compute. reflexivity. Qed.

(* K10: every data splice of the generator as it is in /repo now goes through repr()/ascii()
   in a context where the literal starts a fresh token and is not followed by a quote *)
Theorem C16_sites : forallb site_ok splice_sites = true.
Proof. exact sites_ok. Qed.
Print Assumptions C16_sites.

(* together: at every data site, for every data string, the generated line contains a string
   literal denoting exactly that string *)
Theorem C16_site_literal : forall st, In st splice_sites -> s_kind st <> KGuardedIdent ->
  forall p d rest, oracle_ok p -> wf_str d ->
  lex_string (site_text (s_kind st) p d ++ codes (s_after st) ++ rest) = Some (d, codes (s_after st) ++ rest)
  /\ before_ok (codes (s_before st)) = true.
Proof. exact site_literal. Qed.
Print Assumptions C16_site_literal.

(* the only other admissible kind: a raw splice guarded (in the generator's source, recognised by
   K10) by isidentifier() / not iskeyword() / NFKC-or-ASCII on the same value; identifier characters
   are inert for the tokenizer (ident_char_inert) and the surrounding text does not continue the name *)
Theorem C16_site_guarded : forall st, In st splice_sites -> s_kind st = KGuardedIdent ->
  before_ok (codes (s_before st)) = true /\ after_ident_ok (codes (s_after st)) = true
  /\ after_ok (codes (s_after st)) = true.
Proof. exact site_guarded. Qed.
Print Assumptions C16_site_guarded.

Theorem C16_ident_char_inert : forall c, is_ident_char c = true ->
  is_quote c = false /\ c <> BS /\ c <> 10 /\ c <> 13 /\ c <> 35 /\ c <> 32 /\ c <> 0.
Proof. exact ident_char_inert. Qed.
Print Assumptions C16_ident_char_inert.

Theorem C16_site_literal_bytes : forall st, In st splice_sites -> s_kind st = KRepr ->
  forall d rest, wf_bytes d ->
  lex_bytes (py_repr_bytes d ++ codes (s_after st) ++ rest) = Some (d, codes (s_after st) ++ rest).
Proof. exact site_literal_bytes. Qed.
Print Assumptions C16_site_literal_bytes.

(* ------------------------------------------------------------------ round 3: literal VALUES *)
(* every value of the literal model (str, bytes, int, bool, None, bound names, nested tuples
   rendered element-wise) is rendered by repr() into text that evaluates back to exactly it *)
Theorem C16_render_eval : forall p v rest,
  oracle_ok p -> wf_lit v -> ends_token rest = true ->
  eval_lit (render_lit p v ++ rest) = Some (v, rest).
Proof. exact render_eval. Qed.
Print Assumptions C16_render_eval.

(* at every repr()/ascii() site the guards of the generator admit values of exactly the builtin
   literal types only: type(X) in (...) tests, or isinstance() tests whose value is rendered through
   the builtin base type's __repr__ (helpers.literal_repr, body checked by K10), so that a str/bytes/int
   SUBCLASS with its own __repr__ cannot put text into the generated code (defect 12c7fd8) *)
Theorem C16_sites_full : forallb site_ok_full splice_sites = true.
Proof. exact sites_full. Qed.
Print Assumptions C16_sites_full.

(* only literal kinds arrive at a repr()/ascii() site of /repo, and every str/bytes/int/bool/None
   value is read back exactly *)
Theorem C16_site_value : forall st, In st splice_sites -> s_kind st = KRepr \/ s_kind st = KAscii ->
  s_types st <> [] /\ forallb literal_kind (s_types st) = true /\
  forall v p rest, atom_ty v <> None -> wf_lit v -> oracle_ok p ->
    eval_lit (site_value_text (s_kind st) p v ++ codes (s_after st) ++ rest)
    = Some (v, codes (s_after st) ++ rest).
Proof. exact site_value. Qed.
Print Assumptions C16_site_value.

(* get_field_default_literal as read from /repo on this run is a safe branch table ... *)
Theorem C16_default_branches_safe : branches_safe default_literal_branches = true.
Proof. exact default_branches_safe. Qed.
Print Assumptions C16_default_branches_safe.

(* ... every safe table renders every default value (nested tuples, objects imported by reference,
   IntFlag; floats under repr excluded by dwf) as a literal expression that denotes the value and
   evaluates back to it ... *)
Theorem C16_default_literal_general : forall t, branches_safe t = true -> forall v, dwf t v = true ->
  exists l, shape t v = Some l /\ denotes l v /\
    forall p rest, oracle_ok p -> ends_token rest = true ->
      eval_lit (render_lit p l ++ rest) = Some (l, rest).
Proof. exact shape_sound. Qed.
Print Assumptions C16_default_literal_general.

(* ... hence so does /repo's *)
Theorem C16_default_literal : forall v, dwf default_literal_branches v = true ->
  exists l, shape default_literal_branches v = Some l /\ denotes l v /\
    forall p rest, oracle_ok p -> ends_token rest = true ->
      eval_lit (render_lit p l ++ rest) = Some (l, rest).
Proof. exact default_literal. Qed.
Print Assumptions C16_default_literal.

(* the pre-fix renderer (repr of a whole tuple, defect cb2c8da): not safe, and a tuple holding an
   object has no literal rendering *)
Theorem C16_repr_tuple_refuted :
  branches_safe table_repr_tuple = false /\ shape table_repr_tuple (DTuple [DOther 1; DInt 1]) = None.
Proof. exact repr_tuple_refuted. Qed.
Print Assumptions C16_repr_tuple_refuted.

Example C16_nonvacuous_default :
  let v := DTuple [DStr (codes "it's"); DOther 3; DTuple [DIntFlag 5]; DTuple []; DNone] in
  dwf default_literal_branches v = true /\
  option_map (render_lit (fun _ => true)) (shape default_literal_branches v)
  = Some (codes "(""it's"", v_3, (5,), (), None)").
Proof. vm_compute. split; reflexivity. Qed.

(* ------------------------------------------------------------------ round 4: the whole LINE *)
(* a line made of an admissible before-text, repr(s) and a rest that does not start with a quote is
   tokenized (from any default state, after any earlier lines) as the characters of the before-text,
   ONE string token with value s, then the rest: before_ok / ctx_ok are exactly what this needs *)
Theorem C16_line_literal : forall p b s rest prev acc,
  oracle_ok p -> wf_str s -> before_ok b = true -> ctx_ok rest = true ->
  tok_line (LDef prev) acc (b ++ py_repr p s ++ rest)
  = tok_line (LDef false) (TkStr s :: rev (map TkChar b) ++ acc) rest.
Proof. exact line_literal. Qed.
Print Assumptions C16_line_literal.

Theorem C16_line_literal_bytes : forall b s rest prev acc,
  wf_bytes s -> before_ok b = true -> ctx_ok rest = true ->
  tok_line (LDef prev) acc (b ++ py_repr_bytes s ++ rest)
  = tok_line (LDef false) (TkBytes s :: rev (map TkChar b) ++ acc) rest.
Proof. exact line_literal_bytes. Qed.
Print Assumptions C16_line_literal_bytes.

(* ... instantiated at every repr()/ascii() row of the table read from /repo *)
Theorem C16_site_line : forall st, In st splice_sites -> s_kind st = KRepr \/ s_kind st = KAscii ->
  forall p d rest prev acc, oracle_ok p -> wf_str d ->
  tok_line (LDef prev) acc (codes (s_before st) ++ site_text (s_kind st) p d ++ codes (s_after st) ++ rest)
  = tok_line (LDef false) (TkStr d :: rev (map TkChar (codes (s_before st))) ++ acc) (codes (s_after st) ++ rest).
Proof. exact site_line. Qed.
Print Assumptions C16_site_line.

(* library text (field names, method names, class names, named-tuple keys) placed INSIDE static
   string literals of the templates: every such placeholder of /repo has a plain origin by K10's
   rules and plain surroundings, and for plain text the literal denotes before ++ text ++ after *)
Theorem C16_ident_sites : forallb isite_ok ident_sites = true.
Proof. exact ident_sites_ok. Qed.
Print Assumptions C16_ident_sites.

Theorem C16_ident_site : forall st, In st ident_sites ->
  forall q t rest, codes (i_quote st) = [q] ->
  Forall (fun c => plain_char c = true) t -> ctx_ok rest = true ->
  is_quote q = true /\
  lex_string (q :: (codes (i_before st) ++ t ++ codes (i_after st)) ++ q :: rest)
  = Some (codes (i_before st) ++ t ++ codes (i_after st), rest).
Proof. exact ident_site. Qed.
Print Assumptions C16_ident_site.

Example C16_nonvacuous_ident : Nat.leb 20 (List.length ident_sites) = true.
Proof. vm_compute. reflexivity. Qed.

(* finite floats (defaults under omit_default): their repr is digits, point, e and signs only (law
   checked per run: float_text_ok (repr x) for sampled and special floats), and such text opens no
   literal and no comment on the line *)
Theorem C16_float_inert : forall t l prev acc,
  forallb float_char t = true ->
  exists prev', tok_line (LDef prev) acc (t ++ l) = tok_line (LDef prev') (rev (map TkChar t) ++ acc) l.
Proof. exact float_inert. Qed.
Print Assumptions C16_float_inert.

(* the D6 injection seen from the line: the raw splice yields TWO string tokens and code between them *)
Example C16_line_injection :
  literals (codes "value = d.get('x', MISSING) or f() or d.get('x', MISSING)")
  = Some [VS (codes "x"); VS (codes "x")]
  /\ literals (codes "value = d.get(""x', MISSING) or f() or d.get('x"", MISSING)")
  = Some [VS (codes "x', MISSING) or f() or d.get('x")].
Proof. split; vm_compute; reflexivity. Qed.

(* ------------------------------------------------------------------ round 6: the ROLE of the literal
   "(de)serialization uses exactly that string as key or value": the tokens around the string token
   decide what the generated line does with it - first argument of X.get(, subscript X[..], key of a
   dict display, element of a set display, right operand of ==.  [luse] reads the role off the tokens
   before the literal (nearest first) and the first character after it (compared on every run with
   the role CPython's own parser gives every string constant of the generated functions). *)

(* the role read from a piece of text is the same after ANY earlier text: a template decides it alone *)
Theorem C16_use_stable : forall w x nx u, luse w nx = Some u -> luse (w ++ x) nx = Some u.
Proof. exact luse_mono. Qed.
Print Assumptions C16_use_stable.

(* for all strings d, all admissible before-texts b, all after-texts a, all earlier tokens acc and all
   following text: if the static texts b, a decide the role u and the tokenizer accepts the text, its
   output is acc, the characters of b, ONE string token of value d, ... and the scanner records (u, d) *)
Theorem C16_text_use : forall p b a d rest prev acc ts u,
  oracle_ok p -> wf_str d -> before_ok b = true -> after_ok a = true ->
  text_use b a = Some u ->
  tok_line (LDef prev) acc (b ++ py_repr p d ++ a ++ rest) = Some ts ->
  exists post, ts = rev acc ++ map TkChar b ++ TkStr d :: post /\
    uses_from (rev (map TkChar b) ++ acc) (TkStr d :: post)
    = (u, VS d) :: uses_from (TkStr d :: rev (map TkChar b) ++ acc) post.
Proof. exact text_use_line. Qed.
Print Assumptions C16_text_use.


(* the same for bytes literals (Literal[b"..."]): the b prefix belongs to the token *)
Theorem C16_text_use_bytes : forall b a d rest prev acc ts u,
  wf_bytes d -> before_ok b = true -> after_ok a = true ->
  text_use b a = Some u ->
  tok_line (LDef prev) acc (b ++ py_repr_bytes d ++ a ++ rest) = Some ts ->
  exists post, ts = rev acc ++ map TkChar b ++ TkBytes d :: post /\
    uses_from (rev (map TkChar b) ++ acc) (TkBytes d :: post)
    = (u, VB d) :: uses_from (TkBytes d :: rev (map TkChar b) ++ acc) post.
Proof. exact text_use_line_bytes. Qed.
Print Assumptions C16_text_use_bytes.

(* ... at every repr()/ascii() row of the table read from /repo whose template decides the role *)
Theorem C16_site_use : forall st, In st splice_sites -> s_kind st = KRepr \/ s_kind st = KAscii ->
  forall u, site_use st = Some u ->
  forall p d rest prev acc ts, oracle_ok p -> wf_str d ->
  tok_line (LDef prev) acc (codes (s_before st) ++ site_text (s_kind st) p d ++ codes (s_after st) ++ rest) = Some ts ->
  exists post, ts = rev acc ++ map TkChar (codes (s_before st)) ++ TkStr d :: post /\
    uses_from (rev (map TkChar (codes (s_before st))) ++ acc) (TkStr d :: post)
    = (u, VS d) :: uses_from (TkStr d :: rev (map TkChar (codes (s_before st))) ++ acc) post.
Proof. exact site_use_at. Qed.
Print Assumptions C16_site_use.

(* ... seen from the start of the generated text: its uses are those of the earlier text, (u, d), the rest *)
Theorem C16_site_use_whole : forall st, In st splice_sites -> s_kind st = KRepr \/ s_kind st = KAscii ->
  forall u, site_use st = Some u ->
  forall p d rest prev acc ts, oracle_ok p -> wf_str d ->
  tok_line (LDef prev) acc (codes (s_before st) ++ site_text (s_kind st) p d ++ codes (s_after st) ++ rest) = Some ts ->
  exists U1 U2, uses_from [] ts = U1 ++ (u, VS d) :: U2.
Proof. exact site_use_whole. Qed.
Print Assumptions C16_site_use_whole.

(* keys are compared code point by code point: the key token of value d selects the entry d and no other *)
Theorem C16_key_eq_exact : forall a b, lval_eqb a b = true <-> a = b.
Proof. exact lval_eqb_eq. Qed.
Print Assumptions C16_key_eq_exact.

(* non-vacuity: most rows decide their role, and the roles the property names are there: aliases are
   read with d.get( and written with kwargs[ ], TypedDict keys are subscripts and .get( arguments, the
   discriminator field is a subscript and an element of the allowed-keys set, Config.aliases values are
   dict-display keys, Literal values are compared with == *)
Example C16_nonvacuous_use :
  Nat.leb 50 decided
  && has_use "field alias" UGet && has_use "field alias" USub
  && has_use "TypedDict key" USub && has_use "TypedDict key" UGet
  && has_use "discriminator field" USub && has_use "discriminator field" UElem
  && has_use "Config.aliases value" UDictKey && has_use "Literal value" UCmp = true.
Proof. vm_compute. reflexivity. Qed.

(* the D6 injection seen by the role scanner: raw splice = two mapping reads of the key x; repr = ONE
   mapping read whose key is the whole alias *)
Example C16_use_injection :
  uses (codes "value = d.get('x', MISSING) or f() or d.get('x', MISSING)")
  = Some [(UGet, VS (codes "x")); (UGet, VS (codes "x"))]
  /\ uses (codes "value = d.get(""x', MISSING) or f() or d.get('x"", MISSING)")
  = Some [(UGet, VS (codes "x', MISSING) or f() or d.get('x"))]
  /\ uses (codes "kwargs[""it's""] = {'a': 1, 'b'}")
  = Some [(USub, VS (codes "it's")); (UDictKey, VS (codes "a")); (UElem, VS (codes "b"))].
Proof. repeat split; vm_compute; reflexivity. Qed.

(* ------------------------------------------------------------------ round 6: helpers.literal_repr
   The text of a Literal value goes through literal_repr.  K116a reads its loop from /repo (tuple of
   bases in order, hit branch, fallback); LitRepr.v interprets such a table on objects with a builtin
   payload, an exact-type flag and - for instances of subclasses - an ARBITRARY own __repr__. *)

(* for every good table (first matching base of every payload kind is its own builtin type - bool before
   int -, hits go through base.__repr__, the fallback is repr): for all objects the Literal guards admit,
   whatever their class overrides, the text is the builtin repr of the payload ... *)
Theorem C16_literal_repr_general : forall bases hit fb, lr_table_ok bases hit fb = true ->
  forall p v, obj_wf v = true -> lr_model p bases hit fb v = Some (render_lit p (o_prim v)).
Proof. exact lr_inert. Qed.
Print Assumptions C16_literal_repr_general.

(* ... /repo's literal_repr is a good table, so this holds for it ... *)
Theorem C16_literal_repr_inert : forall p v, obj_wf v = true ->
  lr_model p literal_repr_bases literal_repr_hit literal_repr_fallback v = Some (render_lit p (o_prim v)).
Proof. exact literal_repr_inert. Qed.
Print Assumptions C16_literal_repr_inert.

(* ... and the text evaluates back to exactly the payload *)
Theorem C16_literal_repr_eval : forall p v rest,
  oracle_ok p -> obj_wf v = true -> wf_lit (o_prim v) -> ends_token rest = true ->
  exists t, lr_model p literal_repr_bases literal_repr_hit literal_repr_fallback v = Some t
            /\ eval_lit (t ++ rest) = Some (o_prim v, rest).
Proof. exact literal_repr_eval. Qed.
Print Assumptions C16_literal_repr_eval.


(* the link to the splice table: what literal_repr returns for a str / bytes payload - exact, or an instance
   of a subclass with ANY __repr__ - is the site text of a repr row (C16_site_line, C16_site_use apply to it) *)
Theorem C16_literal_repr_site : forall p d ex r,
  lr_model p literal_repr_bases literal_repr_hit literal_repr_fallback (mk_obj (PyLit.LStr d) ex r) = Some (site_text KRepr p d)
  /\ lr_model p literal_repr_bases literal_repr_hit literal_repr_fallback (mk_obj (LBytes d) ex r) = Some (py_repr_bytes d).
Proof. exact (fun p d ex r => conj (literal_repr_str p d ex r) (literal_repr_bytes p d ex r)). Qed.
Print Assumptions C16_literal_repr_site.

(* the pre-12c7fd8 renderer (repr(value)) emits the subclass's text; int before bool renders True as 1 *)
Theorem C16_literal_repr_refuted :
  lr_model (fun _ => true) [BBool; BInt; BStr; BBytes] HOwnRepr HOwnRepr (mk_obj (PyLit.LStr (codes "v")) false evil) = Some evil
  /\ lr_table_ok [BBool; BInt; BStr; BBytes] HOwnRepr HOwnRepr = false
  /\ lr_model (fun _ => true) [BInt; BBool; BStr; BBytes] HBaseRepr HOwnRepr (mk_obj (LBool true) true []) = Some (codes "1")
  /\ lr_table_ok [BInt; BBool; BStr; BBytes] HBaseRepr HOwnRepr = false.
Proof. exact lr_refuted. Qed.
Print Assumptions C16_literal_repr_refuted.

Example C16_nonvacuous_literal_repr :
  obj_wf (mk_obj (PyLit.LStr (codes "v")) false evil) = true /\
  lr_model (fun _ => true) literal_repr_bases literal_repr_hit literal_repr_fallback (mk_obj (PyLit.LStr (codes "v")) false evil)
  = Some (codes "'v'") /\
  lr_model (fun _ => true) literal_repr_bases literal_repr_hit literal_repr_fallback (mk_obj (LBool true) true [])
  = Some (codes "True").
Proof. exact literal_repr_example. Qed.

(* non-vacuity: the hypotheses are met by the adversarial strings, the table is not empty
   and contains every position class the property names *)
Example C16_nonvacuous_strings :
  let s := codes "x', MISSING) or f() or d.get('x" in
  forallb valid_cp s && ctx_ok (codes ", MISSING)")
  && leqb (py_repr (fun _ => true) s) (codes """x', MISSING) or f() or d.get('x""") = true.
Proof. vm_compute. reflexivity. Qed.
Example C16_nonvacuous_oracle : oracle_ok (fun c => negb (is_surrogate c)).
Proof. intros c H. rewrite H. reflexivity. Qed.
Example C16_nonvacuous_sites : Nat.leb 20 (List.length splice_sites) = true /\
  has_origin "field alias" && has_origin "Config.aliases value" && has_origin "TypedDict key"
  && has_origin "discriminator field" && has_origin "Literal value" && has_origin "enum member name" = true.
Proof. split; [exact sites_nonempty | exact sites_cover]. Qed.
