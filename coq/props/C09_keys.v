(* C09 -- input keys are resolved by the documented alias rules.

   keymodel          reference semantics written from the property text (KeyModel.v)
   impl_from_dict    model of the generated from_dict; calls the kernels translated from /repo
                     on every run (VerifGen.K4: get_field_alias, key_plan, allowed_keys)
   code_from_dict    kernel-free description of the same (KeyProofs.v)
   The main statement holds for every class and every input (no domain restriction since the
   empty-string alias was repaired in /repo 7108448). *)
From Coq Require Import List String Ascii ZArith Bool.
From Verif Require Import Regex PyK PyK_strat PyK_alias FieldDecl FieldDeclProofs KeyModel KeyImpl KeyProofs KeyDecl KeyCfg KeyNested KeyRewrite KeyHook KeyDc KeyDcDecl KeyDeep KeyDeepHook PyK_clsdiscr KeyDiscr KeyHookLookup KeyFull KeyInit.
From VerifGen Require Import K4 K5 K109a K109b K109c.
Import ListNotations.
Open Scope string_scope.
Open Scope list_scope.

(* ---- (T) the translated kernels ---- *)

(* alias = metadata alias if not None, else the last Annotated Alias if any, else Config.aliases[fname], else None *)
Theorem K4_precedence :
  forall (fname: string) (md anns: kv) (m: option string) (isann: bool) (l: list ann) (al: list (string * string)),
    k_dict_get md (KStr "alias") = Ok (enc_ostr m) ->
    (isann = true -> anns = KTuple (map enc_ann l)) ->
    get_field_alias (KStr fname) md (KBool isann) anns (enc_aliases al)
    = Ok (enc_ostr (orelse m (orelse (if isann then last_alias l else None) (assoc al fname)))).
Proof. exact get_field_alias_spec. Qed.
Print Assumptions K4_precedence.

(* the emitted lookup reads [alias; name] iff allow_deserialization_not_by_alias and alias is not None,
   else the single key `alias or name` *)
Theorem K4_key_plan : forall allow a n,
  key_plan (KBool allow) (enc_ostr a) (KStr n) = Ok (KTuple (map kv_of_key (plan_spec allow a n))).
Proof. exact key_plan_spec. Qed.
Print Assumptions K4_key_plan.

(* allowed = {alias or name} + {discriminator field, if truthy} + ({names} if allow_deserialization_not_by_alias) *)
Theorem K4_allowed_keys : forall discr allow ff,
  allowed_keys (enc_discr discr) (KBool allow) (enc_ff ff)
  = Ok (KList (map kv_of_key (allowed_spec discr allow ff))).
Proof. exact allowed_keys_spec. Qed.
Print Assumptions K4_allowed_keys.

(* ---- the model built on the kernels, for every class and every input ---- *)
Theorem C09_impl_is_code : forall c d, impl_from_dict c d = Ok (code_from_dict c d).
Proof. exact impl_eq_code. Qed.
Print Assumptions C09_impl_is_code.

(* ---- main statement: generated code = KEYMODEL, for every class and every input ---- *)
Theorem C09_keys : forall c d, impl_from_dict c d = Ok (keymodel c d).
Proof. exact impl_eq_keymodel. Qed.
Print Assumptions C09_keys.

(* ---- what KEYMODEL says (and hence the code) ---- *)

(* each field is read from exactly one key: the first present of [alias; name if allowed] / [name] *)
Theorem C09_field_key : forall c d f,
  field_read c d f =
  match alias_of c f with
  | Some a => match read_at d (KeyS a) with
              | Some r => Some r
              | None => if c_allow c then read_at d (KeyS (f_name f)) else None
              end
  | None => read_at d (KeyS (f_name f))
  end.
Proof. exact field_read_spec. Qed.
Print Assumptions C09_field_key.

(* closed form of the outcome: ExtraKeys first, else the first required field without key, else the instance *)
Theorem C09_outcome : forall c d,
  keymodel c d =
  if c_forbid c && negb (is_nil (extra_keys c d)) then OExtra (extra_keys c d)
  else match find (fun f => is_none (field_read c d f) && negb (f_dflt f)) (c_fields c) with
       | Some f => OMissing (f_name f)
       | None => OInst (map (fun f => (f_name f, field_read c d f)) (c_fields c))
       end.
Proof. exact keymodel_spec. Qed.
Print Assumptions C09_outcome.

Theorem C09_alias_wins : forall c d f a v,
  alias_of c f = Some a -> dget d (KeyS a) = Some v -> field_read c d f = Some (KeyS a, v).
Proof. exact alias_wins. Qed.
Print Assumptions C09_alias_wins.

Theorem C09_fallback : forall c d f a,
  alias_of c f = Some a -> dget d (KeyS a) = None ->
  field_read c d f = if c_allow c then read_at d (KeyS (f_name f)) else None.
Proof. exact name_fallback. Qed.
Print Assumptions C09_fallback.

Theorem C09_accepted_covers_reads : forall c d f k v,
  In f (c_fields c) -> field_read c d f = Some (k, v) -> In k (accepted c).
Proof. exact accepted_covers_reads. Qed.
Print Assumptions C09_accepted_covers_reads.

(* the same at the level of the generated code: keys of the emitted lookups vs the emitted allowed set *)
Theorem C09_reads_allowed : forall c f k,
  In f (c_fields c) -> In k (code_plan c f) -> kmem k (code_accepted c) = true.
Proof. exact code_reads_allowed. Qed.
Print Assumptions C09_reads_allowed.

Theorem C09_extra_members : forall c d k,
  In k (extra_keys c d) <-> In k (keys d) /\ ~ In k (accepted c).
Proof. exact extra_keys_spec. Qed.
Print Assumptions C09_extra_members.

Theorem C09_extra_exact : forall c d, c_forbid c = true ->
  (extra_keys c d <> [] -> keymodel c d = OExtra (extra_keys c d)) /\
  (forall ks, keymodel c d = OExtra ks -> ks = extra_keys c d /\ ks <> []).
Proof. exact extra_exact. Qed.
Print Assumptions C09_extra_exact.

Theorem C09_ignored : forall c d1 d2 k v, c_forbid c = false -> ~ In k (accepted c) ->
  keymodel c (d1 ++ (k, v) :: d2) = keymodel c (d1 ++ d2).
Proof. exact ignored. Qed.
Print Assumptions C09_ignored.

Theorem C09_forbidden_reported : forall c d1 d2 k v, c_forbid c = true -> ~ In k (accepted c) ->
  exists ks, keymodel c (d1 ++ (k, v) :: d2) = OExtra ks /\ In k ks.
Proof. exact forbidden_reported. Qed.
Print Assumptions C09_forbidden_reported.

(* ---- class hierarchies: the alias sources and options the class *sees* ---- *)

(* the declaration seen for a name is the one of the class's own body if any, else what the parent sees *)
Theorem C09_nearest_declaration : forall n ls l,
  lookup_decl n (collect (ls ++ [l]))
  = match lookup_decl n (rev (l_decls l)) with Some p => Some p | None => lookup_decl n (collect ls) end.
Proof. exact nearest_declaration. Qed.
Print Assumptions C09_nearest_declaration.

(* Python attribute lookup: a Config of the class body overrides what the class would otherwise see,
   attribute by attribute if it derives from it, entirely if it does not *)
Theorem C09_nearest_config : forall ls l, nearest_cfg (ls ++ [l]) = step_cfg (nearest_cfg ls) l.
Proof. exact nearest_config. Qed.
Print Assumptions C09_nearest_config.

(* (T) CodeBuilder.get_config, translated from /repo (VerifGen.K4.get_config), run on the class objects of a
   hierarchy r (nearest class first; BaseConfig subclasses, plain classes, Configs deriving from the Config
   their class would otherwise see) returns a class whose options are those of Python's attribute lookup *)
Theorem C09_get_config : forall r,
  exists c, get_config (cls_obj r) base_config KNone (KBool true) = Ok c
            /\ cfg_of_class c = Some (nearest_cfg (rev r)).
Proof. exact get_config_spec. Qed.
Print Assumptions C09_get_config.

Theorem C09_builder_config : forall ls, impl_cfg ls = Ok (nearest_cfg ls).
Proof. exact impl_cfg_nearest. Qed.
Print Assumptions C09_builder_config.

(* every field name occurs once among the collected declarations (re-declaration replaces in place) *)
Theorem C09_fields_unique : forall ls, NoDup (map dname (collect ls)).
Proof. exact collect_nodup. Qed.
Print Assumptions C09_fields_unique.

(* the generated code of a class given by its hierarchy -- the Config through the translated get_config, then
   the translated alias / lookup / allowed-key kernels -- is KEYMODEL of the class the hierarchy denotes *)
Theorem C09_keys_hier : forall ls discr d,
  impl_from_hier ls discr d = Ok (keymodel (class_of ls discr) d).
Proof. exact impl_from_hier_keymodel. Qed.
Print Assumptions C09_keys_hier.

(* ---- the alias data the generated code uses comes from CodeBuilder.dataclass_fields (translated as
   VerifGen.K5, tied to FieldDecl.ref_fields by C10): run on the encoding of the hierarchy, followed by
   metadatas.get(fname, {}) and __get_field_alias (K4), it yields KeyModel.alias_of of the class the
   hierarchy denotes.  mdf: the metadata mapping written in a declaration (any mapping whose "alias"
   entry is the declared alias); rest: the MRO after the class itself (mro_of: it resolves names like
   the hierarchy ls -- discharged below for single inheritance and for unrelated bases K(B, A); extra =
   MRO entries without fields: object, mixins, a field-less Base); the last hypothesis is discharged
   below for the two views the builder has of the class body. ---- *)
Theorem C09_alias_from_sources :
  forall (mdf: fld -> kv), (forall f, k_dict_get (mdf f) (KStr "alias") = Ok (enc_ostr (f_meta f))) ->
  forall (ls: list level) (l: level) (rest: list pyclass) (c0: pyclass) nsd ownf discr,
  mro_of mdf rest ls ->
  sd_get nsd "__dataclass_fields__" = None -> ~ In "__dataclass_fields__" (map dname (l_decls l)) ->
  (forall n f i, lookup_decl n (rev (l_decls l)) = Some (f, i) ->
     alias_md (own_result nsd ownf n) = Ok (enc_ostr (f_meta f))) ->
  exists d,
    dataclass_fields (KTuple (enc_class c0 :: map enc_class rest))
                     (KList (map KStr (map dname (l_decls l)))) (enc_namespace nsd ownf)
    = Ok (KDict (enc_sd d))
    /\ forall f, In f (effective (ls ++ [l])) ->
       exists md, md_lookup d (f_name f) = Ok md
         /\ get_field_alias (KStr (f_name f)) md
              (KBool (match f_ann f with Some _ => true | None => false end))
              (match f_ann f with Some a => KTuple (map enc_ann a) | None => KNone end)
              (enc_aliases (c_aliases (class_of (ls ++ [l]) discr)))
            = Ok (enc_ostr (alias_of (class_of (ls ++ [l]) discr) f)).
Proof. exact alias_from_sources. Qed.
Print Assumptions C09_alias_from_sources.

(* MRO of single inheritance: each ancestor's __dataclass_fields__ is cumulative *)
Theorem C09_mro_chain :
  forall (mdf: fld -> kv) ls extra, Forall fieldless extra -> mro_of mdf (anc mdf (rev ls) ++ extra) ls.
Proof. exact mro_chain. Qed.
Print Assumptions C09_mro_chain.

(* MRO of K(B, A) with unrelated bases: nearest first, each with the fields of its own body *)
Theorem C09_mro_roots :
  forall (mdf: fld -> kv) ls extra, Forall fieldless extra -> mro_of mdf (roots mdf ls ++ extra) ls.
Proof. exact mro_roots. Qed.
Print Assumptions C09_mro_roots.

(* view (a): the class is finished (codecs; any compilation after @dataclass has run) *)
Theorem C09_own_view_finished :
  forall (mdf: fld -> kv), (forall f, k_dict_get (mdf f) (KStr "alias") = Ok (enc_ostr (f_meta f))) ->
  forall ls l nsd,
  (forall n, In n (map dname (l_decls l)) -> k_is_field (or_missing (sd_get nsd n)) = false) ->
  forall n f i, lookup_decl n (rev (l_decls l)) = Some (f, i) ->
    alias_md (own_result nsd (Some (fields_dict (cum mdf (collect (ls ++ [l]))))) n) = Ok (enc_ostr (f_meta f)).
Proof. exact own_view_finished. Qed.
Print Assumptions C09_own_view_finished.

(* view (b): the mixin compiles in __init_subclass__, before @dataclass has run *)
Theorem C09_own_view_raw :
  forall (mdf: fld -> kv), (forall f, k_dict_get (mdf f) (KStr "alias") = Ok (enc_ostr (f_meta f))) ->
  forall (l: level) nsd,
  (forall n f i, lookup_decl n (rev (l_decls l)) = Some (f, i) ->
     sd_get nsd n = Some (KNs [("name", KNone); ("metadata", mdf f)])
     \/ (k_is_field (or_missing (sd_get nsd n)) = false /\ f_meta f = None)) ->
  forall n f i, lookup_decl n (rev (l_decls l)) = Some (f, i) ->
    alias_md (own_result nsd None n) = Ok (enc_ostr (f_meta f)).
Proof. exact own_view_raw. Qed.
Print Assumptions C09_own_view_raw.

(* non-vacuity: the translated dataclass_fields evaluated on A.x (alias x_v1), B(A).x (alias x_v2), C(B):
   the Field found for x carries B's metadata, and the translated __get_field_alias returns "x_v2" *)
Example C09_nonvacuous_sources :
  let fA := mkF "x" (Some "x_v1") None false in
  let fB := mkF "x" (Some "x_v2") None false in
  let ls := [mkL [(fA, true)] None; mkL [(fB, true)] None] in
  dataclass_fields (KTuple (enc_class None :: map enc_class (anc enc_meta (rev ls) ++ [None])))
                   (KList []) (enc_namespace [] (Some (fields_dict (cum enc_meta (collect ls)))))
  = Ok (KDict (enc_sd [("x", mk_field "x" (enc_meta fB))]))
  /\ get_field_alias (KStr "x") (enc_meta fB) (KBool false) KNone (enc_aliases [("x", "cx")]) = Ok (KStr "x_v2").
Proof. split; vm_compute; reflexivity. Qed.

(* A.x alias "x_v1"; B(A).x alias "x_v2"; B's Config derives from A's (keeps allow, replaces aliases, sets
   forbid); C(B) re-declares nothing: C reads x from "x_v2" or, as allow is inherited, from "x";
   y is re-declared init=False in B and is not read any more *)
Example C09_nonvacuous_hier :
  let ls := [mkL [(mkF "x" (Some "x_v1") None false, true); (mkF "y" None None true, true)]
                 (Some (mkCD false false (Some [("x", "cx")]) (Some true) None));
             mkL [(mkF "x" (Some "x_v2") None false, true); (mkF "y" None None true, false)]
                 (Some (mkCD true false (Some []) None (Some true)));
             mkL [] None] in
  effective ls = [mkF "x" (Some "x_v2") None false]
  /\ keymodel (class_of ls None) [(KeyS "x_v2", 1%Z)] = OInst [("x", Some (KeyS "x_v2", 1%Z))]
  /\ nearest_cfg ls = mkCfg [] true true /\ impl_cfg ls = Ok (mkCfg [] true true)
  /\ keymodel (class_of ls None) [(KeyS "x", 1%Z)] = OInst [("x", Some (KeyS "x", 1%Z))]
  /\ keymodel (class_of ls None) [(KeyS "x_v1", 1%Z); (KeyS "x_v2", 2%Z); (KeyS "y", 3%Z)] = OExtra [KeyS "x_v1"; KeyS "y"].
Proof. repeat split; vm_compute; reflexivity. Qed.

(* a plain Config deriving from a plain Config keeps what it inherits (repaired in /repo b122a57; before, the
   parent's aliases and forbid_extra_keys were lost): A.Config{aliases x->ax, forbid}, K.Config(A.Config){allow} *)
Example C09_nonvacuous_plain_config :
  let ls := [mkL [(mkF "x" None None true, true)] (Some (mkCD false true (Some [("x", "ax")]) None (Some true)));
             mkL [] (Some (mkCD true true None (Some true) None))] in
  impl_cfg ls = Ok (mkCfg [("x", "ax")] true true)
  /\ impl_from_hier ls None [(KeyS "ax", 1%Z); (KeyS "q", 2%Z)] = Ok (OExtra [KeyS "q"])
  /\ impl_from_hier ls None [(KeyS "x", 1%Z)] = Ok (OInst [("x", Some (KeyS "x", 1%Z))]).
Proof. repeat split; vm_compute; reflexivity. Qed.

(* ---- dataclass-typed fields at any depth and inside Optional / List / Dict[str, .] ---- *)
Theorem C09_deep : forall fuel tb k d, deep_impl fuel tb k d = deep_ref fuel tb k d.
Proof. exact deep_impl_eq_ref. Qed.
Print Assumptions C09_deep.

Theorem C09_deep_list : forall rd ex fu tb t l,
  dec rd ex (S fu) tb (TList t) (VL l) = option_map RList (all_some (map (dec rd ex fu tb t) l)).
Proof. exact list_elementwise. Qed.
Print Assumptions C09_deep_list.

Theorem C09_deep_map_keys : forall rd ex fu tb t d xs,
  all_some (map (fun p => dec rd ex fu tb t (snd p)) d) = Some xs ->
  dec rd ex (S fu) tb (TMap t) (VD d) = Some (RMap (combine (map fst d) xs)).
Proof. exact map_keys_are_data. Qed.
Print Assumptions C09_deep_map_keys.

(* N2: r alias "ar", forbid_extra_keys.  N1: q: List[N2] alias "aq".  K: x: Dict[str, N1], allow names.
   The keys "ar" and "aq" of the outer mapping value are data; inside, each class applies its own rules;
   one extra key three levels down invalidates K.x *)
Example C09_nonvacuous_deep :
  let n2 := mkN (mkC [mkF "r" (Some "ar") None false] [] false true None) [] in
  let n1 := mkN (mkC [mkF "q" (Some "aq") None false] [] false false None) [("q", TList (TCls 0))] in
  let k := mkN (mkC [mkF "x" None None false] [] true false None) [("x", TMap (TCls 1))] in
  deep_ref 10 [n2; n1; k] 2 [(KeyS "x", VD [(KeyS "ar", VD [(KeyS "aq", VL [VD [(KeyS "ar", VZ 1)]; VD [(KeyS "ar", VZ 2)]])])])]
  = DInst [("x", Some (RMap [(KeyS "ar", RObj [("q", Some (RList [RObj [("r", Some (RZ 1))]; RObj [("r", Some (RZ 2))]]))])]))]
  /\ deep_impl 10 [n2; n1; k] 2 [(KeyS "x", VD [(KeyS "m", VD [(KeyS "aq", VL [VD [(KeyS "ar", VZ 1); (KeyS "junk", VZ 0)]])])])]
  = DInvalid "x".
Proof. split; vm_compute; reflexivity. Qed.

(* ---- __pre_deserialize__ on nested classes: each class's hook rewrites the mapping handed to that class, at any
   depth and inside containers, before that class's key rules and extra-key check ---- *)
Theorem C09_deep_hooks : forall fuel tb hs k d, deeph_impl fuel tb hs k d = deeph_ref fuel tb hs k d.
Proof. exact deeph_impl_eq_ref. Qed.
Print Assumptions C09_deep_hooks.

Theorem C09_deep_no_hooks : forall rd ex fuel tb k d, deeph rd ex fuel tb [] k d = deep rd ex fuel tb k d.
Proof. exact deeph_no_hooks. Qed.
Print Assumptions C09_deep_no_hooks.

Theorem C09_inner_hook : forall rd ex fu tb hs i nc d,
  nth_error tb i = Some nc ->
  dech rd ex (S fu) tb hs (TCls i) (VD d)
  = match obj rd ex (dech rd ex fu tb hs) nc (tapply_hook (hook_of hs i) d) with
    | DInst vs => Some (RObj vs) | _ => None end.
Proof. exact inner_hook_applies. Qed.
Print Assumptions C09_inner_hook.

(* N: r alias "ar", forbid_extra_keys, hook renames "legacy" to "ar".  K: x: List[N]; K's own hook drops "junk".
   Inside the list "legacy" is accepted (N's hook), at the top it is not K's business; K's hook does not reach
   the elements: "junk" inside an element is an extra key of N and invalidates x *)
Example C09_nonvacuous_deep_hooks :
  let n := mkN (mkC [mkF "r" (Some "ar") None false] [] false true None) [] in
  let k := mkN (mkC [mkF "x" None None false] [] false true None) [("x", TList (TCls 0))] in
  let hs := [Some [HRename (KeyS "legacy") (KeyS "ar")]; Some [HDrop (KeyS "junk")]] in
  deeph_ref 10 [n; k] hs 1 [(KeyS "x", VL [VD [(KeyS "legacy", VZ 1)]; VD [(KeyS "ar", VZ 2)]]); (KeyS "junk", VZ 0)]
  = DInst [("x", Some (RList [RObj [("r", Some (RZ 1))]; RObj [("r", Some (RZ 2))]]))]
  /\ deeph_impl 10 [n; k] hs 1 [(KeyS "x", VL [VD [(KeyS "ar", VZ 1); (KeyS "junk", VZ 0)]])] = DInvalid "x"
  /\ deeph_ref 10 [n; k] [None; None] 1 [(KeyS "x", VL [VD [(KeyS "legacy", VZ 1)]])] = DInvalid "x".
Proof. repeat split; vm_compute; reflexivity. Qed.

(* ---- which class-level discriminator: CodeBuilder.get_discriminator translated (K109a), run on the class objects
   of a hierarchy (MRO nearest class first; every class with the Config its body defines, every Config with the
   Config it derives from / BaseConfig / nothing and the `discriminator` line it writes) ---- *)

(* get_discriminator(look_in_parents=True) = the discriminator of the first class along the MRO whose OWN Config has
   one by Python's attribute lookup on that Config class; this is the object whose field the allowed keys get *)
Theorem C09_get_discriminator : forall r,
  get_discriminator (cls_obj_d r) base_config_d (KBool true) = Ok (enc_discr (nearest_discr r)).
Proof. exact get_discriminator_parents. Qed.
Print Assumptions C09_get_discriminator.

(* get_discriminator() = that of the class's own Config: the test that turns from_dict into a dispatcher *)
Theorem C09_own_discriminator : forall r,
  get_discriminator (cls_obj_d r) base_config_d (KBool false) = Ok (enc_discr (own_discr r)).
Proof. exact get_discriminator_own. Qed.
Print Assumptions C09_own_discriminator.

(* the generated from_dict of the class a hierarchy denotes -- dispatcher test, get_config, get_discriminator for
   the allowed keys, __get_field_alias, the emitted lookups: all translated -- is KEYMODEL of that class with the
   nearest class-level discriminator, for every hierarchy and every input (a dispatcher reads no field: C05) *)
Theorem C09_keys_discr : forall r d,
  impl_from_dhier r d
  = Ok (match own_discr r with
        | Some _ => Dispatcher
        | None => Body (keymodel (class_of (rev (map fst r)) (nearest_discr r)) d)
        end).
Proof. exact impl_from_dhier_keymodel. Qed.
Print Assumptions C09_keys_discr.

(* "a class-level discriminator field is accepted": the tag key of the nearest discriminator is in the accepted
   set whatever fields, aliases and options the class has *)
Theorem C09_discr_accepted : forall r s,
  nearest_discr r = Some (Some s) -> s <> "" ->
  In (KeyS s) (accepted (class_of (rev (map fst r)) (nearest_discr r))).
Proof. exact nearest_discr_accepted. Qed.
Print Assumptions C09_discr_accepted.

(* a Config deriving from a Config that has a discriminator hands it on: its class is a dispatcher as well;
   a class without Config of its own never is one *)
Theorem C09_discr_config_inheritance : forall l cd w r',
  (l_cfg l = Some cd -> cd_inherit cd = true -> own_discr ((l, DAbsent) :: r') = cfg_discr r')
  /\ (l_cfg l = None -> own_discr ((l, w) :: r') = None).
Proof.
  intros l cd w r'. split; [exact (inherited_config_dispatches l cd r') | exact (no_own_config_no_dispatch l w r')].
Qed.
Print Assumptions C09_discr_config_inheritance.

(* A: Config(discriminator on "t").  B(A): plain Config writing discriminator on "u".  K(B): own Config
   (forbid_extra_keys, aliases x -> ax), no discriminator line.  K.from_dict accepts "u" (B is nearer than A), not "t";
   with B's line removed it accepts "t"; a K whose Config derives from B's is a dispatcher. *)
Example C09_nonvacuous_discr :
  let cfgA := Some (mkCD false false None None None) in
  let cfgB := Some (mkCD false true None None None) in
  let cfgK := Some (mkCD false false (Some [("x", "ax")]) None (Some true)) in
  let a := (mkL [] cfgA, DObj (Some "t")) in
  let b w := (mkL [] cfgB, w) in
  let k := (mkL [(mkF "x" None None false, true)] cfgK, DAbsent) in
  let d := [(KeyS "ax", 1%Z); (KeyS "t", 2%Z); (KeyS "u", 3%Z)] in
  impl_from_dhier [k; b (DObj (Some "u")); a] d = Ok (Body (OExtra [KeyS "t"]))
  /\ impl_from_dhier [k; b DAbsent; a] d = Ok (Body (OExtra [KeyS "u"]))
  /\ impl_from_dhier [k; b DNone; a] [(KeyS "ax", 1%Z); (KeyS "t", 2%Z)] = Ok (Body (OInst [("x", Some (KeyS "ax", 1%Z))]))
  /\ impl_from_dhier [(mkL [] (Some (mkCD true false None None None)), DAbsent); b (DObj None); a] d = Ok Dispatcher
  /\ get_discriminator (cls_obj_d [k; b (DObj (Some "u")); a]) base_config_d (KBool true)
     = Ok (KNs [("__class__", KStr "Discriminator"); ("field", KStr "u")]).
Proof. repeat split; vm_compute; reflexivity. Qed.

(* ---- which __pre_deserialize__: CodeBuilder.get_declared_hook + helpers.get_class_that_defines_method translated
   (K109b), run on the class objects of a hierarchy (dataclasses of the MRO nearest first, then DataClassDictMixin with
   its stub if the mixins are used, then object) ---- *)

(* the hook of the nearest class whose body defines one; the mixin's own stub is not a hook *)
Theorem C09_declared_hook : forall hs mixin,
  get_declared_hook (cls_obj_h hs mixin) A_PRE = Ok (enc_hook (declared_idx hs))
  /\ dec_hook hs (enc_hook (declared_idx hs)) = declared_hook hs.
Proof. intros hs mixin. split; [apply get_declared_hook_spec | apply dec_enc_hook]. Qed.
Print Assumptions C09_declared_hook.

(* the generated from_dict with the hook found by the translated lookup: KEYMODEL on the mapping rewritten by the
   nearest hook (= C09_pre_hook with KeyRewrite.nearest_hook replaced by the code) *)
Theorem C09_pre_hook_code : forall hooks mixin ls discr d,
  impl_hooked_code hooks mixin ls discr d
  = Ok (keymodel (class_of ls discr) (apply_hook (declared_hook (rev hooks)) d))
  /\ nearest_hook hooks = declared_hook (rev hooks).
Proof. intros. split; [apply impl_hooked_code_keymodel | apply nearest_hook_declared]. Qed.
Print Assumptions C09_pre_hook_code.

(* A defines a hook (drop "junk"), B(A) another (rename "legacy" -> "ax"), K(B) none: K runs B's; without B's, A's;
   with the mixins and no hook anywhere the stub of DataClassDictMixin is found and ignored *)
Example C09_nonvacuous_hook_lookup :
  let ha := Some [HDrop (KeyS "junk")] in
  let hb := Some [HRename (KeyS "legacy") (KeyS "ax")] in
  let ls := [mkL [(mkF "x" (Some "ax") None false, true)] (Some (mkCD false false None None (Some true)))] in
  get_declared_hook (cls_obj_h [None; hb; ha] true) A_PRE = Ok (hook_val 1)
  /\ get_declared_hook (cls_obj_h [None; None; ha] true) A_PRE = Ok (hook_val 0)
  /\ get_declared_hook (cls_obj_h [None; None] true) A_PRE = Ok KNone
  /\ get_class_that_defines_method A_PRE (cls_obj_h [None; None] true) = Ok (class_of_entry mixin_entry)
  /\ impl_hooked_code [ha; hb; None] true ls None [(KeyS "legacy", 1%Z)] = Ok (OInst [("x", Some (KeyS "ax", 1%Z))])
  /\ impl_hooked_code [ha; None; None] false ls None [(KeyS "legacy", 1%Z)] = Ok (OExtra [KeyS "legacy"]).
Proof. repeat split; vm_compute; reflexivity. Qed.

(* ---- all decisions of _add_unpack_method_lines in the order the code takes them, each through a translated
   function (own discriminator -> dispatcher; declared hook; get_config; __get_field_alias; discriminator of the
   MRO + allowed_keys; key_plan): KEYMODEL of the class the hierarchy denotes, on the mapping the nearest hook
   returns, the nearest class-level discriminator accepted -- for every hierarchy, hook assignment and input ---- *)
Theorem C09_from_class : forall r hooks mixin d,
  impl_from_class r hooks mixin d
  = Ok (match own_discr r with
        | Some _ => Dispatcher
        | None => Body (keymodel (class_of (rev (map fst r)) (nearest_discr r))
                                 (apply_hook (declared_hook (rev hooks)) d))
        end).
Proof. exact impl_from_class_keymodel. Qed.
Print Assumptions C09_from_class.

(* A: Config(discriminator on "t"), hook renames "legacy" -> "ax".  K(A): Config(forbid_extra_keys, aliases x -> ax).
   K.from_dict({"legacy": 1, "t": 2}) reads x from the renamed key and accepts A's tag key; "u" is extra;
   A itself is a dispatcher (its hook is not even consulted) *)
Example C09_nonvacuous_from_class :
  let a := (mkL [] (Some (mkCD false false None None None)), DObj (Some "t")) in
  let k := (mkL [(mkF "x" None None false, true)] (Some (mkCD false false (Some [("x", "ax")]) None (Some true))), DAbsent) in
  let hooks := [Some [HRename (KeyS "legacy") (KeyS "ax")]; None] in
  impl_from_class [k; a] hooks true [(KeyS "legacy", 1%Z); (KeyS "t", 2%Z)] = Ok (Body (OInst [("x", Some (KeyS "ax", 1%Z))]))
  /\ impl_from_class [k; a] hooks true [(KeyS "legacy", 1%Z); (KeyS "u", 2%Z)] = Ok (Body (OExtra [KeyS "u"]))
  /\ impl_from_class [k; a] [None; None] true [(KeyS "legacy", 1%Z); (KeyS "t", 2%Z)] = Ok (Body (OExtra [KeyS "legacy"]))
  /\ impl_from_class [a] [Some [HDrop (KeyS "t")]] true [(KeyS "t", 2%Z)] = Ok Dispatcher.
Proof. repeat split; vm_compute; reflexivity. Qed.

(* ---- which members are read at all: the skip test of the field loop of _add_unpack_method_lines translated (K109c) ----
   over the declarations a hierarchy collects the loop leaves exactly the init fields in definition order
   (KeyModel.effective, until now a hand-written `filter snd`); a name without dataclass field is read *)
Theorem C09_init_filter : forall ls,
  filtered_code (collect ls) = Ok (effective ls) /\ reads None = Ok true /\ forall p, reads (Some p) = Ok (snd p).
Proof. intro ls. split; [apply filtered_code_effective | split; [exact reads_none | exact reads_some]]. Qed.
Print Assumptions C09_init_filter.

(* C09_from_class with the fields chosen by the translated loop test as well *)
Theorem C09_from_class_fields : forall r hooks mixin d,
  impl_from_class_fields r hooks mixin d
  = Ok (match own_discr r with
        | Some _ => Dispatcher
        | None => Body (keymodel (class_of (rev (map fst r)) (nearest_discr r))
                                 (apply_hook (declared_hook (rev hooks)) d))
        end).
Proof. exact impl_from_class_fields_keymodel. Qed.
Print Assumptions C09_from_class_fields.

(* A: x, w; K(A) re-declares w as field(init=False): K.from_dict reads x only, "w" is an extra key *)
Example C09_nonvacuous_init_filter :
  let a := (mkL [(mkF "x" None None false, true); (mkF "w" None None true, true)] None, DAbsent) in
  let k := (mkL [(mkF "w" None None true, false)] (Some (mkCD false false None None (Some true))), DAbsent) in
  filtered_code (collect [fst a; fst k]) = Ok [mkF "x" None None false]
  /\ impl_from_class_fields [k; a] [None; None] true [(KeyS "x", 1%Z); (KeyS "w", 2%Z)] = Ok (Body (OExtra [KeyS "w"]))
  /\ impl_from_class_fields [a] [None] true [(KeyS "x", 1%Z); (KeyS "w", 2%Z)]
     = Ok (Body (OInst [("x", Some (KeyS "x", 1%Z)); ("w", Some (KeyS "w", 2%Z))])).
Proof. repeat split; vm_compute; reflexivity. Qed.

(* ---- arbitrary MROs (diamonds): a model of CPython's dataclass walk and of get_type_hints ---- *)

(* the declaration a class has for a name: its own, else that of the first class of its MRO whose cumulative
   __dataclass_fields__ has the name *)
Theorem C09_dc_lookup : forall cums own n,
  lookup_decl n (dc_process cums own)
  = match lookup_decl n (rev own) with Some p => Some p | None => first_in cums n end.
Proof. exact dc_process_lookup. Qed.
Print Assumptions C09_dc_lookup.

(* for single inheritance and for unrelated bases the walk selects the declarations of KeyModel.collect *)
Theorem C09_dc_chain : forall ls l n,
  lookup_decl n (dc_process (chain_cums (rev ls)) (l_decls l)) = lookup_decl n (collect (ls ++ [l])).
Proof. exact dc_chain_collect. Qed.
Print Assumptions C09_dc_chain.

Theorem C09_dc_roots : forall ls l n,
  lookup_decl n (dc_process (roots_cums (rev ls)) (l_decls l)) = lookup_decl n (collect (ls ++ [l])).
Proof. exact dc_roots_collect. Qed.
Print Assumptions C09_dc_roots.

(* the translated CodeBuilder.dataclass_fields (K5) on an arbitrary MRO: the alias data of every name is that of
   the declaration the walk selects *)
Theorem C09_dataclass_fields_dc :
  forall (mdf: fld -> kv), (forall f, k_dict_get (mdf f) (KStr "alias") = Ok (enc_ostr (f_meta f))) ->
  forall (cums: list decls) (own: decls) (extra: list pyclass) (c0: pyclass) nsd ownf,
  Forall nodup_names cums -> Forall fieldless extra ->
  sd_get nsd "__dataclass_fields__" = None -> ~ In "__dataclass_fields__" (map dname own) ->
  (forall n f i, lookup_decl n (rev own) = Some (f, i) ->
     alias_md (own_result nsd ownf n) = Ok (enc_ostr (f_meta f))) ->
  exists d,
    dataclass_fields (KTuple (enc_class c0 :: map enc_class (map (fun c => Some (cum mdf c)) cums ++ extra)))
                     (KList (map KStr (map dname own))) (enc_namespace nsd ownf)
    = Ok (KDict (enc_sd d))
    /\ forall n, alias_md (sd_get d n) = Ok (enc_ostr (decl_alias (dc_process cums own) n)).
Proof. exact dataclass_fields_dc. Qed.
Print Assumptions C09_dataclass_fields_dc.

(* diamond K(B, C), B(A), C(A): A.x plain; C re-declares x with metadata alias "cx" and Annotated Alias "cann".
   K's Field for x is A's (through B: no metadata alias), K's type for x is C's: x is read from "cann" *)
Example C09_nonvacuous_diamond :
  let a := mkPC [(mkF "x" None None true, true)] [] in
  let b := mkPC [(mkF "y" None None true, true)] [0%nat] in
  let c := mkPC [(mkF "x" (Some "cx") (Some [AAlias "cann"]) true, true)] [0%nat] in
  let k := mkPC [] [1%nat; 2%nat; 0%nat] in
  let cl := dc_class [a; b; c; k] 3 default_cfg None in
  map (alias_of cl) (c_fields cl) = [Some "cann"; None]
  /\ keymodel cl [(KeyS "cx", 1%Z); (KeyS "cann", 2%Z); (KeyS "x", 3%Z)] = OInst [("x", Some (KeyS "cann", 2%Z)); ("y", None)].
Proof. split; vm_compute; reflexivity. Qed.

(* ---- __pre_deserialize__: the keys are resolved, and the extra keys found, on the mapping the hook of the
   nearest class returns ---- *)
Theorem C09_pre_hook : forall hooks ls discr d,
  impl_hooked hooks ls discr d = Ok (keymodel (class_of ls discr) (apply_hook (nearest_hook hooks) d)).
Proof. exact impl_hooked_keymodel. Qed.
Print Assumptions C09_pre_hook.

Theorem C09_nearest_hook : forall hooks h,
  nearest_hook (hooks ++ [h]) = match h with Some _ => h | None => nearest_hook hooks end.
Proof. exact nearest_hook_app. Qed.
Print Assumptions C09_nearest_hook.

Theorem C09_hook_rename : forall d a b v n,
  dget d a = Some v -> key_eqb a b = false ->
  dget (apply_op d (HRename a b)) n = if key_eqb b n then Some v else if key_eqb a n then None else dget d n.
Proof. exact rename_then_read. Qed.
Print Assumptions C09_hook_rename.

(* x has alias "ax", forbid_extra_keys; the hook renames the legacy key "old" to "ax" and drops "junk":
   {"old": 1, "junk": 2} is accepted and x = 1; without the hook both keys are extra *)
Example C09_nonvacuous_hook :
  let ls := [mkL [(mkF "x" (Some "ax") None false, true)] (Some (mkCD false false None None (Some true)))] in
  let h := Some [HRename (KeyS "old") (KeyS "ax"); HDrop (KeyS "junk")] in
  impl_hooked [h] ls None [(KeyS "old", 1%Z); (KeyS "junk", 2%Z)] = Ok (OInst [("x", Some (KeyS "ax", 1%Z))])
  /\ impl_hooked [None] ls None [(KeyS "old", 1%Z); (KeyS "junk", 2%Z)] = Ok (OExtra [KeyS "old"; KeyS "junk"]).
Proof. split; vm_compute; reflexivity. Qed.

(* ---- dataclass-typed fields: the value found under the outer key is decoded by the inner class with the
   inner class's own aliases and options; failures inside surface as InvalidFieldValue of the outer field ---- *)
Theorem C09_nested : forall c nt tbl d, nimpl c nt tbl d = nkeymodel c nt tbl d.
Proof. exact nimpl_eq_nkeymodel. Qed.
Print Assumptions C09_nested.

Theorem C09_nested_inner_options : forall c nt tbl d f k v inner dn,
  c_fields c = [f] -> extra_keys c d = [] ->
  field_read c d f = Some (k, v) -> cls_of nt (f_name f) = Some inner -> inner_of tbl v = Some dn ->
  nkeymodel c nt tbl d
  = match keymodel inner dn with
    | OInst vs => NInst [(f_name f, Some (RInner vs))]
    | _ => NInvalid (f_name f)
    end.
Proof. exact nested_uses_inner_options. Qed.
Print Assumptions C09_nested_inner_options.

(* outer: forbid_extra_keys, n: N read from alias "nn"; inner N: allow_deserialization_not_by_alias, x alias "ix".
   The inner mapping may use the name x (inner allow) although the outer class does not allow names; an extra key
   inside is ignored (inner forbid is off) although the outer class forbids extras; an extra key outside is reported *)
Example C09_nonvacuous_nested :
  let inner := mkC [mkF "x" (Some "ix") None false] [] true false None in
  let outer := mkC [mkF "n" (Some "nn") None false] [] false true None in
  nkeymodel outer [("n", inner)] [[(KeyS "x", 5%Z); (KeyS "junk", 6%Z)]] [(KeyS "nn", 1000%Z)]
    = NInst [("n", Some (RInner [("x", Some (KeyS "x", 5%Z))]))]
  /\ nimpl outer [("n", inner)] [[(KeyS "x", 5%Z); (KeyS "junk", 6%Z)]] [(KeyS "nn", 1000%Z)]
    = NInst [("n", Some (RInner [("x", Some (KeyS "x", 5%Z))]))]
  /\ nkeymodel outer [("n", inner)] [[(KeyS "x", 5%Z)]] [(KeyS "n", 1000%Z)] = NExtra [KeyS "n"]
  /\ nkeymodel outer [("n", inner)] [[(KeyS "y", 5%Z)]] [(KeyS "nn", 1000%Z)] = NInvalid "n"
  /\ nkeymodel outer [("n", inner)] [] [(KeyS "nn", 7%Z)] = NInvalid "n".
Proof. repeat split; vm_compute; reflexivity. Qed.

(* ---- non-vacuity: a class with all three sources, a shadowed alias (x's alias is the name of y),
        two Alias annotations, a discriminator; it exercises every rule ---- *)
Definition ex_c (allow forbid: bool) : cls :=
  mkC [mkF "x" None (Some [AAlias "a"; AOther; AAlias "y"]) false;
       mkF "y" (Some "m") (Some [AAlias "n"]) false;
       mkF "z" None None true]
      [("y", "c"); ("z", "cz")] allow forbid (Some (Some "kind")).

(* the empty string is an alias like any other *)
Example C09_nonvacuous_empty_alias :
  impl_from_dict w_empty w_empty_d = Ok (OInst [("x", Some (KeyS "", 1%Z))])
  /\ keymodel w_empty w_empty_d = OInst [("x", Some (KeyS "", 1%Z))]
  /\ impl_from_dict (mkC [mkF "x" (Some "") None false] [] true true None) [(KeyS "", 1%Z)]
     = Ok (OInst [("x", Some (KeyS "", 1%Z))]).
Proof. exact empty_alias_is_an_alias. Qed.

Example C09_nonvacuous_aliases :
  map (alias_of (ex_c true true)) (c_fields (ex_c true true)) = [Some "y"; Some "m"; Some "cz"].
Proof. reflexivity. Qed.

(* the alias wins over the name; y (alias m absent) falls back to its name, which is also x's alias *)
Example C09_nonvacuous_reads :
  keymodel (ex_c true true) [(KeyS "x", 1%Z); (KeyS "y", 2%Z); (KeyS "kind", 3%Z); (KeyS "z", 4%Z); (KeyS "cz", 5%Z)]
  = OInst [("x", Some (KeyS "y", 2%Z)); ("y", Some (KeyS "y", 2%Z)); ("z", Some (KeyS "cz", 5%Z))]
  /\ impl_from_dict (ex_c true true) [(KeyS "x", 1%Z); (KeyS "y", 2%Z); (KeyS "kind", 3%Z); (KeyS "z", 4%Z); (KeyS "cz", 5%Z)]
     = Ok (OInst [("x", Some (KeyS "y", 2%Z)); ("y", Some (KeyS "y", 2%Z)); ("z", Some (KeyS "cz", 5%Z))]).
Proof. split; vm_compute; reflexivity. Qed.

Example C09_nonvacuous_extra :
  keymodel (ex_c false true) [(KeyS "x", 1%Z); (KeyS "y", 2%Z); (KeyNone, 3%Z); (KeyS "kind", 4%Z); (KeyS "None", 5%Z)]
  = OExtra [KeyS "x"; KeyNone; KeyS "None"]
  /\ keymodel (ex_c false false) [(KeyS "x", 1%Z); (KeyS "y", 2%Z)] = OMissing "y".
Proof. split; vm_compute; reflexivity. Qed.
