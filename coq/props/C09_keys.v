(* C09 -- placeholder while the harness is brought up *)
From Coq Require Import List String.
From Verif Require Import KeyModel.
