(* C13 - Dialect.merge over kernels K2, K3, K13 translated from /repo on this run. *)
From Coq Require Import List String ZArith Bool.
From Verif Require Import PyK DialectMerge.
From VerifGen Require Import K2 K3 K13.
Import ListNotations.
Open Scope string_scope.
Open Scope nat_scope.

(* ---- merge: over K2 as translated on this run ---- *)
Theorem C13_merge_total :
  forall a b n key,
    has_keys merge_loop_keys a -> has_keys merge_loop_keys b -> In key five_options ->
    exists r, merge_options (KNs a) (KNs b) (KNs n) = Ok (KNs r)
      /\ option_of r key = if is_set (option_of b key) then option_of b key else option_of a key.
Proof. exact merge_total_five. Qed.
Print Assumptions C13_merge_total.

(* every attribute bound by class Dialect (K13), except the strategy map, is merged *)
Theorem C13_merge_covers_all_options :
  forall x, In x dialect_attrs -> x = "serialization_strategy" \/ In x merge_loop_keys.
Proof. exact all_dialect_attrs_merged. Qed.
Print Assumptions C13_merge_covers_all_options.

Theorem C13_merge_strategies :
  forall c o k dir,
    NoDup (map fst c) -> NoDup (map fst o) ->
    (forall e, sm_get o k = Some (SDict e) -> NoDup (map fst e)) ->
    effective (sm_get (merge_strategies c o) k) dir = strategy_spec (sm_get c k) (sm_get o k) dir.
Proof. exact merge_strategies_effective. Qed.
Print Assumptions C13_merge_strategies.

(* ---- codecs: an option that D sets resolves identically whatever the format dialect ---- *)
Theorem C13_codec_option_uniform :
  forall fmt dl n cd cfg key dflt,
    has_keys merge_loop_keys fmt -> has_keys merge_loop_keys dl -> In key five_options ->
    is_set (option_of dl key) = true ->
    exists r, merge_options (KNs fmt) (KNs dl) (KNs n) = Ok (KNs r) /\
      get_dialect_or_config_option KNone cd cfg (KNs r) (KStr key) dflt =
      get_dialect_or_config_option KNone cd cfg (KNs dl) (KStr key) dflt.
Proof. exact codec_option_uniform. Qed.
Print Assumptions C13_codec_option_uniform.

(* has_keys holds for real dialect namespaces (every attribute of class Dialect is inherited);
   merge picks the user's value where set, the format's otherwise.  Stated per key and over
   whatever key tuple the source has on this run. *)
Example C13_merge_nonvacuous :
  let fmt := ns_set (ns_set blank_dialect "omit_none" (KBool true)) "no_copy_collections" (KTuple [KObj 1; KObj 2]) in
  let usr := ns_set (ns_set blank_dialect "serialize_by_alias" (KBool true)) "omit_default" (KBool false) in
  has_keys merge_loop_keys fmt /\ has_keys merge_loop_keys usr /\
  exists r, merge_options (KNs fmt) (KNs usr) (KNs []) = Ok (KNs r) /\
    option_of r "serialize_by_alias" = KBool true /\ option_of r "namedtuple_as_dict" = KMissing /\
    option_of r "omit_none" = KBool true /\ option_of r "omit_default" = KBool false /\
    option_of r "no_copy_collections" = KTuple [KObj 1; KObj 2].
Proof.
  cbv zeta. split; [apply has_keys_dec; vm_compute; reflexivity|].
  split; [apply has_keys_dec; vm_compute; reflexivity|].
  eexists. split; [vm_compute; reflexivity|]. vm_compute. repeat split.
Qed.

