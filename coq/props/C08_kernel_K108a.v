(* C08 - kernel K108a = CodeBuilder._pack_method_set_value / __pack_method_set_value translated from /repo on this
   run (anchor: per-key emission with omit_default comparison and by_alias branch): the statements they emit for a
   field, read by OptEmit.run_lines, mean what the model of the generated body (OptProj.guard / key_kw / emit_kw) says. *)
From Coq Require Import List String ZArith Bool.
From Verif Require Import PyK PyK_c08 OptProj OptEmit OptEmitField.
From VerifGen Require Import K108a.
Import ListNotations.
Open Scope string_scope.

(* for every static context (options read by the builder, keyword features, run-time by_alias), every field plan
   (name, alias, default: none / value / factory / NaN) and every raw and packed value: the emitters succeed and
   running what they emitted stores exactly [(key_kw c p, v)] iff the omit_default guard of the model lets it *)
Theorem K108a_set_value : forall (c: sctx) (p: fplan) (raw v: pv),
  exists l, emitted c p = Ok l /\
            run_lines 4 l (env_of c p raw v) = guarded (guard c.(s_od) p raw) [(key_kw c p, v)].
Proof. exact K108a_set_value_lemma. Qed.
Print Assumptions K108a_set_value.

(* the model's per-key emission of a field that is not nullable is the meaning of the emitted code *)
Theorem K108a_emit_kw : forall (c: sctx) (p: fplan) (raw pk: pv), nullable p = false ->
  exists l, emitted c p = Ok l /\
            run_lines 4 l (env_of c p raw (pval p (raw, pk))) = emit_kw c (p, (raw, pk)).
Proof. exact K108a_emit_kw_lemma. Qed.
Print Assumptions K108a_emit_kw.

(* the per-field body of the `kwargs = {}` loop of _add_pack_method_lines (anchor: builder.py 891-985), translated: for
   EVERY static context, every field plan (nullable or not, trivial packer or not, any default) and both values of
   force_value, what the loop body emits for the field means exactly the model's emit_kw -- the `if value is not None:` /
   `else:` / `if not omit_none:` shapes of a nullable field included *)
Theorem K108a_field : forall (c: sctx) (p: fplan) (raw pk: pv) (force_value: bool),
  exists l, field_emitted c p force_value = Ok l /\
            run_lines 8 l (env_of c p raw (pval p (raw, pk))) = emit_kw c (p, (raw, pk)).
Proof. exact K108a_field_lemma. Qed.
Print Assumptions K108a_field.

(* non-vacuity: Optional[date] field (non-trivial packer), omit_none keyword feature: None is stored iff omit_none=False
   at run time; a value is stored packed *)
Definition ex_ctx2 (ron: bool) : sctx :=
  {| s_on := false; s_od := false; s_ba := false; s_fon := true; s_fba := false; r_on := ron; r_ba := false |}.
Definition ex_opt : fplan :=
  {| p_name := "d"; p_alias := None; p_ty := TyOptional; p_trivial := false; p_default := DNo; p_omit := false |}.
Example K108a_field_example :
  forall l, field_emitted (ex_ctx2 true) ex_opt false = Ok l ->
    run_lines 8 l (env_of (ex_ctx2 true) ex_opt PNone PNone) = Some [] /\
    run_lines 8 l (env_of (ex_ctx2 false) ex_opt PNone PNone) = Some [("d", PNone)] /\
    run_lines 8 l (env_of (ex_ctx2 true) ex_opt (POpq 1) (PStr "2020-01-01")) = Some [("d", PStr "2020-01-01")].
Proof. intros l' H'; vm_compute in H'; injection H' as <-; repeat split; reflexivity. Qed.

(* non-vacuity: by_alias feature with by_alias=True at run time stores under the alias; omit_default with the value
   equal to the default stores nothing, with another value it stores under the name; a NaN default is matched by NaN only *)
Definition ex_ctx (od ba fba rba: bool) : sctx :=
  {| s_on := false; s_od := od; s_ba := ba; s_fon := false; s_fba := fba; r_on := false; r_ba := rba |}.
Definition ex_plan (al: option string) (d: dflt) : fplan :=
  {| p_name := "b"; p_alias := al; p_ty := TyPlain; p_trivial := true; p_default := d; p_omit := false |}.
Example K108a_example :
  (forall l, emitted (ex_ctx false false true true) (ex_plan (Some "bb") DNo) = Ok l ->
     run_lines 4 l (env_of (ex_ctx false false true true) (ex_plan (Some "bb") DNo) (PInt 1) (PInt 1)) = Some [("bb", PInt 1)]) /\
  (forall l, emitted (ex_ctx false false true false) (ex_plan (Some "bb") DNo) = Ok l ->
     run_lines 4 l (env_of (ex_ctx false false true false) (ex_plan (Some "bb") DNo) (PInt 1) (PInt 1)) = Some [("b", PInt 1)]) /\
  (forall l, emitted (ex_ctx true true false false) (ex_plan (Some "bb") (DVal (PInt 1))) = Ok l ->
     run_lines 4 l (env_of (ex_ctx true true false false) (ex_plan (Some "bb") (DVal (PInt 1))) (PBool true) (PBool true)) = Some [] /\
     run_lines 4 l (env_of (ex_ctx true true false false) (ex_plan (Some "bb") (DVal (PInt 1))) (PInt 2) (PInt 2)) = Some [("bb", PInt 2)]) /\
  (forall l, emitted (ex_ctx true false false false) (ex_plan None (DFac PNaN)) = Ok l ->
     run_lines 4 l (env_of (ex_ctx true false false false) (ex_plan None (DFac PNaN)) PNaN PNaN) = Some [] /\
     run_lines 4 l (env_of (ex_ctx true false false false) (ex_plan None (DFac PNaN)) (PStr "x") (PStr "x")) = Some [("b", PStr "x")]).
Proof.
  split; [|split; [|split]].
  all: intros l' H'; vm_compute in H'; injection H' as <-; try split; reflexivity.
Qed.
