(* C08 - kernel K108a = CodeBuilder._pack_method_set_value / __pack_method_set_value translated from /repo on this
   run (anchor: per-key emission with omit_default comparison and by_alias branch): the statements they emit for a
   field, read by OptEmit.run_lines, mean what the model of the generated body (OptProj.guard / key_kw / emit_kw) says. *)
From Coq Require Import List String ZArith Bool.
From Verif Require Import PyK PyK_c08 OptProj OptEmit.
From VerifGen Require Import K108a.
Import ListNotations.
Open Scope string_scope.

(* for every static context (options read by the builder, keyword features, run-time by_alias), every field plan
   (name, alias, default: none / value / factory / NaN) and every raw and packed value: the emitters succeed and
   running what they emitted stores exactly [(key_kw c p, v)] iff the omit_default guard of the model lets it *)
Theorem K108a_set_value : forall (c: sctx) (p: fplan) (raw v: pv),
  exists l, emitted c p = Ok l /\
            run_lines 4 l (env_of c p raw v) = guarded (guard c.(s_od) p raw) [(key_kw c p, v)].
Proof. exact K108a_set_value_lemma. Qed.
Print Assumptions K108a_set_value.

(* the model's per-key emission of a field that is not nullable is the meaning of the emitted code *)
Theorem K108a_emit_kw : forall (c: sctx) (p: fplan) (raw pk: pv), nullable p = false ->
  exists l, emitted c p = Ok l /\
            run_lines 4 l (env_of c p raw (pval p (raw, pk))) = emit_kw c (p, (raw, pk)).
Proof. exact K108a_emit_kw_lemma. Qed.
Print Assumptions K108a_emit_kw.

(* non-vacuity: by_alias feature with by_alias=True at run time stores under the alias; omit_default with the value
   equal to the default stores nothing, with another value it stores under the name; a NaN default is matched by NaN only *)
Definition ex_ctx (od ba fba rba: bool) : sctx :=
  {| s_on := false; s_od := od; s_ba := ba; s_fon := false; s_fba := fba; r_on := false; r_ba := rba |}.
Definition ex_plan (al: option string) (d: dflt) : fplan :=
  {| p_name := "b"; p_alias := al; p_ty := TyPlain; p_trivial := true; p_default := d; p_omit := false |}.
Example K108a_example :
  (forall l, emitted (ex_ctx false false true true) (ex_plan (Some "bb") DNo) = Ok l ->
     run_lines 4 l (env_of (ex_ctx false false true true) (ex_plan (Some "bb") DNo) (PInt 1) (PInt 1)) = Some [("bb", PInt 1)]) /\
  (forall l, emitted (ex_ctx false false true false) (ex_plan (Some "bb") DNo) = Ok l ->
     run_lines 4 l (env_of (ex_ctx false false true false) (ex_plan (Some "bb") DNo) (PInt 1) (PInt 1)) = Some [("b", PInt 1)]) /\
  (forall l, emitted (ex_ctx true true false false) (ex_plan (Some "bb") (DVal (PInt 1))) = Ok l ->
     run_lines 4 l (env_of (ex_ctx true true false false) (ex_plan (Some "bb") (DVal (PInt 1))) (PBool true) (PBool true)) = Some [] /\
     run_lines 4 l (env_of (ex_ctx true true false false) (ex_plan (Some "bb") (DVal (PInt 1))) (PInt 2) (PInt 2)) = Some [("bb", PInt 2)]) /\
  (forall l, emitted (ex_ctx true false false false) (ex_plan None (DFac PNaN)) = Ok l ->
     run_lines 4 l (env_of (ex_ctx true false false false) (ex_plan None (DFac PNaN)) PNaN PNaN) = Some [] /\
     run_lines 4 l (env_of (ex_ctx true false false false) (ex_plan None (DFac PNaN)) (PStr "x") (PStr "x")) = Some [("b", PStr "x")]).
Proof.
  split; [|split; [|split]].
  all: intros l' H'; vm_compute in H'; injection H' as <-; try split; reflexivity.
Qed.
