(* C04 (anchor "encoder kwargs such as orjson_options resolved from Config"): which value of the encoder keyword
   reaches the format library from the generated to_<format> method, over the decisions of the generator as read
   from mashumaro/core/meta/code/builder.py on this run (VerifGen.K104b) and the mixins' builder params (K104a). *)
From Coq Require Import ZArith Bool List String.
From Verif Require Import Fmt FmtDialectSource FmtEntries EncKwargs EncKwargsProofs.
From VerifGen Require Import K104a K104b.
Import ListNotations.

(* without `dialect=`: call-time argument, else the Config value, reaches the encoder whenever it has keywords *)
Theorem C04_encoder_kwargs_reach_encoder : forall he hk config call,
  kw_used ret_plain he hk config call = kw_expected he hk config call.
Proof. exact kwargs_plain_path. Qed.
Print Assumptions C04_encoder_kwargs_reach_encoder.

(* the same with `dialect=` (full strength; refuted before the /repo fix of the with-dialect lines) *)
Theorem C04_encoder_kwargs_with_dialect : forall he hk config call,
  kw_used ret_dialect he hk config call = kw_expected he hk config call.
Proof. exact kwargs_dialect_path. Qed.
Print Assumptions C04_encoder_kwargs_with_dialect.

(* the documents: only orjson has encoder keywords; for every other format both paths write ser_F(tree);
   to_jsonb - with or without dialect - writes orjson.dumps(tree, option = argument or Config value) *)
Theorem C04_method_document_keyword :
  forall (doc: Type) (ser_kw: fmt -> option Z -> bv -> doc) config call b,
    (forall dialect_given F, F <> FOrjson -> method_doc doc ser_kw dialect_given F config call b = ser_kw F None b) /\
    (forall dialect_given, method_doc doc ser_kw dialect_given FOrjson config call b = ser_kw FOrjson (Some (param_value config call)) b).
Proof.
  intros. split.
  - intros dg F HF. apply method_doc_no_kwargs. exact HF.
  - intro dg. apply method_doc_orjson.
Qed.
Print Assumptions C04_method_document_keyword.

(* non-vacuity: Config value 2, call-time 5 *)
Example C04_kwargs_nonvacuous :
  kw_used ret_plain true true 2%Z None = Some 2%Z /\ kw_used ret_plain true true 2%Z (Some 5%Z) = Some 5%Z /\
  kw_used ret_plain true false 2%Z (Some 5%Z) = None /\
  kw_used ret_dialect true true 2%Z (Some 5%Z) = Some 5%Z /\     (* was None before the fix *)
  has_kwargs FOrjson = true /\ has_encoder FMsgpack = true /\ has_encoder FJson = false.
Proof. repeat split; vm_compute; reflexivity. Qed.
