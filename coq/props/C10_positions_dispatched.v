(* C10 - positions below a field, with the descent sites *dispatched*: a path position carries the outcome of the
   library's own dispatch tests for its type (valuation p), not the step kind; compile_v runs the translated dispatch
   chains (VerifGen.K5D) on it and then K5PKernel.compile.  stands_for vp path: every valuation satisfies the route
   hypotheses (Dispatch.v) of the step kind that path names. *)
From Coq Require Import List String ZArith Bool.
From Verif Require Import PyK PyK_strat OptProj Strategies StrategiesProofs Positions K5Kernel K5PKernel PositionsProofs Dispatch PositionsV.
Import ListNotations.
Open Scope string_scope.

Theorem C10_positions_dispatched : forall d P e vp path c,
  e <> KNone -> stands_for vp path ->
  compile_v d P (x_S c) (spec_of P c) (x_holder c) e vp =
    Some (Ok (match ref_compile P d (ctxs P c path) 0 with Some (n, sw) => Some (n, emit d (Some sw) e) | None => None end)).
Proof. exact c10_positions_dispatched. Qed.
Print Assumptions C10_positions_dispatched.

(* non-vacuity: Outer.inner : Inner;  Inner.xs : Optional[List[date]] - valuations as the harness computes them *)
Definition mem (l: list string) (t: string) : bool := existsb (String.eqb t) l.
Definition pOpt := mem ["is_special_typing_primitive(spec.origin_type)"; "is_union(spec.type)"; "is_optional(spec.type, resolved_type_params)"].
Definition pList := mem ["ensure_generic_collection_subclass(spec, list, deque, Set)"; "ensure_generic_collection_subclass(spec, list)";
                         "ensure_generic_collection_subclass(spec, Sequence)"].
Definition kOuter := KObj 31.  Definition kInner := KObj 32.  Definition kDate := KObj 12.
Definition kOpt := KObj 41.    Definition kList := KObj 42.   Definition kListO := KObj 43.
Definition dl (b: bool) : flags := {| g_on := false; g_ba := false; g_dl := b; g_cx := false |}.
Definition fn2 (m: nat) : sval := VDict (Some (FFn m)) (Some (FFn (100 + m))).
Definition P_ex : prims :=
  {| p_rt := fun v => v; p_org := fun v => if kv_eqb v kList then kListO else v; p_isann := fun _ => false;
     p_flags := fun v => if kv_eqb v kOuter then dl true else if kv_eqb v kInner then dl true else dl false;
     p_cfg := fun v => if kv_eqb v kInner then (None, [(kDate, fn2 5)]) else (None, []) |}.
Definition c_ex : pctx :=
  {| x_S := {| f_ser := None; f_de := None; f_strat := None; t_call := Some [(kDate, fn2 3)]; t_cfgd := None;
               t_cfg := []; t_dflt := None |};
     x_ann := KNone; x_decl := kInner; x_holder := kOuter |}.
Definition vpath_ex : list vnode := [VData no_fieldopts kOpt; VType pOpt kList; VType pList kDate].

Example C10_positions_dispatched_nonvacuous :
  stands_for vpath_ex [NField false no_fieldopts kOpt; NType TOptional kList; NType TElement kDate] /\
  compile_v Ser P_ex (x_S c_ex) (spec_of P_ex c_ex) kOuter (KStr "value") vpath_ex
    = Some (Ok (Some (3, k_call_expr (KObj 4) (KStr "value")))) /\
  compile_v De P_ex (x_S c_ex) (spec_of P_ex c_ex) kOuter (KStr "value") vpath_ex
    = Some (Ok (Some (3, k_call_expr (KObj 104) (KStr "value")))).
Proof.
  split; [|split; reflexivity].
  apply sf_data. apply sf_type; [cbn; repeat constructor|]. apply sf_type; [left; cbn; repeat constructor|]. apply sf_nil.
Qed.
