(* C13 - dialect=D versus the twin class with default dialect D; where options and strategies come from
   (kernels K3, K5, K13, K13F). *)
From Coq Require Import List String ZArith Bool.
From Verif Require Import PyK PyK_strat DialectMerge DialectTwin DialectSources.
From VerifGen Require Import K3 K5 K13 K13F.
Import ListNotations.
Open Scope string_scope.
Open Scope nat_scope.

(* ---- dialect=D versus the twin class with default dialect D ---- *)
Definition C13_twin_full : Prop := twin_full.

Theorem C13_twin_partial :
  forall k D dd o dflt,
    flag_of k o = false -> covers D (k_cfgd k) o ->
    call_effective k D dd o dflt = twin_effective k D dd o dflt.
Proof. exact twin_partial. Qed.
Print Assumptions C13_twin_partial.

Theorem C13_call_dialect_refuted : ~ C13_twin_full.
Proof. exact call_dialect_refuted. Qed.
Print Assumptions C13_call_dialect_refuted.

Definition C13_union_full : Prop := union_full.

Theorem C13_union_partial :
  forall owner members actual,
    In actual members -> (forall m, In m members -> m = actual) ->
    union_forward owner members actual = union_expected owner actual.
Proof. exact union_partial. Qed.
Print Assumptions C13_union_partial.

Theorem C13_union_member_flags_refuted : ~ C13_union_full.
Proof. exact union_member_flags_refuted. Qed.
Print Assumptions C13_union_member_flags_refuted.

(* ---- where options and strategies come from (kernels K13 scan, K13F, K5) ---- *)
(* no code reads an option attribute directly: every read goes through get_dialect_or_config_option,
   i.e. through the chain call dialect > Config.dialect > Config > default_dialect *)
Theorem C13_options_only_via_resolution : direct_option_reads = [].
Proof. exact options_only_via_resolution. Qed.
Print Assumptions C13_options_only_via_resolution.

Theorem C13_every_option_read :
  forall o, In o dialect_attrs -> o = "serialization_strategy" \/ In o (map fst resolved_option_reads).
Proof. exact every_option_read. Qed.
Print Assumptions C13_every_option_read.

Theorem C13_option_defaults_consistent :
  forall o d1 d2, In (o, d1) resolved_option_reads -> In (o, d2) resolved_option_reads -> d1 = d2.
Proof. exact defaults_consistent. Qed.
Print Assumptions C13_option_defaults_consistent.

(* the defaults of the generated omit_none= / by_alias= keywords are the resolved options *)
Theorem C13_flag_keyword_default :
  forall d cd cfg dd,
    kw_default_omit_none d cd cfg dd = Ok (render_bool (first_set [d; cd; cfg; dd] "omit_none" (KBool false))) /\
    kw_default_by_alias d cd cfg dd = Ok (render_bool (first_set [d; cd; cfg; dd] "serialize_by_alias" (KBool false))).
Proof. intros. split; [apply kw_default_omit_none_spec | apply kw_default_by_alias_spec]. Qed.
Print Assumptions C13_flag_keyword_default.

(* strategy sources of `dialect=D` = strategy sources of the twin whose Config.dialect is D *)
Theorem C13_twin_strategy_sources :
  forall d cfg dd ft dmap cmap,
    ns_get d "serialization_strategy" = Some (KDict dmap) ->
    ns_get cfg "dialect" = Some KNone ->
    ns_get cfg "serialization_strategy" = Some (KDict cmap) ->
    iter_serialization_strategies_inner (KNs d) (KNs cfg) dd ft =
    iter_serialization_strategies_inner KNone (KNs (ns_set cfg "dialect" (KNs d))) dd ft.
Proof. exact twin_strategy_sources. Qed.
Print Assumptions C13_twin_strategy_sources.

(* one-directional entry of D: the other direction is still looked up in the lower sources *)
Example C13_twin_strategy_nonvacuous :
  let d := [("serialization_strategy", KDict [(KObj 1, KDict [(KStr "serialize", KObj 10)])])] in
  let cfg := [("dialect", KNone); ("serialization_strategy", KDict [(KObj 1, KDict [(KStr "deserialize", KObj 11)])])] in
  gen_items (iter_serialization_strategies_inner (KNs d) (KNs cfg) KNone (KObj 1)) =
    [KDict [(KStr "serialize", KObj 10)]; KDict [(KStr "deserialize", KObj 11)]].
Proof. vm_compute. reflexivity. Qed.

Example C13_twin_nonvacuous :
  flag_of (mk_klass (KNs []) KNone false false) "omit_none" = false /\
  call_effective (mk_klass (KNs []) KNone false false) (KNs [("omit_none", KBool true)]) KNone "omit_none" (KBool false)
    = Ok (KBool true).
Proof. split; vm_compute; reflexivity. Qed.
