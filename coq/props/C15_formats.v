(* C15 - all entry points of a FORMAT agree (mixin to_<fmt>/from_<fmt>, <Fmt>Encoder/Decoder, one-shot functions).
   Property theorems only; model + proofs in theories/C15Format.v.  The option part of Dialect.merge is the kernel K2
   translated from /repo/mashumaro/dialect.py on this run, its key tuple is K13. *)
From Coq Require Import List String ZArith Bool.
From Verif Require Import PyK DialectMerge.
From VerifGen Require Import K2 K13 K13C.
From Verif Require Import C15Model C15Proofs C15Format.
Import ListNotations.
Open Scope string_scope.

(* full strength: no condition relating the caller's dialect and the classes' Config *)
Definition C15_format_agree_full : Prop :=
  forall (doc: val -> res val) E fd ns t v,
    has_keys merge_loop_keys fd -> has_keys merge_loop_keys ns -> ns_wf ns = true ->
    names_ok E = true -> exact E v t = true ->
    fmt_encode doc EMixin E fd (Some ns) t v = fmt_encode doc ECodec E fd (Some ns) t v.

(* with a caller dialect X: x.to_<fmt>(dialect=X) == <Fmt>Encoder(T, default_dialect=X).encode(x), for every shape
   (T = D, List[D], Dict[str, D], ...), every document function, every built-in format dialect FD *)
Theorem C15_format_agree_partial : forall (D: Type) (doc: val -> res D) E fd ns t v,
  has_keys merge_loop_keys fd -> has_keys merge_loop_keys ns -> ns_wf ns = true ->
  no_lookalike_union E t = true -> dialect_compat_o E (opts_of ns) = true -> names_ok E = true ->
  exact E v t = true ->
  fmt_encode doc EMixin E fd (Some ns) t v = fmt_encode doc ECodec E fd (Some ns) t v.
Proof. intros D doc. exact (format_agree_dialect doc). Qed.
Print Assumptions C15_format_agree_partial.

(* the same, instantiated with the built-in dialects exactly as the kernel K13C reads them from mashumaro/mixins/*.py
   (OrjsonDialect, MessagePackDialect, TOMLDialect with omit_none = True), user dialect given by the options it sets *)
Theorem C15_format_agree_builtin_partial : forall (D: Type) (doc: val -> res D) name fd xs E t v,
  In (name, fd) builtin_dialects -> ns_wf (complete_ns xs) = true ->
  no_lookalike_union E t = true -> dialect_compat_o E (opts_of (complete_ns xs)) = true -> names_ok E = true ->
  exact E v t = true ->
  fmt_encode doc EMixin E fd (Some (complete_ns xs)) t v = fmt_encode doc ECodec E fd (Some (complete_ns xs)) t v.
Proof. intros D doc. exact (format_agree_builtin doc). Qed.
Print Assumptions C15_format_agree_builtin_partial.

Example C15_builtin_nonvacuous :
  exists fd, In ("TOMLDialect", fd) builtin_dialects /\ opts_of fd = mkO None (Some true) None.
Proof. exact builtin_toml_omit_none. Qed.

(* without a caller dialect: mixin method == codec object == one-shot function *)
Theorem C15_format_agree_plain_partial : forall (D: Type) (doc: val -> res D) E fd t v,
  no_lookalike_union E t = true -> names_ok E = true -> exact E v t = true ->
  fmt_encode doc EMixin E fd None t v = fmt_encode doc ECodec E fd None t v /\
  fmt_encode doc EOneShot E fd None t v = fmt_encode doc ECodec E fd None t v.
Proof. intros D doc. exact (format_agree_plain doc). Qed.
Print Assumptions C15_format_agree_plain_partial.

(* a format codec for List[T] / Dict[str, T] = the element packer elementwise, then the one document function *)
Theorem C15_format_codec_list : forall (D: Type) (doc: val -> res D) E fd x t l c d,
  layers_of ECodec fd x = Some (c, d) ->
  fmt_encode doc ECodec E fd x (TList t) (VList l) =
  bindr (fmap VList (mapM (fun e => pack E Codec c d e t) l)) doc.
Proof. intros D doc. exact (format_codec_list doc). Qed.
Print Assumptions C15_format_codec_list.

Theorem C15_format_codec_dict : forall (D: Type) (doc: val -> res D) E fd x t kvs c d,
  layers_of ECodec fd x = Some (c, d) ->
  fmt_encode doc ECodec E fd x (TDict t) (VDict kvs) =
  bindr (fmap VDict (mapM (fun kv => fmap (pair (fst kv)) (pack E Codec c d (snd kv) t)) kvs)) doc.
Proof. intros D doc. exact (format_codec_dict doc). Qed.
Print Assumptions C15_format_codec_dict.

(* decoding, every document, no side condition *)
Theorem C15_format_decode_agree : forall (D: Type) (undoc: D -> option val) E t b,
  fmt_decode undoc EMixin E t b = norm (fmt_decode undoc ECodec E t b) /\
  fmt_decode undoc EOneShot E t b = fmt_decode undoc ECodec E t b.
Proof. intros D undoc. exact (format_decode_agree undoc). Qed.
Print Assumptions C15_format_decode_agree.

Theorem C15_format_decode_agree_data : forall (D: Type) (undoc: D -> option val) E c b,
  fmt_decode undoc EMixin E (TData c) b = fmt_decode undoc ECodec E (TData c) b.
Proof. intros D undoc. exact (format_decode_agree_data undoc). Qed.
Print Assumptions C15_format_decode_agree_data.

(* the faithful model violates the full statement: call dialect > Config > default dialect *)
Theorem C15_format_priority_refuted : ~ C15_format_agree_full.
Proof.
  intros H. destruct format_priority_witness as [Hm Hc].
  assert (Hk: forall on, has_keys merge_loop_keys (ns5 KMissing on)).
  { intros on k Hk. simpl in Hk. repeat (destruct Hk as [<-|Hk]; [simpl; discriminate|]). destruct Hk. }
  specialize (H (fun v => C15Model.Ok v) E_fm fd_toml (ns5 KMissing (KBool true)) (TData "A") v_fm
                (Hk _) (Hk _) eq_refl eq_refl eq_refl).
  pose proof (eq_trans (eq_sym Hm) (eq_trans H Hc)) as Hcontra. discriminate Hcontra.
Qed.
Print Assumptions C15_format_priority_refuted.

(* non-vacuity (TOML: the built-in omit_none reaches the codec through the translated merge) *)
Example C15_format_nonvacuous :
  let x := ns5 (KBool true) KMissing in
  has_keys merge_loop_keys fd_toml /\ has_keys merge_loop_keys x /\ ns_wf x = true /\
  dialect_compat_o E_fx (opts_of x) = true /\ exact E_fx v_fx (TData "B") = true /\
  fmt_encode (fun v => C15Model.Ok v) ECodec E_fx fd_toml (Some x) (TData "B") v_fx
    = C15Model.Ok (VDict [("l", VList [VDict [("a_x", VInt 1)]]);
                          ("m", VDict [("k", VDict [("a_x", VInt 2); ("y", VInt 3)])])]).
Proof. exact format_example. Qed.
