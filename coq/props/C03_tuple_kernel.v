(* C01/C02/C03, tuple index arithmetic (kernel K7 translated from pack.py:pack_tuple and
   unpack.py:unpack_tuple on every run; both functions contain the same loop, checked).
   For every list of type arguments (with or without an Unpack[...] segment, any length):
   the code either rejects a second unpacked argument, or computes index / slice descriptors
   that select every position 0..L-1 of a value of any admissible length L exactly once and
   in order -- no item is skipped, read twice or converted by the wrong element type.
   The too-short input (L below the number of fixed items) is NOT covered: there an item is
   read twice (known finding C03/unpacked-tuple-short-input, witnessed below). *)
From Coq Require Import List ZArith Bool.
From Verif Require Import Core TupleIdx TyModel K7Proofs TyK7.
From VerifGen Require Import K7.
Import ListNotations.
Open Scope Z_scope.

Theorem C03_tuple_indexes : forall flags : list bool,
  (exists k, flags = repeat false k /\ arg_indexes flags = Some (map AI (zrange 0 (Z.of_nat k))) /\
             select_all (Z.of_nat k) (map AI (zrange 0 (Z.of_nat k))) = Some (zrange 0 (Z.of_nat k)))
  \/ (exists u m, flags = repeat false u ++ true :: repeat false m /\ arg_indexes flags = Some (expected u m) /\
                  forall L, Z.of_nat (u + m) <= L -> select_all L (expected u m) = Some (zrange 0 L))
  \/ (exists u rest, flags = repeat false u ++ true :: rest /\ In true rest /\ arg_indexes flags = None).
Proof. exact K7_classification. Qed.
Print Assumptions C03_tuple_indexes.

Theorem C03_tuple_short_input_refuted :
  exists flags idx L, arg_indexes flags = Some idx /\ select_all L idx = Some [0; 0].
Proof. exists [false; true; false], (expected 1 1), 1. exact K7_short_input_reads_twice. Qed.
Print Assumptions C03_tuple_short_input_refuted.

Example C03_tuple_nonvacuous :
  arg_indexes [false; true; false; false] = Some [AI 0; ASl 1 (Some (-2)); AI (-2); AI (-1)] /\
  select_all 6 [AI 0; ASl 1 (Some (-2)); AI (-2); AI (-1)] = Some [0; 1; 2; 3; 4; 5].
Proof. split; reflexivity. Qed.

(* the tie for the type-level model (TyModel.v): the index / slice plan stored by [cu] / [cp] for
   Tuple[pre..., Unpack[mid], post...] is the output of the translated loop on the flags of that type *)
Theorem C03_model_plan_is_code : forall (pre: list sty) (mid: sty) (post: list sty),
  (exists us um ut, cu true (STupleU pre mid post) = UTupleU (tu_plan (length pre) (length post)) us um ut /\
                    arg_indexes (tu_flags pre post) = Some (tu_plan (length pre) (length post))) /\
  (exists es em et, cp true (STupleU pre mid post) = ETupleU (tu_plan (length pre) (length post)) es em et /\
                    arg_indexes (tu_flags pre post) = Some (tu_plan (length pre) (length post))).
Proof. intros pre mid post. split; [apply cu_plan_is_code | apply cp_plan_is_code]. Qed.
Print Assumptions C03_model_plan_is_code.
