(* C06 (tuple arithmetic): theorems over the kernel K6 translated from
   /repo/mashumaro/jsonschema/schema.py:on_tuple on this run. *)
From Coq Require Import List ZArith Lia.
From Verif Require Import PyK_tuple K6Proofs.
From VerifGen Require Import K6.
Import ListNotations.
Open Scope Z_scope.

(* the translated kernel equals the closed form used by the hand-written schema model *)
Theorem K6_spec : forall (A: Type) (args: list (targ A)), on_tuple_k args = tuple_spec args.
Proof. exact @on_tuple_k_spec. Qed.
Print Assumptions K6_spec.

(* satisfiable: an emitted maxItems is never below minItems (false before fix D11a) *)
Theorem K6_min_le_max : forall (A: Type) (args: list (targ A)),
  (forall u, In u (unpacks args) -> u_ok u) ->
  forall mx, t_max (on_tuple_k args) = Some mx -> tmin (on_tuple_k args) <= mx.
Proof. exact @K6_min_le_max_thm. Qed.
Print Assumptions K6_min_le_max.

(* the result can itself be unpacked into an outer tuple: the invariant is closed under nesting *)
Theorem K6_nesting_closed : forall (A: Type) (args: list (targ A)),
  (forall u, In u (unpacks args) -> u_ok u) -> t_ok (on_tuple_k args).
Proof. exact @K6_closed. Qed.
Print Assumptions K6_nesting_closed.

(* every admissible length of a value of the tuple type lies within [minItems, maxItems] *)
Theorem K6_accepts_lengths : forall (A: Type) (args: list (targ A)) (n: Z),
  len_adm args n ->
  tmin (on_tuple_k args) <= n /\ (forall mx, t_max (on_tuple_k args) = Some mx -> n <= mx).
Proof. exact @K6_accepts_lengths_thm. Qed.
Print Assumptions K6_accepts_lengths.

(* documentation: the arithmetic before fix D11a gave minItems 3 > maxItems 2 *)
Theorem K6_pre_fix_refuted : old_arith d11a_witness = (Some 3, Some 2).
Proof. exact K6_pre_fix_refuted_thm. Qed.
Print Assumptions K6_pre_fix_refuted.

(* non-vacuity: Tuple[int, Unpack[Tuple[str, float]]] satisfies the hypotheses, has the
   admissible length 3, and the kernel emits minItems = maxItems = 3 *)
Example K6_nonvacuous :
  (forall u, In u (unpacks d11a_witness) -> u_ok u) /\ len_adm d11a_witness 3 /\
  t_min (on_tuple_k d11a_witness) = Some 3 /\ t_max (on_tuple_k d11a_witness) = Some 3.
Proof.
  split; [|split; [|split; reflexivity]].
  - intros u [H|[]]. subst u. unfold u_ok, umin, uprefix, zlen. cbn. repeat split; try lia.
    intros mx E. inversion E. lia.
  - unfold len_adm. cbn. exists 2. repeat split; try lia. intros mx E. inversion E. lia.
Qed.
