(* C01, NamedTuple in the as_dict form (see C02_ntdict.v for the domain): decoding what the generated packer
   produced gives the instance back, for every class table whose classes are lossless, every NamedTuple class,
   every conforming instance whose atoms round-trip. *)
From Coq Require Import List String ZArith Bool.
From Verif Require Import Core TupleIdx TyModel TyTuple TyProofs TyStrict TyRoundtrip TyNtDict TyNtDictProofs.
Import ListNotations.

Theorem C01_ntdict_roundtrip : forall (E: senv) (P: prims),
  forallb cls_ok E = true ->
  forall (v: pv) (c: String.string) (w: pv),
    conf_ord E v (SNamed c) = true -> vals_ok P v = true ->
    pk_nd E P v c = Ok w -> uk_nd E P w c = Ok v.
Proof.
  intros E P HE v c w HC HV Hpk.
  rewrite (nd_pack_is_ref E P true v c HC) in Hpk.
  pose proof (nd_ref_roundtrip E P HE v c w HC HV Hpk) as Hrt.
  rewrite (nd_unpack_is_ref_strict E P w c); [exact Hrt | rewrite Hrt; discriminate].
Qed.
Print Assumptions C01_ntdict_roundtrip.

(* strongest form: the generated encoder succeeds and the generated decoder gives the instance back *)
Theorem C01_ntdict_roundtrip_total : forall (E: senv) (P: prims),
  forallb cls_ok E = true ->
  forall (v: pv) (c: String.string),
    conf_ord E v (SNamed c) = true -> vals_ok P v = true ->
    exists w, pk_nd E P v c = Ok w /\ uk_nd E P w c = Ok v.
Proof.
  intros E P HE v c HC HV.
  destruct (nd_ref_enc_total E P true v c HC HV) as [w Hw].
  exists w. rewrite (nd_pack_is_ref E P true v c HC). split; [exact Hw|].
  pose proof (nd_ref_roundtrip E P HE v c w HC HV Hw) as Hrt.
  rewrite (nd_unpack_is_ref_strict E P w c); [exact Hrt | rewrite Hrt; discriminate].
Qed.
Print Assumptions C01_ntdict_roundtrip_total.

Definition ndE : senv :=
  [ {| sc_kind := KNamed; sc_name := "NT"; sc_fields :=
         [ {| sf_name := "a"; sf_ty := SIntT; sf_default := None; sf_opt := false |};
           {| sf_name := "n"; sf_ty := SNoneT; sf_default := None; sf_opt := false |};
           {| sf_name := "i"; sf_ty := SList (SNamed "In"); sf_default := None; sf_opt := false |};
           {| sf_name := "b"; sf_ty := STupleFix [SIntT; SIntT]; sf_default := Some (VTuple [VInt 0; VInt 0]); sf_opt := false |} ] |};
    {| sc_kind := KNamed; sc_name := "In"; sc_fields :=
         [ {| sf_name := "p"; sf_ty := SIntT; sf_default := None; sf_opt := false |};
           {| sf_name := "q"; sf_ty := SStrT; sf_default := Some (VStr "z"); sf_opt := false |} ] |} ].
Definition ndP : prims := {|
  p_render := fun k w => VStr w; p_parse := fun _ _ => None; p_enum_value := fun _ _ => None; p_enum_of := fun _ _ => None;
  p_b64enc := fun b => b; p_b64dec := fun _ => None; p_int := fun _ => None; p_float := fun _ => None; p_str := fun _ => None |}.
Definition ndV : pv := VNT "NT" [VInt 1; VNone; VList [VNT "In" [VInt 2; VStr "x"]]; VTuple [VInt 3; VInt 4]].
Example C01_ntdict_nonvacuous :
  forallb cls_ok ndE = true /\ conf_ord ndE ndV (SNamed "NT") = true /\ vals_ok ndP ndV = true /\
  exists w, pk_nd ndE ndP ndV "NT" = Ok w /\ uk_nd ndE ndP w "NT" = Ok ndV.
Proof.
  repeat (match goal with |- (_ = _) /\ _ => split; [vm_compute; reflexivity|] end).
  eexists. split; [vm_compute; reflexivity | vm_compute; reflexivity].
Qed.
