(* C05 over kernel K45a (unpack.py unpack_typed_dict: the statements emitted into the helper of a TypedDict class,
   translated from /repo to coq/gen/K45a.v on every run; semantics TdEmit.v), run with exception classes and arbitrary
   item unpackers [run] (any exception class, KeyError included): nothing that is present is silently dropped or
   replaced, and the exception of the unpacker of an optional key that is present is not taken for "key absent". *)
From Coq Require Import List String Bool.
From Verif Require Import Core TyModel TdEmit ErrsTdEmit.
From VerifGen Require Import K45a.
Import ListNotations.
Local Open Scope list_scope.

(* every key of the class that the input holds is bound, in a returned dict, to its own unpacker's result *)
Theorem C05_typeddict_no_silent_drop : forall D (run: sfield -> D -> res pv) konst miss fld es all_keys is_required is_optional r,
  run_td_lines run konst miss fld es (k45a_unpack_lines all_keys is_required is_optional) = Ok r ->
  forall k f d, In k all_keys -> (is_required k || is_optional k) = true ->
    fld k = Some f -> konst f = None -> look es k = Some d ->
    exists y, run f d = Ok y /\ In (VStr k, y) r.
Proof. exact @td_no_silent_drop. Qed.
Print Assumptions C05_typeddict_no_silent_drop.

(* an optional key that is present: the exception of its unpacker, whatever the class, leaves the helper *)
Theorem C05_typeddict_optional_exn : forall D (run: sfield -> D -> res pv) konst miss fld es all_keys is_required is_optional pre post k f d e,
  k45a_unpack_lines all_keys is_required is_optional = pre ++ TLOpt k :: post ->
  Forall (fun l => exists o, run_td_line run konst miss fld es l = Ok o) pre ->
  fld k = Some f -> look es k = Some d -> run f d = Exn e ->
  run_td_lines run konst miss fld es (k45a_unpack_lines all_keys is_required is_optional) = Exn e.
Proof. exact @td_optional_exn. Qed.
Print Assumptions C05_typeddict_optional_exn.
