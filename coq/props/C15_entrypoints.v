(* C15 - all entry points agree.  Property theorems only; proofs in theories/C15Proofs.v,
   model in theories/C15Model.v (tied to /repo by the correspondence of harness/props/c15.py). *)
From Coq Require Import List String ZArith Bool.
From Verif Require Import C15Model C15Proofs.
Import ListNotations.
Open Scope string_scope.

(* Full-strength statement: every value that is exact for its type is serialized identically by
   the mixin path and the codec path - with no side condition on unions or dialects.
   Refuted below (known findings); proved under the side conditions. *)
Definition C15_agree_full : Prop :=
  forall E dl t v, names_ok E = true -> exact E v t = true ->
    run_pack E Mixin dl t v = run_pack E Codec dl t v.

(* mixin path == codec path, all depths, exact runtime classes *)
Theorem C15_agree_partial : forall E dl t v,
  no_lookalike_union E t = true -> dialect_compat E dl = true -> names_ok E = true ->
  exact E v t = true ->
  run_pack E Mixin dl t v = run_pack E Codec dl t v.
Proof. exact agree_exact. Qed.
Print Assumptions C15_agree_partial.

(* the same for a dialect that sets serialize_by_alias and/or omit_none ([opts]): passed with the call on the mixin
   path, as default_dialect on the codec path; the common result is a success *)
Theorem C15_agree_o_partial : forall E o t v,
  no_lookalike_union E t = true -> dialect_compat_o E o = true -> names_ok E = true ->
  exact E v t = true ->
  run_pack_o E Mixin o t v = run_pack_o E Codec o t v /\ exists y, run_pack_o E Codec o t v = Ok y.
Proof. exact agree_exact_o. Qed.
Print Assumptions C15_agree_o_partial.

(* ... and that common result is a success (conforming values always serialize) *)
Theorem C15_exact_serializes : forall E dl t v,
  no_lookalike_union E t = true -> dialect_compat E dl = true -> names_ok E = true ->
  exact E v t = true ->
  exists y, run_pack E Codec dl t v = Ok y /\ run_pack E Mixin dl t v = Ok y.
Proof. exact exact_serializes. Qed.
Print Assumptions C15_exact_serializes.

(* composite shape = element codec elementwise, both paths, ALL values (no side condition), stated for the
   general packer with a call-time and a default dialect layer ([pack E m call dflt v t]; run_pack / run_pack_o
   and the format entry points are instances) *)
Theorem C15_compositional_list : forall E m call dflt t l,
  pack E m call dflt (VList l) (TList t) = fmap VList (mapM (fun x => pack E m call dflt x t) l).
Proof. exact comp_list. Qed.
Print Assumptions C15_compositional_list.

Theorem C15_compositional_dict : forall E m call dflt t kvs,
  pack E m call dflt (VDict kvs) (TDict t) =
  fmap VDict (mapM (fun kv => fmap (pair (fst kv)) (pack E m call dflt (snd kv) t)) kvs).
Proof. exact comp_dict. Qed.
Print Assumptions C15_compositional_dict.

Theorem C15_compositional_tuple : forall E m call dflt ts l, ts <> [] ->
  pack E m call dflt (VTuple l) (TTuple ts) = fmap VList (zipM (fun t v => pack E m call dflt v t) ts l).
Proof. exact comp_tuple. Qed.
Print Assumptions C15_compositional_tuple.

Theorem C15_compositional_optional : forall E m call dflt t v,
  pack E m call dflt v (TOpt t) = match v with VNone => Ok VNone | _ => pack E m call dflt v t end.
Proof. exact comp_optional. Qed.
Print Assumptions C15_compositional_optional.

(* use nested inside another dataclass: the outer to_dict applies the field's codec to the attribute; a nullable
   field that is None is dropped under omit_none *)
Theorem C15_compositional_field : forall E m call dflt o d fs,
  find_cls E o = Some d ->
  pack E m call dflt (VObj o fs) (TData o) =
  fmap (fun l => VDict (List.concat l))
    (mapM (fun f => match assoc fs (f_name f) with
                    | None => Err XRaw
                    | Some x => if drop_field call dflt d f x then Ok []
                                else fmap (fun y => [(key_of call dflt d f, y)]) (pack E m call dflt x (f_ty f))
                    end) (pack_order d)).
Proof. exact comp_field. Qed.
Print Assumptions C15_compositional_field.

Theorem C15_compositional_wrapper : forall E m call dflt w d t x,
  find_cls E w = Some d -> c_fields d = [mkF "f" None t] ->
  drop_field call dflt d (mkF "f" None t) x = false ->
  pack E m call dflt (VObj w [("f", x)]) (TData w) = fmap (fun y => VDict [("f", y)]) (pack E m call dflt x t).
Proof. exact comp_wrapper. Qed.
Print Assumptions C15_compositional_wrapper.

Theorem C15_unpack_compositional_list : forall E m t l,
  run_unpack E m (TList t) (VList l) = fmap VList (mapM (run_unpack E m t) l).
Proof. exact unpack_comp_list. Qed.
Print Assumptions C15_unpack_compositional_list.

Theorem C15_unpack_compositional_dict : forall E m t kvs,
  run_unpack E m (TDict t) (VDict kvs) =
  fmap VDict (mapM (fun kv => fmap (pair (fst kv)) (run_unpack E m t (snd kv))) kvs).
Proof. exact unpack_comp_dict. Qed.
Print Assumptions C15_unpack_compositional_dict.

Theorem C15_unpack_compositional_tuple : forall E m ts l, ts <> [] ->
  run_unpack E m (TTuple ts) (VList l) = fmap VTuple (zipU E m ts l).
Proof. exact unpack_comp_tuple. Qed.
Print Assumptions C15_unpack_compositional_tuple.

Theorem C15_unpack_compositional_optional : forall E m t v,
  run_unpack E m (TOpt t) v = match v with VNone => Ok VNone | _ => run_unpack E m t v end.
Proof. exact unpack_comp_optional. Qed.
Print Assumptions C15_unpack_compositional_optional.

(* decoding: mixin from_dict / nested use (Mixin) and BasicDecoder / decode() (Codec) agree on EVERY input - no
   domain restriction: both dispatch statically; only the class of the "no union member matched" error differs
   (InvalidFieldValue vs ValueError, [norm]), and for a dataclass shape not even that *)
Theorem C15_unpack_agree : forall E t d,
  run_unpack E Mixin t d = norm (run_unpack E Codec t d).
Proof. intros E t d. exact (unpack_agree_all E d t). Qed.
Print Assumptions C15_unpack_agree.

Theorem C15_unpack_agree_data : forall E c d,
  run_unpack E Mixin (TData c) d = run_unpack E Codec (TData c) d.
Proof. intros E c d. exact (unpack_agree_data E d c). Qed.
Print Assumptions C15_unpack_agree_data.

(* frame: whatever classes are created (the table is extended: new names, methods gained), any
   path gives on exact values what it gave before *)
Theorem C15_frame_partial : forall E X m dl t v,
  extends E X ->
  no_lookalike_union E t = true -> dialect_compat E dl = true -> names_ok E = true ->
  exact E v t = true ->
  run_pack X m dl t v = run_pack E m dl t v.
Proof. exact frame_exact. Qed.
Print Assumptions C15_frame_partial.

Theorem C15_frame_o_partial : forall E X m o t v,
  extends E X ->
  no_lookalike_union E t = true -> dialect_compat_o E o = true -> names_ok E = true ->
  exact E v t = true ->
  run_pack_o X m o t v = run_pack_o E m o t v.
Proof. exact frame_exact_o. Qed.
Print Assumptions C15_frame_o_partial.

(* every class creation yields an extension *)
Theorem C15_frame_creation_extends : forall E d comp, extends E (add_class E d comp).
Proof. exact extends_add. Qed.
Print Assumptions C15_frame_creation_extends.

(* histories: any interleaving of codec creations, one-shot calls, class creations and calls
   yields for every in-domain call the result of the same call without the creations *)
Theorem C15_frame_history : forall E0 ops,
  names_ok E0 = true -> Forall (in_dom E0) ops -> outs E0 ops = calls E0 ops.
Proof. exact frame_history. Qed.
Print Assumptions C15_frame_history.

(* --- refutations: the faithful model contains the known findings ------------------------- *)
Theorem C15_lookalike_refuted : ~ C15_agree_full.
Proof.
  intros H. destruct lookalike_witness as [Hn [_ [Hex [Hm Hc]]]].
  specialize (H E_look None t_look v_look Hn Hex). rewrite Hm, Hc in H. discriminate H.
Qed.
Print Assumptions C15_lookalike_refuted.

Theorem C15_subclass_refuted :
  In "K0" (chain E_sub 4 "K1") /\
  run_pack E_sub Mixin None (TData "K2") v_sub <> run_pack E_sub Codec None (TData "K2") v_sub.
Proof.
  destruct subclass_witness as [Hc [Hm Hd]]. split; [exact Hc|]. rewrite Hm, Hd. discriminate.
Qed.
Print Assumptions C15_subclass_refuted.

Theorem C15_frame_subclass_refuted :
  outs E_fr [OpClass d_new ["K1"]; OpCall Mixin None (TData "K0") v_fr]
  <> calls E_fr [OpClass d_new ["K1"]; OpCall Mixin None (TData "K0") v_fr].
Proof. destruct frame_subclass_witness as [H1 [H2 _]]. rewrite H2. simpl calls. simpl in H1. rewrite H1. discriminate. Qed.
Print Assumptions C15_frame_subclass_refuted.

Theorem C15_fieldless_member_refuted :
  exact E_fl (VDate "2020-01-02") t_fl = true /\
  run_pack E_fl Mixin None t_fl (VDate "2020-01-02") <> run_pack E_fl Codec None t_fl (VDate "2020-01-02").
Proof. destruct fieldless_witness as [He [Hm Hc]]. split; [exact He|]. rewrite Hm, Hc. discriminate. Qed.
Print Assumptions C15_fieldless_member_refuted.

Theorem C15_dialect_priority_refuted :
  exact E_dl (VObj "K0" [("x", VInt 1)]) (TData "K0") = true /\ no_lookalike_union E_dl (TData "K0") = true /\
  run_pack E_dl Mixin (Some true) (TData "K0") (VObj "K0" [("x", VInt 1)])
  <> run_pack E_dl Codec (Some true) (TData "K0") (VObj "K0" [("x", VInt 1)]).
Proof. destruct dialect_witness as [He [Hl [Hm Hc]]]. split; [exact He|split; [exact Hl|]]. rewrite Hm, Hc. discriminate. Qed.
Print Assumptions C15_dialect_priority_refuted.

Theorem C15_union_container_refuted :
  exact E_uc v_uc t_uc = true /\ run_pack E_uc Mixin None t_uc v_uc <> run_pack E_uc Codec None t_uc v_uc.
Proof. destruct union_container_witness as [He [Hm Hc]]. split; [exact He|]. rewrite Hm, Hc. discriminate. Qed.
Print Assumptions C15_union_container_refuted.

(* member order of a union is observable on the codec path, for decoding and for encoding: two shape types
   that differ only in the order of their members are different codecs (one-shot functions may not share them) *)
Theorem C15_union_order_observable :
  run_unpack E_tw Codec (TUnion [TData "A"; TData "B"]) (VDict [("ref", VStr "42")])
  <> run_unpack E_tw Codec (TUnion [TData "B"; TData "A"]) (VDict [("ref", VStr "42")]) /\
  run_pack E_look Codec None (TUnion [TData "K1"; TData "K0"]) v_look
  <> run_pack E_look Codec None (TUnion [TData "K0"; TData "K1"]) v_look.
Proof.
  destruct union_order_witness as [H1 [H2 [H3 H4]]]. split; [rewrite H1, H2|rewrite H3, H4]; discriminate.
Qed.
Print Assumptions C15_union_order_observable.

(* --- non-vacuity: the hypotheses of the agreement theorem are met by a non-trivial instance
   (inheritance, alias, Optional, list, a union of two distinguishable dataclasses) ---------- *)
Definition E_ex : env :=
  [mkC "A" None [mkF "x" (Some "a_x") TInt] (Some true) None None [] false false false true;
   mkC "B" (Some "A") [mkF "x" (Some "a_x") TInt; mkF "y" None (TOpt TDate)] None None None [] false false false true;
   mkC "C" None [mkF "z" None TStr] None None None [] false false false true;
   mkC "O" None [mkF "u" None (TUnion [TData "B"; TData "C"; TInt]); mkF "l" None (TList (TData "A"))] None None None [] false false false true].
Definition v_ex : val :=
  VObj "O" [("u", VObj "C" [("z", VStr "s")]);
            ("l", VList [VObj "A" [("x", VInt 1)]; VObj "A" [("x", VInt 2)]])].

Example C15_agree_nonvacuous :
  no_lookalike_union E_ex (TData "O") = true /\ dialect_compat E_ex (Some true) = true /\
  names_ok E_ex = true /\ exact E_ex v_ex (TData "O") = true /\
  run_pack E_ex Codec (Some true) (TData "O") v_ex =
    Ok (VDict [("u", VDict [("z", VStr "s")]); ("l", VList [VDict [("a_x", VInt 1)]; VDict [("a_x", VInt 2)]])]).
Proof. repeat split; reflexivity. Qed.

(* omit_none: Config on one class, the dialect on the others; a None Optional field is dropped where it is effective *)
Definition E_om : env :=
  [mkC "A" None [mkF "x" None TInt; mkF "y" None (TOpt TDate)] None (Some false) None [] false false false true;
   mkC "B" None [mkF "a" None (TData "A"); mkF "z" (Some "a_z") (TOpt TInt)] None None None [] false false false true].
Example C15_agree_o_nonvacuous :
  let o := mkO (Some true) (Some true) None in
  let v := VObj "B" [("a", VObj "A" [("x", VInt 1); ("y", VNone)]); ("z", VNone)] in
  no_lookalike_union E_om (TData "B") = true /\ dialect_compat_o E_om (mkO (Some true) None None) = true /\
  dialect_compat_o E_om o = false /\ exact E_om v (TData "B") = true /\
  run_pack_o E_om Codec (mkO (Some true) None None) (TData "B") v
    = Ok (VDict [("a", VDict [("x", VInt 1); ("y", VNone)]); ("a_z", VNone)]) /\
  (* contradicting Config.omit_none=False on A: the call dialect wins on the mixin path, Config on the codec path *)
  run_pack_o E_om Mixin o (TData "B") v = Ok (VDict [("a", VDict [("x", VInt 1)])]) /\
  run_pack_o E_om Codec o (TData "B") v = Ok (VDict [("a", VDict [("x", VInt 1); ("y", VNone)])]).
Proof. repeat split; reflexivity. Qed.

(* sort_keys / forbid_extra_keys / allow_deserialization_not_by_alias are part of the class table: the agreement, frame and
   decode theorems above quantify over them.  The field loop of to_dict runs over a permutation of the fields: *)
Theorem C15_pack_order_perm : forall d f, In f (pack_order d) <-> In f (c_fields d).
Proof. exact In_pack_order. Qed.
Print Assumptions C15_pack_order_perm.

Definition E_cfg : env :=
  [mkC "A" None [mkF "z" None TInt; mkF "b" (Some "a_b") (TOpt TInt); mkF "a" None TStr] (Some true) None None [] true true true true].
Example C15_config_options_nonvacuous :
  let v := VObj "A" [("z", VInt 1); ("b", VNone); ("a", VStr "s")] in
  exact E_cfg v (TData "A") = true /\ no_lookalike_union E_cfg (TData "A") = true /\
  (* sort_keys: fields sorted by NAME, keys by alias *)
  run_pack_o E_cfg Mixin no_opts (TData "A") v = Ok (VDict [("a", VStr "s"); ("a_b", VNone); ("z", VInt 1)]) /\
  run_pack_o E_cfg Codec no_opts (TData "A") v = Ok (VDict [("a", VStr "s"); ("a_b", VNone); ("z", VInt 1)]) /\
  (* allow_deserialization_not_by_alias: "b" is accepted for the aliased field; forbid_extra_keys: "q" is not *)
  run_unpack E_cfg Codec (TData "A") (VDict [("z", VInt 1); ("b", VInt 2); ("a", VStr "s")])
    = Ok (VObj "A" [("z", VInt 1); ("b", VInt 2); ("a", VStr "s")]) /\
  run_unpack E_cfg Mixin (TData "A") (VDict [("z", VInt 1); ("a_b", VInt 2); ("a", VStr "s"); ("q", VInt 0)]) = Err (XExtra "A").
Proof. repeat split; reflexivity. Qed.

(* omit_default with literal defaults: a field equal to its default is dropped (a None default also under a None value);
   a missing key decodes to the default *)
Definition E_od : env :=
  [mkC "A" None [mkF "x" None TInt; mkF "y" None (TOpt TStr); mkF "z" None TStr] None None (Some true)
       [("x", VInt 7); ("y", VNone)] false false false true].
Example C15_omit_default_nonvacuous :
  let v := VObj "A" [("x", VInt 7); ("y", VNone); ("z", VStr "s")] in
  exact E_od v (TData "A") = true /\ dialect_compat_o E_od (mkO None None (Some true)) = true /\
  run_pack_o E_od Mixin (mkO None None (Some true)) (TData "A") v = Ok (VDict [("z", VStr "s")]) /\
  run_pack_o E_od Codec (mkO None None (Some true)) (TData "A") v = Ok (VDict [("z", VStr "s")]) /\
  run_pack_o E_od Codec no_opts (TData "A") (VObj "A" [("x", VInt 8); ("y", VStr "q"); ("z", VStr "s")])
    = Ok (VDict [("x", VInt 8); ("y", VStr "q"); ("z", VStr "s")]) /\
  run_unpack E_od Mixin (TData "A") (VDict [("z", VStr "s")]) = Ok (VObj "A" [("x", VInt 7); ("y", VNone); ("z", VStr "s")]).
Proof. repeat split; reflexivity. Qed.

(* non-literal defaults: a bound constant (date) and default_factory() results (list) are compared structurally *)
Definition E_nf : env :=
  [mkC "A" None [mkF "d" None TDate; mkF "l" None (TList TInt); mkF "m" None (TDict TInt)] None None (Some true)
       [("d", VDate "2020-01-02"); ("l", VList [VInt 1; VInt 2]); ("m", VDict [])] false false false true].
Example C15_nonliteral_defaults_nonvacuous :
  exact E_nf (VObj "A" [("d", VDate "2020-01-02"); ("l", VList [VInt 1; VInt 2]); ("m", VDict [("k", VInt 0)])]) (TData "A") = true /\
  run_pack_o E_nf Mixin no_opts (TData "A") (VObj "A" [("d", VDate "2020-01-02"); ("l", VList [VInt 1; VInt 2]); ("m", VDict [("k", VInt 0)])])
    = Ok (VDict [("m", VDict [("k", VInt 0)])]) /\
  run_pack_o E_nf Codec no_opts (TData "A") (VObj "A" [("d", VDate "2020-01-03"); ("l", VList [VInt 1]); ("m", VDict [])])
    = Ok (VDict [("d", VStr "2020-01-03"); ("l", VList [VInt 1])]) /\
  run_unpack E_nf Codec (TData "A") (VDict [("l", VList [])])
    = Ok (VObj "A" [("d", VDate "2020-01-02"); ("l", VList []); ("m", VDict [])]).
Proof. repeat split; reflexivity. Qed.

(* the frame theorem's hypothesis is met by a real creation (a subclass that compiles a method onto "C") *)
Example C15_frame_nonvacuous :
  let X := add_class E_ex (mkC "S" (Some "O") [mkF "g" None (TData "C")] None None None [] false false false true) ["C"] in
  extends E_ex X /\ find_cls X "S" <> None /\
  run_pack X Mixin None (TData "O") v_ex = run_pack E_ex Mixin None (TData "O") v_ex.
Proof. split; [apply extends_add|split; [discriminate|reflexivity]]. Qed.
