(* placeholder, replaced below *)
From Verif Require Import C15Model.
