(* C01: basic-form round trip is the identity.
   For every class table whose classes are lossless, every lossless type of the grammar
   (any depth; nested / recursive dataclasses, lists, sets, tuples, mappings, Optional,
   leaves, enums, bytes, Any), every conforming value whose atomic leaves round-trip through
   their stdlib primitive (the documented lossy representations are exactly the ones that do
   not): decoding what the generated packer produced gives the value back, built from the
   same concrete classes (equality of [pv] terms distinguishes list/tuple/set/frozenset,
   bytes/bytearray, classes, enum classes and leaf kinds).
   NamedTuple (as_list form) and TypedDict (total / total=False / Required / NotRequired keys)
   are part of the grammar.  [conf_ord] is conformance ([conf]) plus: the keys of every
   TypedDict value come in the order the decoder rebuilds (required keys, then optional keys,
   each in declaration order).  Python's == on dicts ignores the order, equality of [pv] terms
   does not, hence the side condition; the harness compares with == and feeds TypedDict values
   in shuffled insertion order. *)
From Coq Require Import List String ZArith Bool.
From Verif Require Import Core TupleIdx TyModel TyTuple TyProofs TyStrict TyRoundtrip.
Import ListNotations.

(* reference level *)
Theorem C01_roundtrip : forall (E: senv) (P: prims),
  forallb cls_ok E = true ->
  forall (v: pv) (t: sty) (w: pv),
    conf_ord E v t = true -> lossless t = true -> vals_ok P v = true ->
    ref_enc E P v t = Ok w -> ref_dec E P w t = Ok v.
Proof. intros E P HE v. exact (ref_roundtrip E P HE v). Qed.
Print Assumptions C01_roundtrip.

(* the side condition is conformance plus the TypedDict key order, nothing else *)
Theorem C01_conf_ord_is_conf : forall (E: senv) (v: pv) (t: sty), conf_ord E v t = true -> conf E v t = true.
Proof. exact conf_ord_conf. Qed.
Print Assumptions C01_conf_ord_is_conf.

(* generated code level: BasicDecoder(T).decode(BasicEncoder(T).encode(v)) == v *)
Theorem C01_roundtrip_codec : forall (E: senv) (P: prims),
  forallb cls_ok E = true ->
  forall (v: pv) (t: sty) (w: pv),
    conf_ord E v t = true -> lossless t = true -> vals_ok P v = true ->
    pk E P v (cp true t) = Ok w -> uk E P w (cu true t) = Ok v.
Proof.
  intros E P HE v t w HC HL HV Hpk.
  rewrite (encode_is_ref true E P v t HC) in Hpk.
  pose proof (ref_roundtrip E P HE v t w HC HL HV Hpk) as Hrt.
  rewrite (decode_is_ref_strict E P w t); [exact Hrt | rewrite Hrt; discriminate].
Qed.
Print Assumptions C01_roundtrip_codec.

(* non-vacuity: a concrete environment of primitives, a recursive class, a value with a
   leaf, an enum member, bytes, a set and a dict: hypotheses hold and the encoder succeeds *)
Definition exP : prims := {|
  p_render := fun k w => VStr w;
  p_parse := fun k v => match v with VStr s => Some s | _ => None end;
  p_enum_value := fun e m => Some (VStr m);
  p_enum_of := fun e v => match v with VStr s => Some s | _ => None end;
  p_b64enc := fun b => b;
  p_b64dec := fun v => match v with VStr s => Some s | _ => None end;
  p_int := fun _ => None; p_float := fun _ => None; p_str := fun _ => None |}.
Definition exE : senv :=
  [ {| sc_kind := KData; sc_name := "D"; sc_fields :=
         [ {| sf_name := "a"; sf_ty := SList (SLeaf "date"); sf_default := None; sf_opt := false |};
           {| sf_name := "s"; sf_ty := SSet false SIntT; sf_default := None; sf_opt := false |};
           {| sf_name := "m"; sf_ty := SDict SStrT (SOpt (SEnum "E")); sf_default := None; sf_opt := false |};
           {| sf_name := "b"; sf_ty := SBytes false; sf_default := None; sf_opt := false |};
           {| sf_name := "n"; sf_ty := SOpt (SData "D"); sf_default := Some VNone; sf_opt := false |} ] |} ].
Definition exV : pv :=
  VObj "D" [("a", VList [VLeaf "date" "2024-01-02"]); ("s", VSet false [VInt 1; VInt 2]);
            ("m", VDict [(VStr "k", VEnum "E" "A"); (VStr "z", VNone)]); ("b", VBytes false "xy");
            ("n", VObj "D" [("a", VList []); ("s", VSet false []); ("m", VDict []); ("b", VBytes false ""); ("n", VNone)])].
Example C01_nonvacuous :
  forallb cls_ok exE = true /\ conf_ord exE exV (SData "D") = true /\ lossless (SData "D") = true /\
  vals_ok exP exV = true /\
  exists w, pk exE exP exV (cp true (SData "D")) = Ok w /\ uk exE exP w (cu true (SData "D")) = Ok exV.
Proof.
  repeat (match goal with |- (_ = _) /\ _ => split; [vm_compute; reflexivity|] end).
  eexists. split; [vm_compute; reflexivity | vm_compute; reflexivity].
Qed.

(* strongest form: the generated encoder always succeeds on such a value and the generated
   decoder gives the value back (existence + round trip, no hypothesis left about [w]) *)
Theorem C01_roundtrip_total : forall (E: senv) (P: prims),
  forallb cls_ok E = true ->
  forall (v: pv) (t: sty),
    conf_ord E v t = true -> lossless t = true -> vals_ok P v = true ->
    exists w, pk E P v (cp true t) = Ok w /\ uk E P w (cu true t) = Ok v.
Proof.
  intros E P HE v t HC HL HV.
  destruct (ref_enc_total true E P v t HC HV) as [w Hw].
  exists w. rewrite (encode_is_ref true E P v t HC). split; [exact Hw|].
  pose proof (ref_roundtrip E P HE v t w HC HL HV Hw) as Hrt.
  rewrite (decode_is_ref_strict E P w t); [exact Hrt | rewrite Hrt; discriminate].
Qed.
Print Assumptions C01_roundtrip_total.

(* non-vacuity for NamedTuple / TypedDict: a NamedTuple with a fixed-tuple default and a
   TypedDict with an optional key (absent in one value, present in the other), nested *)
Definition ntE : senv :=
  [ {| sc_kind := KNamed; sc_name := "NT"; sc_fields :=
         [ {| sf_name := "a"; sf_ty := SIntT; sf_default := None; sf_opt := false |};
           {| sf_name := "b"; sf_ty := STupleFix [SIntT; SIntT]; sf_default := Some (VTuple [VInt 0; VInt 0]); sf_opt := false |};
           {| sf_name := "c"; sf_ty := SOpt (STyped "TD"); sf_default := Some VNone; sf_opt := false |} ] |};
    {| sc_kind := KTyped; sc_name := "TD"; sc_fields :=
         [ {| sf_name := "o"; sf_ty := SLeaf "date"; sf_default := None; sf_opt := true |};
           {| sf_name := "r"; sf_ty := SList (SNamed "NT"); sf_default := None; sf_opt := false |} ] |} ].
Definition ntV : pv :=
  VNT "NT" [VInt 1; VTuple [VInt 2; VInt 3];
            VDict [(VStr "r", VList [VNT "NT" [VInt 4; VTuple [VInt 5; VInt 6]; VNone]]); (VStr "o", VLeaf "date" "2024-01-02")]].
Example C01_named_typed_nonvacuous :
  forallb cls_ok ntE = true /\ conf_ord ntE ntV (SNamed "NT") = true /\ lossless (SNamed "NT") = true /\
  vals_ok exP ntV = true /\
  pk ntE exP ntV (cp true (SNamed "NT")) =
    Ok (VList [VInt 1; VList [VInt 2; VInt 3];
               VDict [(VStr "r", VList [VList [VInt 4; VList [VInt 5; VInt 6]; VNone]]); (VStr "o", VStr "2024-01-02")]]) /\
  exists w, pk ntE exP ntV (cp true (SNamed "NT")) = Ok w /\ uk ntE exP w (cu true (SNamed "NT")) = Ok ntV.
Proof.
  repeat (match goal with |- (_ = _) /\ _ => split; [vm_compute; reflexivity|] end).
  eexists. split; [vm_compute; reflexivity | vm_compute; reflexivity].
Qed.

(* the order side condition is needed for = (not for ==): the same dict with the optional key
   first conforms, but comes back with its keys in canonical order *)
Example C01_typed_order_canonicalised :
  let v := VDict [(VStr "o", VLeaf "date" "2024-01-02"); (VStr "r", VList [])] in
  conf ntE v (STyped "TD") = true /\ conf_ord ntE v (STyped "TD") = false /\
  (w <- pk ntE exP v (cp true (STyped "TD")) ;; uk ntE exP w (cu true (STyped "TD")))
    = Ok (VDict [(VStr "r", VList []); (VStr "o", VLeaf "date" "2024-01-02")]).
Proof. cbv zeta. repeat (match goal with |- _ /\ _ => split end); vm_compute; reflexivity. Qed.

(* tuples with an unpacked segment round-trip (any middle length) *)
Example C01_unpacked_tuple :
  let t := STupleU [SIntT] (STupleVar (SLeaf "date")) [SBoolT; SStrT] in
  let v := VTuple [VInt 1; VLeaf "date" "2024-01-02"; VLeaf "date" "2024-01-03"; VBool true; VStr "z"] in
  conf_ord [] v t = true /\ lossless t = true /\ vals_ok exP v = true /\
  pk [] exP v (cp true t) = Ok (VList [VInt 1; VStr "2024-01-02"; VStr "2024-01-03"; VBool true; VStr "z"]) /\
  uk [] exP (VList [VInt 1; VStr "2024-01-02"; VStr "2024-01-03"; VBool true; VStr "z"]) (cu true t) = Ok v /\
  uk [] exP (VList [VInt 1; VBool true; VStr "z"]) (cu true t) = Ok (VTuple [VInt 1; VBool true; VStr "z"]).
Proof. cbv zeta. repeat (match goal with |- _ /\ _ => split end); vm_compute; reflexivity. Qed.

(* abstract and special collection classes: the decoder rebuilds the canonical concrete class
   (Sequence -> list, Mapping -> dict, Deque -> deque, OrderedDict, defaultdict, MappingProxyType, Counter (int values),
   ChainMap (wire form: the list of its maps; ChainMap() is ChainMap({}))) *)
Example C01_collections :
  let box b x := VObj (box_name b) [("", x)] in
  let t := STupleFix [SBox BDeque (SSeq SIntT); SBox BOrdered (SMap SStrT (SSeq SIntT)); SBox BCounter (SMap SStrT SIntT);
                      SBox BChain (SSeq (SMap SStrT SIntT)); SBox BChain (SSeq (SMap SStrT SIntT)); SBox BProxy (SMap SIntT SStrT)] in
  let v := VTuple [box BDeque (VList [VInt 1; VInt 2]); box BOrdered (VDict [(VStr "b", VList [VInt 1]); (VStr "a", VList [])]);
                   box BCounter (VDict [(VStr "x", VInt 2)]); box BChain (VList [VDict [(VStr "k", VInt 1)]; VDict []]);
                   box BChain (VList []); box BProxy (VDict [(VInt 1, VStr "z")])] in
  conf_ord [] v t = true /\ lossless t = true /\ vals_ok exP v = true /\
  pk [] exP v (cp true t) =
    Ok (VList [VList [VInt 1; VInt 2]; VDict [(VStr "b", VList [VInt 1]); (VStr "a", VList [])]; VDict [(VStr "x", VInt 2)];
               VList [VDict [(VStr "k", VInt 1)]; VDict []]; VList [VDict []]; VDict [(VInt 1, VStr "z")]]) /\
  (w <- pk [] exP v (cp true t) ;; uk [] exP w (cu true t)) = Ok v /\
  (* the non-canonical representation of the empty ChainMap does not conform *)
  conf [] (box BChain (VList [VDict []])) (SBox BChain (SSeq (SMap SStrT SIntT))) = false.
Proof. cbv zeta. repeat (match goal with |- _ /\ _ => split end); vm_compute; reflexivity. Qed.

(* leaf- and enum-typed mapping keys: Dict[date, int] and Dict[UUID, List[E]].  The hypothesis [vals_ok] asks,
   for every dict in the value, that the wire forms of its keys be pairwise distinct (and, as for every leaf,
   that parse (render k) = k): exactly what the round trip of the keys needs *)
Example C01_leaf_keys :
  let t := STupleFix [SDict (SLeaf "date") SIntT; SDict (SLeaf "UUID") (SList (SEnum "E"))] in
  let v := VTuple [VDict [(VLeaf "date" "2024-01-02", VInt 1); (VLeaf "date" "2024-01-03", VInt 2)];
                   VDict [(VLeaf "UUID" "0000-01", VList [VEnum "E" "A"; VEnum "E" "B"])]] in
  conf_ord [] v t = true /\ lossless t = true /\ vals_ok exP v = true /\
  pk [] exP v (cp true t) = Ok (VList [VDict [(VStr "2024-01-02", VInt 1); (VStr "2024-01-03", VInt 2)];
                                       VDict [(VStr "0000-01", VList [VStr "A"; VStr "B"])]]) /\
  (w <- pk [] exP v (cp true t) ;; uk [] exP w (cu true t)) = Ok v.
Proof. cbv zeta. repeat (match goal with |- _ /\ _ => split end); vm_compute; reflexivity. Qed.

(* ... and it is needed: with a rendering that identifies two keys present, the dict loses an entry *)
Definition collP : prims := {|
  p_render := fun k w => VStr "same"; p_parse := fun k v => Some "x"; p_enum_value := fun e m => Some (VStr m);
  p_enum_of := fun e v => None; p_b64enc := fun b => b; p_b64dec := fun v => None;
  p_int := fun _ => None; p_float := fun _ => None; p_str := fun _ => None |}.
Example C01_leaf_keys_hypothesis_needed :
  let t := SDict (SLeaf "date") SIntT in
  let v := VDict [(VLeaf "date" "x", VInt 1); (VLeaf "date" "y", VInt 2)] in
  conf_ord [] v t = true /\ lossless t = true /\ vals_ok collP v = false /\
  pk [] collP v (cp true t) = Ok (VDict [(VStr "same", VInt 2)]).
Proof. cbv zeta. repeat (match goal with |- _ /\ _ => split end); vm_compute; reflexivity. Qed.

(* Literal types round-trip *)
Example C01_literal :
  let t := SList (SLit [VInt 1; VStr "a"; VBool true; VNone]) in
  let v := VList [VNone; VBool true; VStr "a"; VInt 1] in
  conf_ord [] v t = true /\ lossless t = true /\ vals_ok exP v = true /\
  (w <- pk [] exP v (cp true t) ;; uk [] exP w (cu true t)) = Ok v /\
  conf [] (VList [VInt 2]) t = false.
Proof. cbv zeta. repeat (match goal with |- _ /\ _ => split end); vm_compute; reflexivity. Qed.
