(* C03: deserialization follows the documented coercions.
   For EVERY input d (arbitrary JSON-like data, not only serializer output), every class
   table and every type of the grammar, the generated unpacker [uk (cu t)] returns exactly
   what the reference decoder [ref_dec] (documented constructor/parser per scalar,
   canonical container with every element converted, surplus tuple items and unknown
   keys ignored, str iterating its characters, dict its keys) returns -- same result,
   and an error exactly when the reference is undefined.
   NamedTuple (as_list form: items read by position, trailing defaults when the sequence ends
   early, an error raised inside an item always propagates) and TypedDict (required keys, then
   the optional keys present; unknown keys ignored) are part of the grammar. *)
From Coq Require Import List String ZArith Bool.
From Verif Require Import Core TupleIdx TyModel TyTuple TyProofs TyStrict.
Import ListNotations.

(* Two readings of the reference for a tuple with an unpacked segment (TyModel.v, Section Mode):
   [ref_dec]   the documented one: a sequence with fewer items than head + tail is an error
               ([XTooFew]); otherwise head items / what lies between / tail items;
   [ref_dec_l] what the generated code does: every position is read through the index / slice
               plan of the arg_indexes loop (kernel K7, see C03_plan_is_code below), so on a short
               sequence head and tail overlap.
   They differ only there; on every type without an unpacked segment they are the same function. *)

(* the generated unpacker IS the second reading, on every input *)
Theorem C03_unpack_ref : forall (E: senv) (P: prims) (d: pv) (t: sty),
  uk E P d (cu true t) = ref_dec_l E P d t.
Proof. exact decode_is_ref. Qed.
Print Assumptions C03_unpack_ref.

(* the two readings agree wherever the documented one does not say "too few items" ... *)
Theorem C03_strict_or_same : forall (E: senv) (P: prims) (d: pv) (t: sty),
  ref_dec E P d t = ref_dec_l E P d t \/ ref_dec E P d t = Exn XTooFew.
Proof. intros E P d t. exact (strict_or_same E P d t). Qed.
Print Assumptions C03_strict_or_same.

(* ... hence the property at full strength against the documented reference, under the computable
   guard "the reference does not reject the input as too short for head + tail" (for a tuple with an
   unpacked segment at the top: input length >= head + tail) *)
Theorem C03_unpack_ref_partial : forall (E: senv) (P: prims) (d: pv) (t: sty),
  ref_dec E P d t <> Exn XTooFew -> uk E P d (cu true t) = ref_dec E P d t.
Proof. exact decode_is_ref_strict. Qed.
Print Assumptions C03_unpack_ref_partial.

(* the unguarded statement, kept visible, is false: known finding C03/unpacked-tuple-short-input.
   BasicDecoder(Tuple[int, Unpack[Tuple[str, ...]], bool]).decode([1]) == (1, True): the item is read
   twice (value[0] and value[-1]) where the documented reference has too few items *)
Definition C03_unpack_ref_full : Prop :=
  forall (E: senv) (P: prims) (d: pv) (t: sty), uk E P d (cu true t) = ref_dec E P d t.

Definition noP : prims := {|
  p_render := fun k w => VStr w; p_parse := fun _ _ => None; p_enum_value := fun _ _ => None; p_enum_of := fun _ _ => None;
  p_b64enc := fun b => b; p_b64dec := fun _ => None; p_int := fun _ => None; p_float := fun _ => None; p_str := fun _ => None |}.

Theorem C03_unpack_short_input_refuted :
  let t := STupleU [SIntT] (STupleVar SStrT) [SBoolT] in
  uk [] noP (VList [VInt 1]) (cu true t) = Ok (VTuple [VInt 1; VBool true]) /\
  ref_dec [] noP (VList [VInt 1]) t = Exn XTooFew.
Proof. split; vm_compute; reflexivity. Qed.
Print Assumptions C03_unpack_short_input_refuted.

Theorem C03_unpack_ref_refuted : ~ C03_unpack_ref_full.
Proof.
  intros H. specialize (H [] noP (VList [VInt 1]) (STupleU [SIntT] (STupleVar SStrT) [SBoolT])).
  vm_compute in H. discriminate H.
Qed.
Print Assumptions C03_unpack_ref_refuted.

Theorem C03_field_unpacker : forall (E: senv) (P: prims) (d: pv) (t: sty) (cbn: bool),
  (cbn = false -> sty_nullable t = true -> is_none d = false) ->
  uk E P d (cu cbn t) = ref_dec_l E P d t.
Proof. intros E P d t cbn. apply uk_cu_ref. Qed.
Print Assumptions C03_field_unpacker.

(* second half of C03: whatever the generated unpacker returns conforms to the annotation
   (every field and element is built from the very class named there; Any unconstrained),
   provided the class table is well formed ([cls_wf]): field names pairwise distinct and the
   declared defaults conform to their fields (a dataclass field whose default is None is
   nullable; a NamedTuple default must itself be an instance of the annotation).
   [C03_well_typed_ord]: TypedDict results moreover have their keys in canonical order. *)
From Verif Require Import TyConform.
Theorem C03_well_typed : forall (E: senv) (P: prims),
  forallb (cls_wf false E) E = true ->
  forall (d: pv) (t: sty) (r: pv), uk E P d (cu true t) = Ok r -> conf E r t = true.
Proof.
  intros E P HD d t r H. rewrite (decode_is_ref E P d t) in H.
  exact (ref_dec_conforms false E P HD d t r H).
Qed.
Print Assumptions C03_well_typed.

Theorem C03_well_typed_ord : forall (E: senv) (P: prims),
  forallb (cls_wf true E) E = true ->
  forall (d: pv) (t: sty) (r: pv), uk E P d (cu true t) = Ok r -> conf_ord E r t = true.
Proof.
  intros E P HD d t r H. rewrite (decode_is_ref E P d t) in H.
  exact (ref_dec_conforms true E P HD d t r H).
Qed.
Print Assumptions C03_well_typed_ord.

(* a str input descends through NamedTuple classes with fuel [List.length E]: the equality above holds
   for every amount of fuel; the fuel cannot run out unless a NamedTuple class reaches itself through
   NamedTuple / container positions *)
Theorem C03_str_input_any_fuel : forall (E: senv) (P: prims) (n: nat) (t: sty) (s: String.string),
  uk_str E P n (cu true t) s = ref_dec_str_l E P n t s.
Proof. intros E P n t s. exact (uk_str_ref E P n t true s). Qed.
Print Assumptions C03_str_input_any_fuel.

(* ... and the fuel [List.length E] is enough on every class table whose NamedTuple reference graph is
   acyclic.  [acyclic E] is a computable check: the depth-bounded ranks of all classes (longest chain of
   NamedTuple classes a str can descend through: list / set / tuple / Optional / NamedTuple positions;
   dataclasses, dicts and TypedDicts stop the descent) computed with depth |E| stay below |E| and do not
   change at depth |E| + 1.  Then no RecursionError comes out, for any type and any str. *)
Theorem C03_str_fuel_sufficient : forall (E: senv) (P: prims),
  acyclic E = true ->
  forall (t: sty) (s: String.string), uk_str E P (List.length E) (cu true t) s <> Exn XRecursion.
Proof. intros E P HA t s. exact (uk_str_no_recursion_acyclic E P HA t true s). Qed.
Print Assumptions C03_str_fuel_sufficient.

(* the same with an explicit rank function instead of the computed one *)
Theorem C03_str_fuel_sufficient_ranked : forall (E: senv) (P: prims) (rk: String.string -> nat),
  (forall c k, sfind E KNamed c = Some k -> forall f, In f k.(sc_fields) -> (need E rk f.(sf_ty) <= rk c)%nat) ->
  forall (t: sty) (s: String.string), (need E rk t <= List.length E)%nat ->
    uk_str E P (List.length E) (cu true t) s <> Exn XRecursion.
Proof. intros E P rk HR t s Hn. exact (uk_str_no_recursion E P rk HR t true s Hn). Qed.
Print Assumptions C03_str_fuel_sufficient_ranked.

(* non-vacuity: NT(a: int, b: Tuple[int, int] = (0, 0), c: int = 7) and
   TD(o: NotRequired[int], r: List[int]) *)
Definition ntE : senv :=
  [ {| sc_kind := KNamed; sc_name := "NT"; sc_fields :=
         [ {| sf_name := "a"; sf_ty := SIntT; sf_default := None; sf_opt := false |};
           {| sf_name := "b"; sf_ty := STupleFix [SIntT; SIntT]; sf_default := Some (VTuple [VInt 0; VInt 0]); sf_opt := false |};
           {| sf_name := "c"; sf_ty := SIntT; sf_default := Some (VInt 7); sf_opt := false |} ] |};
    {| sc_kind := KTyped; sc_name := "TD"; sc_fields :=
         [ {| sf_name := "o"; sf_ty := SIntT; sf_default := None; sf_opt := true |};
           {| sf_name := "r"; sf_ty := SList SIntT; sf_default := None; sf_opt := false |} ] |} ].
Definition ntP : prims := {|
  p_render := fun k w => VStr w; p_parse := fun _ _ => None; p_enum_value := fun _ _ => None; p_enum_of := fun _ _ => None;
  p_b64enc := fun b => b; p_b64dec := fun _ => None;
  p_int := fun v => match v with VStr "1" => Some 1%Z | VStr "2" => Some 2%Z | _ => None end;
  p_float := fun _ => None; p_str := fun _ => None |}.
Definition dec (t: sty) (d: pv) := uk ntE ntP d (cu true t).

(* a short list takes the trailing defaults; surplus items are ignored *)
Example C03_named_defaults :
  forallb (cls_wf false ntE) ntE = true /\
  dec (SNamed "NT") (VList [VInt 1]) = Ok (VNT "NT" [VInt 1; VTuple [VInt 0; VInt 0]; VInt 7]) /\
  dec (SNamed "NT") (VList [VInt 1; VList [VInt 2; VInt 3]]) = Ok (VNT "NT" [VInt 1; VTuple [VInt 2; VInt 3]; VInt 7]) /\
  dec (SNamed "NT") (VList [VInt 1; VList [VInt 2; VInt 3]; VInt 4; VInt 5]) = Ok (VNT "NT" [VInt 1; VTuple [VInt 2; VInt 3]; VInt 4]) /\
  dec (SNamed "NT") (VStr "1") = Ok (VNT "NT" [VInt 1; VTuple [VInt 0; VInt 0]; VInt 7]) /\
  dec (SNamed "NT") (VList []) = Exn XTypeError.                     (* a has no default *)
Proof. repeat (match goal with |- _ /\ _ => split end); vm_compute; reflexivity. Qed.

(* ... but an item that is itself too short is an error, not "input exhausted" (fix 8ccb0df):
   [1, [5], 9] must not become NT(1, (0, 0), 7) *)
Example C03_named_nested_error :
  dec (SNamed "NT") (VList [VInt 1; VList [VInt 5]; VInt 9]) = Exn XIndexError /\
  dec (SNamed "NT") (VStr "123") = Exn XIndexError.
Proof. split; vm_compute; reflexivity. Qed.

(* the example tables pass the acyclicity check; a self-referential NamedTuple (which Python cannot even
   build a codec for) does not, and there the fuel does run out *)
Definition cycE : senv :=
  [ {| sc_kind := KNamed; sc_name := "A"; sc_fields := [ {| sf_name := "b"; sf_ty := SList (SNamed "B"); sf_default := None; sf_opt := false |} ] |};
    {| sc_kind := KNamed; sc_name := "B"; sc_fields := [ {| sf_name := "a"; sf_ty := STupleFix [SNamed "A"]; sf_default := None; sf_opt := false |} ] |} ].
Example C03_acyclic_examples :
  acyclic ntE = true /\
  acyclic [ {| sc_kind := KNamed; sc_name := "O"; sc_fields := [ {| sf_name := "i"; sf_ty := STupleVar (SNamed "NT"); sf_default := None; sf_opt := false |} ] |};
            {| sc_kind := KNamed; sc_name := "NT"; sc_fields := [ {| sf_name := "a"; sf_ty := SIntT; sf_default := None; sf_opt := false |} ] |} ] = true /\
  acyclic cycE = false /\
  uk cycE ntP (VStr "x") (cu true (SNamed "A")) = Exn XRecursion.
Proof. repeat (match goal with |- _ /\ _ => split end); vm_compute; reflexivity. Qed.

(* nested constant expressions: N3(a0: None), N2(a0: N3) and Tuple[Tuple[None], N3] never read their
   input (at any depth, through the class table); ND(a0: None = None) has a default, so N2D(a0: ND) does read *)
Definition cE : senv :=
  [ {| sc_kind := KNamed; sc_name := "N3"; sc_fields := [ {| sf_name := "a0"; sf_ty := SNoneT; sf_default := None; sf_opt := false |} ] |};
    {| sc_kind := KNamed; sc_name := "N2"; sc_fields := [ {| sf_name := "a0"; sf_ty := SNamed "N3"; sf_default := None; sf_opt := false |} ] |};
    {| sc_kind := KNamed; sc_name := "ND"; sc_fields := [ {| sf_name := "a0"; sf_ty := SNoneT; sf_default := Some VNone; sf_opt := false |} ] |};
    {| sc_kind := KNamed; sc_name := "N2D"; sc_fields := [ {| sf_name := "a0"; sf_ty := SNamed "ND"; sf_default := None; sf_opt := false |} ] |};
    {| sc_kind := KTyped; sc_name := "TK"; sc_fields := [ {| sf_name := "k"; sf_ty := SNamed "N2"; sf_default := None; sf_opt := false |} ] |} ].
Example C03_nested_constants :
  uk cE ntP VNone (cu true (SNamed "N2")) = Ok (VNT "N2" [VNT "N3" [VNone]]) /\
  uk cE ntP (VList []) (cu true (SNamed "N2")) = Ok (VNT "N2" [VNT "N3" [VNone]]) /\
  uk cE ntP (VInt 5) (cu true (STupleFix [STupleFix [SNoneT]; SNamed "N3"])) = Ok (VTuple [VTuple [VNone]; VNT "N3" [VNone]]) /\
  uk cE ntP (VInt 5) (cu true (STyped "TK")) = Ok (VDict [(VStr "k", VNT "N2" [VNT "N3" [VNone]])]) /\
  uk cE ntP VNone (cu true (SNamed "N2D")) = Exn XTypeError /\
  uk cE ntP (VList [VInt 5]) (cu true (SNamed "N2D")) = Ok (VNT "N2D" [VNT "ND" [VNone]]).
Proof. repeat (match goal with |- _ /\ _ => split end); vm_compute; reflexivity. Qed.

(* collection unpackers rebuild the canonical concrete classes, from any iterable / mapping input *)
Example C03_collections :
  let box b x := VObj (box_name b) [("", x)] in
  dec (SSeq SIntT) (VTuple [VInt 1; VStr "2"]) = Ok (VList [VInt 1; VInt 2]) /\
  dec (SBox BDeque (SSeq SIntT)) (VStr "12") = Ok (box BDeque (VList [VInt 1; VInt 2])) /\
  dec (SBox BCounter (SMap SStrT SIntT)) (VDict [(VStr "a", VStr "1")]) = Ok (box BCounter (VDict [(VStr "a", VInt 1)])) /\
  dec (SBox BChain (SSeq (SMap SStrT SIntT))) (VList []) = Ok (box BChain (VList [])) /\
  dec (SBox BChain (SSeq (SMap SStrT SIntT))) (VList [VDict []]) = Ok (box BChain (VList [])) /\
  dec (SBox BChain (SSeq (SMap SStrT SIntT))) (VDict [(VStr "a", VInt 1)]) = Exn XAttributeError /\
  dec (SMap SStrT SIntT) (VList []) = Exn XAttributeError /\
  dec (SBox BOrdered (SMap SStrT SIntT)) VNone = Exn XAttributeError.
Proof. cbv zeta. repeat (match goal with |- _ /\ _ => split end); vm_compute; reflexivity. Qed.

(* Literal[1, "a", True, None]: exactly one of the constants, of the very class -- nothing is coerced *)
Example C03_literal :
  let t := SLit [VInt 1; VStr "a"; VBool true; VNone] in
  dec t (VInt 1) = Ok (VInt 1) /\ dec t (VBool true) = Ok (VBool true) /\ dec t VNone = Ok VNone /\
  dec t (VStr "1") = Exn XValueError /\ dec t (VBool false) = Exn XValueError /\
  dec (SLit [VInt 1]) (VBool true) = Exn XValueError /\          (* True == 1, but the class differs *)
  dec t (VFloat (FNum 1 0)) = Exn XValueError /\
  pk ntE ntP (VInt 2) (cp true t) = Exn XValueError.
Proof. cbv zeta. repeat (match goal with |- _ /\ _ => split end); vm_compute; reflexivity. Qed.

Example C03_typed_optional_key :
  dec (STyped "TD") (VDict [(VStr "zz", VNone); (VStr "r", VList [VStr "2"])]) = Ok (VDict [(VStr "r", VList [VInt 2])]) /\
  dec (STyped "TD") (VDict [(VStr "o", VStr "1"); (VStr "r", VList [])]) = Ok (VDict [(VStr "r", VList []); (VStr "o", VInt 1)]) /\
  dec (STyped "TD") (VDict [(VStr "o", VInt 1)]) = Exn XKeyError /\
  dec (STyped "TD") (VList []) = Exn XTypeError.
Proof. repeat (match goal with |- _ /\ _ => split end); vm_compute; reflexivity. Qed.
