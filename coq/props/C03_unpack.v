(* C03: deserialization follows the documented coercions.
   For EVERY input d (arbitrary JSON-like data, not only serializer output), every class
   table and every type of the grammar, the generated unpacker [uk (cu t)] returns exactly
   what the reference decoder [ref_dec] (documented constructor/parser per scalar,
   canonical container with every element converted, surplus tuple items and unknown
   keys ignored, str iterating its characters, dict its keys) returns -- same result,
   and an error exactly when the reference is undefined. *)
From Coq Require Import List String ZArith Bool.
From Verif Require Import Core TyModel TyProofs.
Import ListNotations.

Theorem C03_unpack_ref : forall (E: senv) (P: prims) (d: pv) (t: sty),
  uk E P d (cu true t) = ref_dec E P d t.
Proof. exact decode_is_ref. Qed.
Print Assumptions C03_unpack_ref.

Theorem C03_field_unpacker : forall (E: senv) (P: prims) (d: pv) (t: sty) (cbn: bool),
  (cbn = false -> sty_nullable t = true -> is_none d = false) ->
  uk E P d (cu cbn t) = ref_dec E P d t.
Proof. intros E P d t cbn. apply uk_cu_ref. Qed.
Print Assumptions C03_field_unpacker.

(* second half of C03: whatever the generated unpacker returns conforms to the annotation
   (every field and element is built from the very class named there; Any unconstrained),
   provided the class table's declared defaults conform to their fields *)
From Verif Require Import TyConform.
Theorem C03_well_typed : forall (E: senv) (P: prims),
  forallb (fun c => forallb (default_ok E) c.(sc_fields)) E = true ->
  forall (d: pv) (t: sty) (r: pv), uk E P d (cu true t) = Ok r -> conf E r t = true.
Proof.
  intros E P HD d t r H. rewrite (decode_is_ref E P d t) in H.
  exact (ref_dec_conforms E P HD d t r H).
Qed.
Print Assumptions C03_well_typed.
