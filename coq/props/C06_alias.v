(* C06 (field keys): the schema's alias resolution (K6A, translated from
   jsonschema/schema.py:Instance.alias) equals the serializer's (K4, translated from
   builder.py:__get_field_alias) for all three alias sources: field metadata, then the last
   Annotated Alias, then Config.aliases, then the name. *)
From Coq Require Import List String ZArith Bool.
From Verif Require Import PyK PyK_alias KeyModel KeyImpl KeyProofs K6AProofs.
From VerifGen Require Import K4 K6A.
Import ListNotations.
Open Scope string_scope.

Theorem C06_schema_alias_spec :
  forall (fname: string) (md: kv) (m: option string) (l: list ann) (al: list (string * string)),
    k_dict_get md (KStr "alias") = Ok (enc_ostr m) ->
    schema_alias md (KTuple (map enc_ann l)) (enc_aliases al) (KStr fname)
    = Ok (KStr (key_of (orelse m (orelse (last_alias l) (assoc al fname))) fname)).
Proof. exact schema_alias_spec_thm. Qed.
Print Assumptions C06_schema_alias_spec.

Theorem C06_alias_agrees :
  forall (fname: string) (md anns: kv) (m: option string) (isann: bool) (l: list ann) (al: list (string * string)),
    k_dict_get md (KStr "alias") = Ok (enc_ostr m) ->
    (isann = true -> anns = KTuple (map enc_ann l)) ->
    exists a, get_field_alias (KStr fname) md (KBool isann) anns (enc_aliases al) = Ok (enc_ostr a)
              /\ schema_alias md (KTuple (map enc_ann (if isann then l else []))) (enc_aliases al) (KStr fname)
                 = Ok (KStr (key_of a fname)).
Proof. exact alias_agrees_thm. Qed.
Print Assumptions C06_alias_agrees.

(* non-vacuity: all three sources set with different values; and the Annotated Alias deciding *)
Example C06_alias_nonvacuous :
  schema_alias (KDict [(KStr "alias", KStr "meta_y")]) (KTuple [enc_ann (AAlias "ann_y")]) (enc_aliases [("y", "cfg_y")]) (KStr "y") = Ok (KStr "meta_y")
  /\ schema_alias (KDict []) (KTuple [enc_ann AOther; enc_ann (AAlias "ann_y")]) (enc_aliases [("y", "cfg_y")]) (KStr "y") = Ok (KStr "ann_y")
  /\ schema_alias (KDict []) (KTuple [enc_ann AOther]) (enc_aliases [("y", "cfg_y")]) (KStr "y") = Ok (KStr "cfg_y").
Proof. repeat split; reflexivity. Qed.
