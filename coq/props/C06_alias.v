(* C06 (field keys): the schema's alias resolution (K6A, translated from
   jsonschema/schema.py:Instance.alias) equals the serializer's (K4, translated from
   builder.py:__get_field_alias) -- metadata alias, then Config.aliases, then the name --
   whenever no Annotated Alias decides; with an Annotated Alias it does not (known finding). *)
From Coq Require Import List String ZArith Bool.
From Verif Require Import PyK PyK_alias KeyModel KeyImpl KeyProofs K6AProofs.
From VerifGen Require Import K4 K6A.
Import ListNotations.
Open Scope string_scope.

Theorem C06_schema_alias_spec :
  forall (fname: string) (md: kv) (m: option string) (al: list (string * string)),
    k_dict_get md (KStr "alias") = Ok (enc_ostr m) ->
    schema_alias md (enc_aliases al) (KStr fname) = Ok (KStr (key_of (orelse m (assoc al fname)) fname)).
Proof. exact schema_alias_spec_thm. Qed.
Print Assumptions C06_schema_alias_spec.

Theorem C06_alias_agrees_partial :
  forall (fname: string) (md anns: kv) (m: option string) (isann: bool) (l: list ann) (al: list (string * string)),
    k_dict_get md (KStr "alias") = Ok (enc_ostr m) ->
    (isann = true -> anns = KTuple (map enc_ann l)) ->
    (m <> None \/ isann = false \/ last_alias l = None) ->
    exists a, get_field_alias (KStr fname) md (KBool isann) anns (enc_aliases al) = Ok (enc_ostr a)
              /\ schema_alias md (enc_aliases al) (KStr fname) = Ok (KStr (key_of a fname)).
Proof. exact alias_agrees_thm. Qed.
Print Assumptions C06_alias_agrees_partial.

Theorem C06_annotated_alias_refuted :
  get_field_alias (KStr "x") (KDict []) (KBool true) (KTuple [enc_ann (AAlias "ann_x")]) (enc_aliases []) = Ok (KStr "ann_x")
  /\ schema_alias (KDict []) (enc_aliases []) (KStr "x") = Ok (KStr "x").
Proof. exact annotated_alias_refuted_thm. Qed.
Print Assumptions C06_annotated_alias_refuted.

(* non-vacuity: metadata alias and Config.aliases both set, with different values *)
Example C06_alias_nonvacuous :
  schema_alias (KDict [(KStr "alias", KStr "meta_y")]) (enc_aliases [("y", "cfg_y")]) (KStr "y") = Ok (KStr "meta_y").
Proof. reflexivity. Qed.
