(* C13 - decode side: all six formats apply the same dialect-resolved decode plan (keys, deserializer in
   force, named-tuple mode).  Codec plans and format dialect tables: kernel K13C; merge: K2; read sites: K13. *)
From Coq Require Import List String ZArith Bool.
From Verif Require Import PyK OptProj DialectMerge DialectDoc DialectDecode.
From VerifGen Require Import K2 K13 K13C.
Import ListNotations.
Open Scope string_scope.

(* no format dialect of this run sets namedtuple_as_dict; Dialect.merge (K2) keeps the user's value for it *)
Theorem C13_format_dialects_leave_namedtuple_mode :
  forallb (fun f => match fmt_nd f with U => true | _ => false end) all_fmts = true.
Proof. exact fmt_nd_unset. Qed.
Print Assumptions C13_format_dialects_leave_namedtuple_mode.

Theorem C13_merge_namedtuple_mode :
  forall a b nd, exists r,
    merge_options (KNs (enc_nd a)) (KNs (enc_nd b)) (KNs nd) = Ok (KNs r) /\
    option_of r "namedtuple_as_dict" = enc_t (merge_tri a b).
Proof. exact merge_nd_is_K2. Qed.
Print Assumptions C13_merge_namedtuple_mode.

(* keys read and the named-tuple mode are the basic codec's in every format, whatever the strategies *)
Theorem C13_decode_keys_and_nt_mode :
  forall cls_eff f D usr cfgd cfg ds, In f all_fmts ->
    map (fun e => (fst (fst e), snd e)) (decode_plan cls_eff f D usr cfgd cfg ds) =
    map (fun e => (fst (fst e), snd e)) (decode_plan cls_eff FBasic D usr cfgd cfg ds).
Proof. exact decode_keys_and_nt_mode. Qed.
Print Assumptions C13_decode_keys_and_nt_mode.

Definition C13_same_decode_plan_full := same_decode_plan_full.

Theorem C13_same_decode_plan_partial :
  forall cls_eff f D usr cfgd cfg ds, In f all_fmts ->
    match usr with Some u => dict_nodup u | None => True end ->
    native_free_de cls_eff f usr ds = true ->
    decode_plan cls_eff f D usr cfgd cfg ds = decode_plan cls_eff FBasic D usr cfgd cfg ds.
Proof. exact same_decode_plan_partial. Qed.
Print Assumptions C13_same_decode_plan_partial.

Theorem C13_same_decode_plan_full_refuted : ~ C13_same_decode_plan_full (fun _ => ENone).
Proof. exact same_decode_plan_full_refuted. Qed.
Print Assumptions C13_same_decode_plan_full_refuted.

(* non-vacuity: an aliased int field, a named-tuple field, a datetime field (type 1) with a user deserializer 9;
   D sets namedtuple_as_dict; TOML lists datetime natively, the user's entry is the one in force in every format *)
Example C13_same_decode_plan_nonvacuous :
  let ds := [ {| f_name := "b"; f_alias := Some "bb"; f_ty := 7; f_namedtuple := false |};
              {| f_name := "nt"; f_alias := None; f_ty := 9; f_namedtuple := true |};
              {| f_name := "dt"; f_alias := None; f_ty := 1; f_namedtuple := false |} ] in
  let usr := Some [(1%nat, SDict [("deserialize", 9%nat)])] in
  native_free_de (fun _ => ENone) FToml usr ds = true /\
  decode_plan (fun _ => ENone) FToml (Some T) usr U U ds = [("bb", ENone, false); ("nt", ENone, true); ("dt", EFun 9, false)] /\
  decode_plan (fun _ => ENone) FBasic (Some T) usr U U ds = [("bb", ENone, false); ("nt", ENone, true); ("dt", EFun 9, false)] /\
  decode_plan (fun _ => ENone) FToml (Some T) None U F ds = [("bb", ENone, false); ("nt", ENone, false); ("dt", EStrat 0, false)].
Proof. repeat split; vm_compute; reflexivity. Qed.

(* ---- the remaining option, pack side: no_copy_collections at the default-dialect level ---- *)
Theorem C13_format_no_copy_table :
  map fmt_nc all_fmts = [None; None; None; Some [1; 2]; Some [1; 2]; Some [1; 2]]%nat.
Proof. exact fmt_nc_table. Qed.
Print Assumptions C13_format_no_copy_table.

Theorem C13_no_copy_user_wins : forall f l, codec_nc f (Some (Some l)) = l.
Proof. exact codec_nc_user_wins. Qed.
Print Assumptions C13_no_copy_user_wins.

Theorem C13_no_copy_format_default :
  forall f D, (match D with Some (Some _) => False | _ => True end) ->
    codec_nc f D = match fmt_nc f with Some l => l | None => [] end.
Proof. exact codec_nc_format_default. Qed.
Print Assumptions C13_no_copy_format_default.
