(* C14 - behaviour is independent of compilation timing, call order and threads.
   Model: theories/LazyModel.v (tied to /repo by the vm_compute correspondence of harness/props/c14_coq.py),
   proofs: theories/LazyProofs.v, LazyThreads.v, LazyExamples.v. *)
From Coq Require Import List Arith Bool.
From Verif Require Import LazyModel LazyProofs LazyThreads LazyCheck LazyExamples.
Import ListNotations.

(* invariant "Compiled f => f = compile cls fmt dir dialect": every state reachable from the empty module by
   class definitions in any order (eager / lazy / postponed) and calls is well formed *)
Theorem C14_reachable_wf : forall F d5 fuel h st, wf st ->
  wf (fold_left (fun s o => fst (LazyModel.step F d5 fuel s o)) h st).
Proof. exact reachable_wf. Qed.
Print Assumptions C14_reachable_wf.

(* a call that answers, answers the state-independent meaning [den] of (class, method, dialect, input) *)
Theorem C14_call_state_independent : forall F d5 fuel x st c m d st' o,
  wf st -> call F d5 fuel x st c m d = (st', o) ->
  wf st' /\ (forall t, o = Out t -> t = den F x c m d).
Proof. exact call_den. Qed.
Print Assumptions C14_call_state_independent.

(* history independence, partial: whenever the family under test (any mode, any earlier history) and its
   twin both answer the i-th operation, the answers are equal.  Full statement: LazyExamples.history_full. *)
Theorem C14_history_partial : forall F F' d5 d5' fuel fuel' st st' h i t t',
  same_shape F F' -> wf st -> wf st' ->
  nth_error (LazyModel.run F d5 fuel st h) i = Some (Out t) ->
  nth_error (LazyModel.run F' d5' fuel' st' h) i = Some (Out t') ->
  t = t'.
Proof. exact history_partial. Qed.
Print Assumptions C14_history_partial.

(* the full statement fails in the faithful model (known finding C14/ondemand-build-cycle) *)
Definition C14_history_full : Prop := history_full.
Theorem C14_history_refuted : ~ C14_history_full.
Proof. exact history_refuted. Qed.
Print Assumptions C14_history_refuted.

(* the first call terminates after fix D5: measure = 1 + pending stubs *)
Theorem C14_first_call_terminates : forall F st c m d fuel,
  slot_wf st -> no_cache_stub st -> resolved F st -> m_spec m = 0 ->
  1 + pending st c m <= fuel ->
  dispatch F true fuel st c m d = dispatch F true (1 + pending st c m) st c m d /\
  snd (dispatch F true fuel st c m d) <> DOOF.
Proof. exact first_call_terminates. Qed.
Print Assumptions C14_first_call_terminates.

(* what reverting fix D5 does: lazy_compilation + dialect argument never returns, for every fuel *)
Theorem C14_lazy_dialect_diverges : forall fuel,
  snd (call F_d5 false fuel (V []) (st_d5_a false) 0 to_dict (Some 1)) = OOF.
Proof. exact lazy_dialect_diverges. Qed.
Print Assumptions C14_lazy_dialect_diverges.

(* defects contained in the faithful model (known findings) *)
Theorem C14_lazy_specialisation_diverges :
  (forall fuel, dispatch (F_spec true) true fuel st_spec 0 (MN true 0 false 1) None = (st_spec, DOOF)) /\
  nth_error (LazyModel.run (F_spec true) true FUEL st0 h_spec) 2 = Some OOF /\
  nth_error (LazyModel.run (F_spec false) true FUEL st0 h_spec) 2 =
    Some (Out (Node 1 to_dict None [Node 0 (MN true 0 false 1) None []])).
Proof. split; [exact spec_loop|exact lazy_specialisation_diverges]. Qed.
Print Assumptions C14_lazy_specialisation_diverges.

(* after fix 28d8957: no call fails on a missing dialect cache, in any state / mode / order *)
Theorem C14_no_cache_attribute_error : forall F d5 fuel x st c m d st' o,
  (d <> None -> c_dsup (cls F c) = true) ->
  call F d5 fuel x st c m d = (st', o) -> o <> Exc EAttrCache.
Proof. exact no_cache_attribute_error. Qed.
Print Assumptions C14_no_cache_attribute_error.

Example C14_dialect_first_agrees :
  nth_error (LazyModel.run (F_dial true) true FUEL st0 h_dial) 2 =
    Some (Out (Node 1 to_dict (Some 1) [Node 0 to_dict None []])) /\
  LazyModel.run (F_dial true) true FUEL st0 h_dial = LazyModel.run (F_dial false) true FUEL st0 h_dial.
Proof. exact dialect_first_agrees. Qed.

Example C14_dialect_first_selfref_agrees : forall byname,
  nth_error (LazyModel.run (F_self byname) true FUEL st0 [Define 0; Call 0 to_msgpack (Some 1) (V [(0, V [])])]) 1 =
    Some (Out (Node 0 (MN true 1 false 0) (Some 1) [Node 0 (MN true 1 false 0) (Some 1) []])) /\
  nth_error (LazyModel.run (F_self byname) true FUEL st0
               [Define 0; Call 0 to_msgpack None (V [(0, V [])]); Call 0 to_msgpack (Some 1) (V [(0, V [])])]) 2 =
    Some (Out (Node 0 (MN true 1 false 0) (Some 1) [Node 0 (MN true 1 false 0) (Some 1) []])).
Proof. exact dialect_first_selfref_agrees. Qed.

Theorem C14_build_cycle_diverges :
  nth_error (LazyModel.run (F_cyc false) true FUEL st0 h_cyc) 2 = Some (Exc EBuildCycle) /\
  nth_error (LazyModel.run (F_cyc true) true FUEL st0 h_cyc) 2 = Some (Out (Node 0 to_msgpack None [])).
Proof. exact build_cycle_diverges. Qed.
Print Assumptions C14_build_cycle_diverges.

(* threads (GIL-atomic steps read-attr / compile / setattr / re-dispatch; arbitrary schedule) *)
Theorem C14_schedules_partial : forall (fn res: Type) (compile: fn) (apply: fn -> res) n schedule tid,
  (forall r, nth_error (snd (run_threads fn res compile apply n schedule)) tid = Some (PDone fn res r) -> r = apply compile) /\
  (tid < n -> 4 <= count tid schedule ->
   nth_error (snd (run_threads fn res compile apply n schedule)) tid = Some (PDone fn res (apply compile))).
Proof.
  intros fn res compile apply n schedule tid. split.
  - intros r. apply schedules_safe.
  - apply schedules_live.
Qed.
Print Assumptions C14_schedules_partial.

(* non-vacuity *)
Example C14_history_nonvacuous :
  let h := [Define 0; Define 1; Call 1 to_dict None (V [(0, V [])]); Call 1 from_dict None (V [])] in
  LazyModel.run (F_dial true) true 2 st0 h = LazyModel.run (F_dial false) true 2 st0 h /\
  nth_error (LazyModel.run (F_dial true) true 2 st0 h) 2 = Some (Out (Node 1 to_dict None [Node 0 to_dict None []])).
Proof. exact history_nonvacuous. Qed.

Example C14_terminates_nonvacuous :
  pending (st_d5_a true) 0 to_dict = 1 /\
  snd (call F_d5 true 2 (V []) (st_d5_a true) 0 to_dict (Some 1)) = Out (Node 0 to_dict (Some 1) []).
Proof. split; vm_compute; reflexivity. Qed.

Example C14_schedules_nonvacuous :
  (* two threads interleaved: both compile, both install, both return the eager result *)
  snd (run_threads nat nat 7 (fun f => f + 1) 2 [0; 1; 0; 1; 0; 1; 0; 1]) = [PDone nat nat 8; PDone nat nat 8].
Proof. reflexivity. Qed.
