(* C14 - behaviour is independent of compilation timing, call order and threads.
   Model: theories/LazyModel.v (tied to /repo by the vm_compute correspondence of harness/props/c14_coq.py),
   proofs: theories/LazyProofs.v, LazyThreads.v, LazyExamples.v. *)
From Coq Require Import List Arith Bool.
From Verif Require Import LazyModel LazyProofs LazyThreads LazyCheck LazyExamples.
Import ListNotations.

(* Invariant of every state reachable from the empty module by class definitions in any order (eager / lazy /
   postponed) and public calls:  wf ("Compiled f => f = compile cls fmt dir dialect") AND complete (every compiled
   body only calls nested methods that the nested class itself owns).  Domain: selfref_unspec F (a class with a
   position of its own type is never specialised); public calls go to methods the class owns (ok_hist). *)
Theorem C14_reachable_inv : forall F d5 fuel, selfref_unspec F -> forall h st, LazyProofs.inv F st -> ok_hist F d5 fuel st h ->
  LazyProofs.inv F (fold_left (fun s o => fst (LazyModel.step F d5 fuel s o)) h st).
Proof. exact reachable_inv. Qed.
Print Assumptions C14_reachable_inv.

(* with inheritance and run-time lookup through the MRO: in a reachable state a call on a class that owns the
   method reaches THE code generated for (that class, method, dialect) - a subclass never silently runs the code
   compiled for its parent *)
Theorem C14_no_inherited_code : forall F d5 fuel, selfref_unspec F -> forall st c m d st' r,
  LazyProofs.inv F st -> present st c m -> name_ok F c m ->
  dispatch F d5 fuel st c m d = (st', r) ->
  LazyProofs.inv F st' /\ mono st st' /\ (forall k, r = DRun k -> k = code_of c m d /\ stored st' c m d k).
Proof. exact dispatch_inv. Qed.
Print Assumptions C14_no_inherited_code.

(* a call that answers, answers the state-independent meaning [den] of (class, method, dialect, input) *)
Theorem C14_call_state_independent : forall F d5 fuel, selfref_unspec F -> forall x st c m d st' o,
  LazyProofs.inv F st -> present st c m -> name_ok F c m -> call F d5 fuel x st c m d = (st', o) ->
  LazyProofs.inv F st' /\ mono st st' /\ (forall t, o = Out t -> t = den F x c m d).
Proof. exact call_den. Qed.
Print Assumptions C14_call_state_independent.

(* history independence, partial: whenever the family under test (any mode, any earlier history, with inheritance)
   and its twin both answer the i-th operation, the answers are equal.  Full statement: LazyExamples.history_full. *)
Theorem C14_history_partial : forall F F' d5 d5' fuel fuel' st st' h i t t',
  same_shape F F' -> selfref_unspec F -> LazyProofs.inv F st -> LazyProofs.inv F' st' ->
  ok_hist F d5 fuel st h -> ok_hist F' d5' fuel' st' h ->
  nth_error (LazyModel.run F d5 fuel st h) i = Some (Out t) ->
  nth_error (LazyModel.run F' d5' fuel' st' h) i = Some (Out t') ->
  t = t'.
Proof. exact history_partial. Qed.
Print Assumptions C14_history_partial.

(* the full statement fails in the faithful model (known finding C14/ondemand-build-cycle) *)
Definition C14_history_full : Prop := history_full.
Theorem C14_history_refuted : ~ C14_history_full.
Proof. exact history_refuted. Qed.
Print Assumptions C14_history_refuted.

(* the first call terminates after fix D5: measure = 1 + pending stubs *)
Theorem C14_first_call_terminates : forall F st c m d fuel,
  slot_wf st -> no_cache_stub st -> resolved F st -> get_slot st c m <> None ->
  1 + pending st c m <= fuel ->
  dispatch F true fuel st c m d = dispatch F true (1 + pending st c m) st c m d /\
  snd (dispatch F true fuel st c m d) <> DOOF.
Proof. exact first_call_terminates. Qed.
Print Assumptions C14_first_call_terminates.

(* what reverting fix D5 does: lazy_compilation + dialect argument never returns, for every fuel *)
Theorem C14_lazy_dialect_diverges : forall fuel,
  snd (call F_d5 false fuel (V []) (st_d5_a false) 0 to_dict (Some 1)) = OOF.
Proof. exact lazy_dialect_diverges. Qed.
Print Assumptions C14_lazy_dialect_diverges.

(* a lazy generic class used as G[int]: the stub rebuilds the specialised method (was a known finding) *)
Example C14_lazy_specialisation_agrees :
  LazyModel.run (F_spec true) true FUEL st0 h_spec = LazyModel.run (F_spec false) true FUEL st0 h_spec /\
  nth_error (LazyModel.run (F_spec true) true FUEL st0 h_spec) 2 =
    Some (Out (Node 1 to_dict None [Node 0 (MN true 0 false 1) None []])).
Proof. exact lazy_specialisation_agrees. Qed.

(* after fix 28d8957: no call fails on a missing dialect cache, in any state / mode / order *)
Theorem C14_no_cache_attribute_error : forall F d5 fuel x st c m d st' o,
  (d <> None -> c_dsup (cls F c) = true) ->
  call F d5 fuel x st c m d = (st', o) -> o <> Exc EAttrCache.
Proof. exact no_cache_attribute_error. Qed.
Print Assumptions C14_no_cache_attribute_error.

Example C14_dialect_first_agrees :
  nth_error (LazyModel.run (F_dial true) true FUEL st0 h_dial) 2 =
    Some (Out (Node 1 to_dict (Some 1) [Node 0 to_dict None []])) /\
  LazyModel.run (F_dial true) true FUEL st0 h_dial = LazyModel.run (F_dial false) true FUEL st0 h_dial.
Proof. exact dialect_first_agrees. Qed.

Example C14_dialect_first_selfref_agrees : forall byname,
  nth_error (LazyModel.run (F_self byname) true FUEL st0 [Define 0; Call 0 to_msgpack (Some 1) (V [(0, V [])])]) 1 =
    Some (Out (Node 0 (MN true 1 false 0) (Some 1) [Node 0 (MN true 1 false 0) (Some 1) []])) /\
  nth_error (LazyModel.run (F_self byname) true FUEL st0
               [Define 0; Call 0 to_msgpack None (V [(0, V [])]); Call 0 to_msgpack (Some 1) (V [(0, V [])])]) 2 =
    Some (Out (Node 0 (MN true 1 false 0) (Some 1) [Node 0 (MN true 1 false 0) (Some 1) []])).
Proof. exact dialect_first_selfref_agrees. Qed.

Theorem C14_build_cycle_diverges :
  nth_error (LazyModel.run (F_cyc false) true FUEL st0 h_cyc) 2 = Some (Exc EBuildCycle) /\
  nth_error (LazyModel.run (F_cyc true) true FUEL st0 h_cyc) 2 = Some (Out (Node 0 to_msgpack None [])).
Proof. exact build_cycle_diverges. Qed.
Print Assumptions C14_build_cycle_diverges.

(* threads (GIL-atomic steps read-attr / compile / setattr / re-dispatch; arbitrary schedule) *)
Theorem C14_schedules_partial : forall (fn res: Type) (compile: fn) (apply: fn -> res) n schedule tid,
  (forall r, nth_error (snd (run_threads fn res compile apply n schedule)) tid = Some (PDone fn res r) -> r = apply compile) /\
  (tid < n -> 4 <= count tid schedule ->
   nth_error (snd (run_threads fn res compile apply n schedule)) tid = Some (PDone fn res (apply compile))).
Proof.
  intros fn res compile apply n schedule tid. split.
  - intros r. apply schedules_safe.
  - apply schedules_live.
Qed.
Print Assumptions C14_schedules_partial.

(* several method slots, every thread running a sequence of calls over them (nested calls of one public call, or
   several public calls): whatever the interleaving, every obtained result is the eager one *)
Theorem C14_schedules_multi_slot_partial : forall (fn res: Type) (compile: nat -> fn) (apply: fn -> res)
    nslots progs schedule t s r,
  Forall (Forall (fun s => s < nslots)) progs ->
  In t (snd (mrun fn res compile apply (minit fn res nslots progs) schedule)) -> In (s, r) (out fn res t) ->
  r = apply (compile s).
Proof. exact multi_slot_safe. Qed.
Print Assumptions C14_schedules_multi_slot_partial.

Example C14_multi_slot_nonvacuous :
  (* two slots, two threads calling them in opposite orders, interleaved step by step *)
  map (out nat nat) (snd (mrun nat nat (fun i => 10 * i) (fun f => f + 1) (minit nat nat 2 [[0; 1]; [1; 0]])
                            [0; 1; 0; 1; 0; 1; 0; 1; 0; 1; 0; 1; 0; 1; 0; 1])) =
  [[(0, 1); (1, 11)]; [(1, 11); (0, 1)]].
Proof. vm_compute. reflexivity. Qed.

(* non-vacuity *)
Example C14_history_nonvacuous :
  let h := [Define 0; Define 1; Call 1 to_dict None (V [(0, V [])]); Call 1 from_dict None (V [])] in
  LazyModel.run (F_dial true) true 2 st0 h = LazyModel.run (F_dial false) true 2 st0 h /\
  nth_error (LazyModel.run (F_dial true) true 2 st0 h) 2 = Some (Out (Node 1 to_dict None [Node 0 to_dict None []])) /\
  ok_hist (F_dial true) true 2 st0 h /\ ok_hist (F_dial false) true 2 st0 h.
Proof. exact history_nonvacuous. Qed.

(* inheritance in the model: reachable states keep the subclass' own method; a state without it runs the parent's *)
Example C14_inheritance_nonvacuous :
  nth_error (LazyModel.run F_inh true FUEL st0 h_inh) 3 =
    Some (Out (Node 2 to_msgpack None [Node 1 (MN true 1 false 0) None [Node 0 (MN true 1 false 0) None []]])) /\
  snd (call F_inh true FUEL (V [(0, V [])]) st_parent_only 1 (MN true 1 false 0) None) =
    Out (Node 0 (MN true 1 false 0) None []).
Proof. split; [exact inherited_lookup_reachable|exact (proj1 mro_fallback_runs_parent_code)]. Qed.

Example C14_terminates_nonvacuous :
  pending (st_d5_a true) 0 to_dict = 1 /\
  snd (call F_d5 true 2 (V []) (st_d5_a true) 0 to_dict (Some 1)) = Out (Node 0 to_dict (Some 1) []).
Proof. split; vm_compute; reflexivity. Qed.

Example C14_schedules_nonvacuous :
  (* two threads interleaved: both compile, both install, both return the eager result *)
  snd (run_threads nat nat 7 (fun f => f + 1) 2 [0; 1; 0; 1; 0; 1; 0; 1]) = [PDone nat nat 8; PDone nat nat 8].
Proof. reflexivity. Qed.
