(* C08 - kernel K17 = CodeBuilder.is_field_nullable translated from /repo on this run: the model's
   notion of a nullable field (the fields omit_none acts on) is the translated predicate. *)
From Coq Require Import List String ZArith Bool.
From Verif Require Import PyK PyK_c08 OptProj K17Proofs.
From VerifGen Require Import K17.
Import ListNotations.
Open Scope string_scope.

(* for every field type of the grammar fty (arbitrarily deep Annotated / Final wrapping) and every
   kind of default: is_field_nullable = OptProj.nullable *)
Theorem K17_nullable : forall (p: fplan),
  is_field_nullable (enc_default p.(p_default)) (enc_fty p.(p_ty)) = Ok (KBool (nullable p)).
Proof. exact K17_nullable_lemma. Qed.
Print Assumptions K17_nullable.

(* non-vacuity: Final[Annotated[Optional[...], ...]] and Union[A, B, None] are nullable,
   a plain type only with default None *)
Example K17_nullable_example :
  is_field_nullable KMissing (enc_fty (TyFinal (TyAnnotated TyOptional))) = Ok (KBool true) /\
  is_field_nullable KMissing (enc_fty TyUnionNone) = Ok (KBool true) /\
  is_field_nullable KMissing (enc_fty TyPlain) = Ok (KBool false) /\
  is_field_nullable KNone (enc_fty TyPlain) = Ok (KBool true).
Proof. repeat split; reflexivity. Qed.

(* ---- declared types: fields of generic classes (type variables) ----
   full statement: for EVERY declared type d (type expressions, variables bound by the specialisation, bounded
   variables left unbound, under any Annotated / Final wrapping) and every default, the translated predicate on d
   equals the model's `nullable` of the plan carrying the RESOLVED type -- what OptProj.to_dict_model uses.
   It holds on the computable domain dty_ok (every variable is bound by the specialisation to a type mashumaro
   compiles, or is the unconstrained variable) ... *)
Theorem K17_nullable_declared_partial : forall (p: fplan) (d: dty), dty_ok d = true ->
  is_field_nullable (enc_default p.(p_default)) (enc_dty d) = Ok (KBool (nullable (with_ty p (resolve d)))).
Proof. exact K17_nullable_declared_lemma. Qed.
Print Assumptions K17_nullable_declared_partial.

(* ... and is refuted outside it by TypeVar("B", bound=Optional[int]) left unbound (known finding
   C08/omit-none-typevar-bound) *)
Theorem K17_bound_refuted :
  ~ (forall (p: fplan) (d: dty),
       is_field_nullable (enc_default p.(p_default)) (enc_dty d) = Ok (KBool (nullable (with_ty p (resolve d))))).
Proof. exact K17_bound_refuted_lemma. Qed.
Print Assumptions K17_bound_refuted.

(* non-vacuity: G[Optional[int]].gv (T bound to Optional), Annotated[T, ...] with T bound to a wide union,
   T bound to Any are nullable; T bound to int is not; the unconstrained variable is (was the defect of
   /repo before 4da7e9e: the first three evaluated to false) *)
Example K17_declared_example :
  is_field_nullable KMissing (enc_dty (DVar TyOptional)) = Ok (KBool true) /\
  is_field_nullable KMissing (enc_dty (DAnnotated (DVar TyUnionNone))) = Ok (KBool true) /\
  is_field_nullable KMissing (enc_dty (DFinal (DVar TyAny))) = Ok (KBool true) /\
  is_field_nullable KMissing (enc_dty (DVar TyPlain)) = Ok (KBool false) /\
  is_field_nullable KMissing (enc_dty (DTy TyTypeVarAny)) = Ok (KBool true) /\
  dty_ok (DAnnotated (DVar TyUnionNone)) = true.
Proof. repeat split; reflexivity. Qed.
