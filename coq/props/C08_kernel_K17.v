(* C08 - kernel K17 = CodeBuilder.is_field_nullable translated from /repo on this run: the model's
   notion of a nullable field (the fields omit_none acts on) is the translated predicate. *)
From Coq Require Import List String ZArith Bool.
From Verif Require Import PyK PyK_c08 OptProj K17Proofs.
From VerifGen Require Import K17.
Import ListNotations.
Open Scope string_scope.

(* for every field type of the grammar fty (arbitrarily deep Annotated / Final wrapping) and every
   kind of default: is_field_nullable = OptProj.nullable *)
Theorem K17_nullable : forall (p: fplan),
  is_field_nullable (enc_default p.(p_default)) (enc_fty p.(p_ty)) = Ok (KBool (nullable p)).
Proof. exact K17_nullable_lemma. Qed.
Print Assumptions K17_nullable.

(* non-vacuity: Final[Annotated[Optional[...], ...]] and Union[A, B, None] are nullable,
   a plain type only with default None *)
Example K17_nullable_example :
  is_field_nullable KMissing (enc_fty (TyFinal (TyAnnotated TyOptional))) = Ok (KBool true) /\
  is_field_nullable KMissing (enc_fty TyUnionNone) = Ok (KBool true) /\
  is_field_nullable KMissing (enc_fty TyPlain) = Ok (KBool false) /\
  is_field_nullable KNone (enc_fty TyPlain) = Ok (KBool true).
Proof. repeat split; reflexivity. Qed.
