(* C14: generic specialisations are keyed injectively (kernel K11 translated from /repo on every run; the K11
   plugin fails closed unless hash_type_args is md5(",".join(map(type_name, type_args))).hexdigest()). *)
From Coq Require Import List String Bool.
From Verif Require Import Regex PyK PyK_names K11Proofs SpecKey LazyK11.
From VerifGen Require Import K11.
Import ListNotations.
Open Scope string_scope.

(* two specialisations (non-empty argument lists, rendered names without ",") of one class, format and
   direction get the same generated method name only if their ordered lists of rendered names are equal;
   md5 is a parameter assumed collision free and hex valued *)
Theorem C14_spec_key_inj : forall (md5: string -> string),
  (forall s, hexstr (md5 s) = true) -> (forall a b, md5 a = md5 b -> a = b) ->
  forall d f names1 names2 ta1 ta2 n,
    In f all_formats -> ta1 <> [] -> ta2 <> [] ->
    forallb comma_free names1 = true -> forallb comma_free names2 = true -> names1 <> [] -> names2 <> [] ->
    mname d (md5 (join names1)) ta1 f KNone = Ok n ->
    mname d (md5 (join names2)) ta2 f KNone = Ok n ->
    names1 = names2.
Proof. exact spec_key_inj. Qed.
Print Assumptions C14_spec_key_inj.

Theorem C14_join_inj : forall l1 l2,
  forallb comma_free l1 = true -> forallb comma_free l2 = true -> l1 <> [] -> l2 <> [] ->
  join l1 = join l2 -> l1 = l2.
Proof. exact join_inj. Qed.
Print Assumptions C14_join_inj.

Example C14_spec_key_nonvacuous :
  join ["int"; "str"] <> join ["str"; "int"] /\ join ["c14aux_a.Tag"] <> join ["c14aux_b.Tag"] /\
  forallb comma_free ["typing.List[int]"; "c14aux_a.Tag"] = true.
Proof. repeat split; cbn; discriminate. Qed.

(* the nested method name (no codec) differs from the compiling builder's own name exactly for a top-level format
   method (non-"dict" format with an encoder / decoder): the fifth argument of kernel K114b's on-demand test is the
   model's m_top *)
Theorem C14_enc_name_differs_iff : forall d h ta f c,
  In f all_formats -> hexstr h = true ->
  (mname d h ta f c <> mname d h ta f KNone <-> (f <> default_format_name /\ has_codec c = true)).
Proof. exact enc_name_differs_iff. Qed.
Print Assumptions C14_enc_name_differs_iff.
