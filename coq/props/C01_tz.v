(* C01 (timezone leaf): serializer output for every whole-minute offset parses back. *)
From Coq Require Import ZArith String.
From Verif Require Import PyK TzName K1Proofs.
From VerifGen Require Import K1.
Open Scope Z_scope.

Theorem C01_timezone : forall m, -1440 < m < 1440 ->
  parse_timezone (KStr (tzname m)) = Ok (KTz m).
Proof. exact parse_timezone_tzname. Qed.
Print Assumptions C01_timezone.

(* hypotheses are met by non-trivial instances *)
Example C01_timezone_nonvacuous : -1440 < -30 < 1440 /\ tzname (-30) = "UTC-00:30"%string.
Proof. split; [split; reflexivity | reflexivity]. Qed.
