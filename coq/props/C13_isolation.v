(* C13 - isolation of dialect calls (state machine of the per-class dialect caches). *)
From Coq Require Import List String ZArith Bool.
From Verif Require Import PyK DialectCache.

Import ListNotations.
Open Scope string_scope.
Open Scope nat_scope.

(* ---- isolation: every generator `compile`, every hierarchy `ancestors`, every history ---- *)
Theorem C13_isolation :
  forall (code: Type) (compile: nat -> option nat -> code) (ancestors: nat -> list nat)
         (ops: list op) (i c: nat) (d: option nat),
    nth_error ops i = Some (Call c d) ->
    In (Define c) (firstn i ops) ->
    nth_error (outs compile ancestors true (init) ops) i = Some (Some (compile c d)).
Proof. exact (@isolation). Qed.
Print Assumptions C13_isolation.

Theorem C13_default_unaltered :
  forall (code: Type) (compile: nat -> option nat -> code) (ancestors: nat -> list nat)
         (own: bool) (ops: list op) (s: state) (c: nat),
    forallb is_call ops = true ->
    c_default (final compile ancestors own s ops c) = c_default (s c).
Proof. exact (@default_unaltered). Qed.
Print Assumptions C13_default_unaltered.

(* why the cache must be created in the class's OWN namespace *)
Theorem C13_shared_cache_refuted :
  exists (h: list (nat * list nat)) (ops: list op) i c d,
    nth_error ops i = Some (Call c d) /\ In (Define c) (firstn i ops) /\
    nth_error (outs tcompile (anc_of h) false init ops) i <> Some (Some (tcompile c d)).
Proof. exact shared_cache_refuted. Qed.
Print Assumptions C13_shared_cache_refuted.

(* a history on a 3-level hierarchy where the hypotheses of C13_isolation hold at a call
   that follows calls with other dialects on the parent and the child *)
Example C13_isolation_nonvacuous :
  let h := [(1, [0]); (2, [1; 0])] in
  let ops := [Define 0; Define 1; Define 2; Call 1 (Some 5); Call 0 (Some 6); Call 2 None; Call 0 (Some 5)] in
  nth_error ops 6 = Some (Call 0 (Some 5)) /\ In (Define 0) (firstn 6 ops) /\
  outs tcompile (anc_of h) true init ops =
    [None; None; None; Some (1, Some 5); Some (0, Some 6); Some (2, None); Some (0, Some 5)].
Proof. split; [reflexivity|]. split; [left; reflexivity|]. vm_compute. reflexivity. Qed.

