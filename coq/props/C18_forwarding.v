(* C18: the call dialect reaches a nested dataclass (and with it that class's effective no_copy_collections) exactly
   when the generated nested call passes `dialect=dialect`: kernel K8 (get_pack_method_flags, translated on this run). *)
From Coq Require Import List String Bool.
From Verif Require Import PyK PyK_c08 OptProj K8Proofs ShareK8.
From VerifGen Require Import K8.
From Verif Require Share.
Import ListNotations.
Open Scope string_scope.

Theorem C18_dialect_forwarding_is_source :
  forall (E: Share.env) (N: list Share.origin) (hsup: bool) (c: nat) (a b: flags),
  a.(g_dl) = hsup -> b.(g_dl) = Share.c_sup (Share.e_ct E c) ->
  get_pack_method_flags (enc_flags a) (enc_flags b) = Ok (KStr (String.concat ", " (flag_args (both a b)))) /\
  exists fw, Share.cp E N hsup (Share.TDC c) = Share.ICall c fw /\
             (fw = true <-> In "dialect=dialect" (flag_args (both a b))).
Proof. exact forwarding_is_source. Qed.
Print Assumptions C18_dialect_forwarding_is_source.
