(* C02: serialization emits exactly the documented basic form.
   Statement over the type-level model (TyModel.v: the generator's decisions [cp] and
   their interpreter [pk], tied to /repo by vm_compute correspondence on every run):
   for every class table, every type of the grammar, every conforming value, at any
   depth, the generated packer -- with its optimisations (copy instead of comprehension,
   elided None tests, identity packers) -- returns what the README-level reference
   encoder returns. *)
From Coq Require Import List String ZArith Bool.
From Verif Require Import Core TyModel TyProofs.
Import ListNotations.

Theorem C02_pack_ref : forall (E: senv) (P: prims) (v: pv) (t: sty),
  conf E v t = true -> pk E P v (cp true t) = ref_enc E P v t.
Proof. exact encode_is_ref. Qed.
Print Assumptions C02_pack_ref.

(* field positions: could_be_none = false elides the None test of an Optional; sound
   because the field loop has dealt with None before calling the packer *)
Theorem C02_field_packer : forall (E: senv) (P: prims) (v: pv) (t: sty) (cbn: bool),
  conf E v t = true -> (cbn = false -> sty_nullable t = true -> is_none v = false) ->
  pk E P v (cp cbn t) = ref_enc E P v t.
Proof. intros E P v t cbn. apply pk_cp_ref. Qed.
Print Assumptions C02_field_packer.

(* non-vacuity: a nested, recursive instance conforms and is packed *)
Definition exE : senv :=
  [ {| sc_name := "D"; sc_fields := [ {| sf_name := "a"; sf_ty := SList SIntT; sf_default := None |};
                                       {| sf_name := "n"; sf_ty := SOpt (SData "D"); sf_default := Some VNone |} ] |} ].
Definition exV : pv := VObj "D" [("a", VList [VInt 1; VInt 2]); ("n", VObj "D" [("a", VList []); ("n", VNone)])].
Example C02_nonvacuous : conf exE exV (SData "D") = true.
Proof. vm_compute. reflexivity. Qed.

(* first sentence of C02: only str/int/float/bool/None/list/dict (scalar keys) come out
   whenever the schema has no Any leaf; the documented renderings being text or numbers and
   enum values scalars are hypotheses about the stdlib environment *)
From Verif Require Import TyBasic.
Theorem C02_basic : forall (E: senv) (P: prims),
  forallb (fun c => forallb (fun f => jsonable f.(sf_ty)) c.(sc_fields)) E = true ->
  (forall k w, scalar_basic (P.(p_render) k w) = true) ->
  (forall e m val, P.(p_enum_value) e m = Some val -> scalar_basic val = true) ->
  forall (v: pv) (t: sty) (w: pv),
    conf E v t = true -> jsonable t = true -> pk E P v (cp true t) = Ok w -> basic w = true.
Proof.
  intros E P H1 H2 H3 v t w HC HJ Hpk. rewrite (encode_is_ref E P v t HC) in Hpk.
  exact (ref_enc_basic E P H1 H2 H3 v t w HC HJ Hpk).
Qed.
Print Assumptions C02_basic.
