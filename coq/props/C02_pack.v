(* C02: serialization emits exactly the documented basic form.
   Statement over the type-level model (TyModel.v: the generator's decisions [cp] and
   their interpreter [pk], tied to /repo by vm_compute correspondence on every run):
   for every class table, every type of the grammar, every conforming value, at any
   depth, the generated packer -- with its optimisations (copy instead of comprehension,
   elided None tests, identity packers) -- returns what the README-level reference
   encoder returns. *)
From Coq Require Import List String ZArith Bool.
From Verif Require Import Core TyModel TyProofs.
Import ListNotations.

Theorem C02_pack_ref : forall (E: senv) (P: prims) (v: pv) (t: sty),
  conf E v t = true -> pk E P v (cp true t) = ref_enc E P v t.
Proof. exact (encode_is_ref false). Qed.
Print Assumptions C02_pack_ref.

(* field positions: could_be_none = false elides the None test of an Optional; sound
   because the field loop has dealt with None before calling the packer *)
Theorem C02_field_packer : forall (E: senv) (P: prims) (v: pv) (t: sty) (cbn: bool),
  conf E v t = true -> (cbn = false -> sty_nullable t = true -> is_none v = false) ->
  pk E P v (cp cbn t) = ref_enc E P v t.
Proof. intros E P v t cbn. apply (pk_cp_ref false). Qed.
Print Assumptions C02_field_packer.

(* non-vacuity: a nested, recursive instance conforms and is packed *)
Definition exE : senv :=
  [ {| sc_kind := KData; sc_name := "D"; sc_fields := [ {| sf_name := "a"; sf_ty := SList SIntT; sf_default := None; sf_opt := false |};
                                       {| sf_name := "n"; sf_ty := SOpt (SData "D"); sf_default := Some VNone; sf_opt := false |} ] |} ].
Definition exV : pv := VObj "D" [("a", VList [VInt 1; VInt 2]); ("n", VObj "D" [("a", VList []); ("n", VNone)])].
Example C02_nonvacuous : conf exE exV (SData "D") = true.
Proof. vm_compute. reflexivity. Qed.

(* non-vacuity for NamedTuple / TypedDict: a NamedTuple instance (with a defaulted field) holding a
   TypedDict whose optional key comes first in the value: it conforms (in any key order), and
   the packer emits the list form / the required-then-optional key order *)
Definition ntE : senv :=
  [ {| sc_kind := KNamed; sc_name := "NT"; sc_fields :=
         [ {| sf_name := "a"; sf_ty := SIntT; sf_default := None; sf_opt := false |};
           {| sf_name := "b"; sf_ty := STupleFix [SIntT; SIntT]; sf_default := Some (VTuple [VInt 0; VInt 0]); sf_opt := false |};
           {| sf_name := "c"; sf_ty := STyped "TD"; sf_default := Some (VDict [(VStr "r", VList [])]); sf_opt := false |} ] |};
    {| sc_kind := KTyped; sc_name := "TD"; sc_fields :=
         [ {| sf_name := "o"; sf_ty := SIntT; sf_default := None; sf_opt := true |};
           {| sf_name := "r"; sf_ty := SList SIntT; sf_default := None; sf_opt := false |} ] |} ].
Definition ntP : prims := {|
  p_render := fun k w => VStr w; p_parse := fun _ _ => None; p_enum_value := fun _ _ => None; p_enum_of := fun _ _ => None;
  p_b64enc := fun b => b; p_b64dec := fun _ => None; p_int := fun _ => None; p_float := fun _ => None; p_str := fun _ => None |}.
Definition ntV : pv :=
  VNT "NT" [VInt 1; VTuple [VInt 2; VInt 3]; VDict [(VStr "o", VInt 9); (VStr "r", VList [VInt 4]); (VStr "zz", VNone)]].
Definition ntV' : pv :=
  VNT "NT" [VInt 1; VTuple [VInt 2; VInt 3]; VDict [(VStr "o", VInt 9); (VStr "r", VList [VInt 4])]].
Example C02_named_typed_nonvacuous :
  conf ntE ntV' (SNamed "NT") = true /\
  conf ntE ntV (SNamed "NT") = false /\          (* an undeclared key does not conform *)
  pk ntE ntP ntV' (cp true (SNamed "NT")) =
    Ok (VList [VInt 1; VList [VInt 2; VInt 3]; VDict [(VStr "r", VList [VInt 4]); (VStr "o", VInt 9)]]) /\
  pk ntE ntP (VDict [(VStr "r", VList [])]) (cp true (STyped "TD")) = Ok (VDict [(VStr "r", VList [])]) /\   (* optional key absent *)
  (exists e, pk ntE ntP (VDict [(VStr "o", VInt 1)]) (cp true (STyped "TD")) = Exn e).                         (* required key absent *)
Proof.
  repeat (match goal with |- (_ = _) /\ _ => split; [vm_compute; reflexivity|] end).
  eexists. vm_compute. reflexivity.
Qed.

(* tuples with an unpacked segment: Tuple[int, Unpack[Tuple[str, ...]], bool] and Tuple[int, Unpack[Tuple[str, int]], bool] *)
Example C02_unpacked_tuple :
  let tv := STupleU [SIntT] (STupleVar SStrT) [SBoolT] in
  let tf := STupleU [SIntT] (STupleFix [SStrT; SIntT]) [SBoolT] in
  conf [] (VTuple [VInt 1; VStr "a"; VStr "b"; VBool true]) tv = true /\
  conf [] (VTuple [VInt 1; VBool true]) tv = true /\
  conf [] (VTuple [VInt 1]) tv = false /\
  conf [] (VTuple [VInt 1; VStr "a"; VInt 2; VBool true]) tf = true /\
  conf [] (VTuple [VInt 1; VStr "a"; VBool true]) tf = false /\
  pk [] ntP (VTuple [VInt 1; VStr "a"; VStr "b"; VBool true]) (cp true tv) = Ok (VList [VInt 1; VStr "a"; VStr "b"; VBool true]) /\
  pk [] ntP (VTuple [VInt 1; VStr "a"; VInt 2; VBool true]) (cp true tf) = Ok (VList [VInt 1; VStr "a"; VInt 2; VBool true]).
Proof. cbv zeta. repeat (match goal with |- _ /\ _ => split end); vm_compute; reflexivity. Qed.

(* first sentence of C02: only str/int/float/bool/None/list/dict (scalar keys) come out
   whenever the schema has no Any leaf; the documented renderings being text or numbers and
   enum values scalars are hypotheses about the stdlib environment *)
From Verif Require Import TyBasic.
Theorem C02_basic : forall (E: senv) (P: prims),
  forallb (fun c => forallb (fun f => jsonable f.(sf_ty)) c.(sc_fields)) E = true ->
  (forall k w, scalar_basic (P.(p_render) k w) = true) ->
  (forall e m val, P.(p_enum_value) e m = Some val -> scalar_basic val = true) ->
  forall (v: pv) (t: sty) (w: pv),
    conf E v t = true -> jsonable t = true -> pk E P v (cp true t) = Ok w -> basic w = true.
Proof.
  intros E P H1 H2 H3 v t w HC HJ Hpk. rewrite (encode_is_ref false E P v t HC) in Hpk.
  exact (ref_enc_basic false E P H1 H2 H3 v t w HC HJ Hpk).
Qed.
Print Assumptions C02_basic.
