(* C02 / kernel K45a: the TypedDict packer of the model is the helper pack_typed_dict emits
   ([k45a_pack_lines] translated from /repo on every run; semantics of the statements: TdEmit.run_td_lines):
   required keys first (value[key]), then the optional keys present (value.get(key, MISSING)), declaration order,
   every value packed with could_be_none = True. *)
From Coq Require Import List String ZArith Bool.
From Verif Require Import Core TyModel TyProofs TdEmit K45aProofs.
From VerifGen Require Import K45a.
Import ListNotations.

Definition has_key_with (p: sfield -> bool) (fds: list sfield) (n: String.string) : bool :=
  existsb (fun f => String.eqb f.(sf_name) n && p f) fds.

Lemma has_key_with_nodup (p: sfield -> bool) fds : names_nodup fds = true ->
  forall f, In f fds -> has_key_with p fds f.(sf_name) = p f.
Proof.
  unfold has_key_with. induction fds as [|g rest IH]; intros Hnd f Hf; [destruct Hf|].
  cbn [names_nodup] in Hnd. apply andb_prop in Hnd. destruct Hnd as [Hng Hnd]. apply negb_true_iff in Hng.
  cbn [existsb]. destruct Hf as [Hf|Hf].
  - subst g. rewrite String.eqb_refl. cbn [andb]. destruct (p f); [reflexivity|]. cbn [orb].
    apply not_true_is_false. intros Hx. apply existsb_exists in Hx. destruct Hx as [h [Hh Hx]].
    apply andb_prop in Hx. destruct Hx as [Hx _]. rewrite String.eqb_sym in Hx.
    rewrite (names_nodup_notin f rest h Hng Hh) in Hx. discriminate Hx.
  - rewrite (names_nodup_notin g rest f Hng Hf). cbn [andb orb]. apply (IH Hnd f Hf).
Qed.

Theorem C02_typed_code_is_model : forall (E: senv) (P: prims) (c: String.string) (k: scls) (kvs: list (pv * pv)),
  sfind E KTyped c = Some k -> names_nodup k.(sc_fields) = true ->
  pk E P (VDict kvs) (cp true (STyped c)) =
    (r <- run_td_lines (fun f (dx: penc -> res pv) => dx (cp true f.(sf_ty))) (fun _ => None) XKeyError (find_field k.(sc_fields))
                       (map (fun p => match p with (key, x) => (key, pk E P x) end) kvs)
                       (k45a_pack_lines (map sf_name k.(sc_fields))
                                        (has_key_with (fun f => negb f.(sf_opt)) k.(sc_fields))
                                        (has_key_with (fun f => f.(sf_opt)) k.(sc_fields))) ;;
     Ok (VDict r)).
Proof.
  intros E P c k kvs Ef Hnd. cbn [cp]. rewrite pk_unfold. rewrite Ef.
  rewrite k45a_pack_is_td_go; [reflexivity | exact Hnd | |]; apply has_key_with_nodup; exact Hnd.
Qed.
Print Assumptions C02_typed_code_is_model.
