(* C07 — absent keys take defaults, present keys always win.
   Model: theories/Bind.v (generated from_dict restricted to argument binding + dataclass __init__),
   proofs: theories/BindProofs.v.  Every theorem is for all conversion functions [conv], all layouts
   (lists of members in type-hint order, any length), all input dicts and all allocation counters. *)
From Coq Require Import List String ZArith Bool Arith.
From Verif Require Import Bind BindProofs PyK BindK4.
From Verif Require OptProj K17Proofs BindK17.
From VerifGen Require K4 K17.
Import ListNotations.
Open Scope string_scope.
Open Scope nat_scope.

(* ---- the full statement: on every layout Python accepts, the generated from_dict equals the
        reference semantics (the first field in declaration order whose required key is absent or whose
        present value cannot be converted -> MissingField / InvalidFieldValue of that field, else present ->
        converted value, absent -> default / fresh factory result) ---- *)
Definition C07_binding_full : Prop := forall conv nba st L d c,
  layout_ok L = true -> decode conv nba st L d c = ref_decode conv nba L d c.

(* proved where the builder's view of the class agrees with what @dataclass made of it *)
Theorem C07_binding_partial : forall conv nba st L d c,
  layout_ok L = true -> view_ok L = true -> decode conv nba st L d c = ref_decode conv nba L d c.
Proof. exact decode_ref. Qed.
Print Assumptions C07_binding_partial.

(* ... which is always the case when the builder runs after @dataclass and all hinted members are fields *)
Theorem C07_binding_post : forall conv nba st L d c,
  layout_ok L = true -> (forall m, In m L -> post_coherent m) ->
  decode conv nba st L d c = ref_decode conv nba L d c.
Proof. exact decode_ref_post. Qed.
Print Assumptions C07_binding_post.

(* the same, spelled out per field *)
Theorem C07_binding : forall conv nba st L d c,
  layout_ok L = true -> view_ok L = true -> first_error conv nba L d = None ->
  exists a c', decode conv nba st L d c = OOk a c' /\ c <= c' /\
    forall m, In m L -> m_kind m = KNormal -> m_field m = true -> m_param m = true ->
      match rd nba m d with
      | Some v => exists w, eff_conv conv m v = Some w /\ attr_of (m_name m) a = Some (Some w)
      | None =>
          match m_def m with
          | DVal v => attr_of (m_name m) a = Some (Some v)
          | DFac => exists n, c <= n < c' /\ attr_of (m_name m) a = Some (Some (PFresh n))
          | DNone => False
          end
      end.
Proof. exact binding. Qed.
Print Assumptions C07_binding.

(* the first failing field decides; in particular an absent required key gives MissingField and a present
   value whose conversion raises (e.g. null for a non-nullable int) gives InvalidFieldValue, never a default *)
Theorem C07_error : forall conv nba st L d c e,
  layout_ok L = true -> view_ok L = true -> first_error conv nba L d = Some e ->
  decode conv nba st L d c = outcome_of_err e.
Proof. exact error. Qed.
Print Assumptions C07_error.

(* an explicit null for a nullable field (by type or by default None) overrides the default *)
Theorem C07_null_wins : forall conv nba st L d c m,
  layout_ok L = true -> view_ok L = true -> first_error conv nba L d = None ->
  In m L -> m_kind m = KNormal -> m_field m = true -> m_param m = true ->
  tnullable m = true -> rd nba m d = Some PNone ->
  exists a c', decode conv nba st L d c = OOk a c' /\ attr_of (m_name m) a = Some (Some PNone).
Proof. exact null_wins. Qed.
Print Assumptions C07_null_wins.

(* key lemma: the positional arguments of the emitted call are a prefix of __init__'s positional parameters *)
Theorem C07_positional_prefix : forall conv nba st L d pl,
  forallb view_okm L = true -> forallb kind_ok L = true -> pos_ok false L = true ->
  plan conv nba st L false false d = inr pl ->
  exists k, map fst (selmap tname sel_pos pl) = firstn k (map m_name (pos_params L)).
Proof. exact pos_prefix. Qed.
Print Assumptions C07_positional_prefix.

(* a key that no hinted init field reads is never read: in particular the name of a ClassVar, InitVar,
   KW_ONLY marker or init=False member (unless some field has it as alias) changes nothing.
   No hypothesis on the layout. *)
Theorem C07_noninit_unread : forall conv nba st L d c k v,
  (forall m, In m L -> filtered m = true -> ~ In k (keys_of nba m)) ->
  decode conv nba st L ((k, v) :: d) c = decode conv nba st L d c.
Proof. exact noninit_unread. Qed.
Print Assumptions C07_noninit_unread.

(* the sticky in_kwargs flag of the assembly loop is not needed on layouts Python accepts: the variant of
   the generator that resets it per block (seeded change C07-1) decodes identically -- an equivalent mutant *)
Theorem C07_sticky_irrelevant : forall conv nba L d c,
  layout_ok L = true -> view_ok L = true ->
  decode conv nba false L d c = decode conv nba true L d c.
Proof. exact sticky_irrelevant. Qed.
Print Assumptions C07_sticky_irrelevant.

(* factory-made objects of one result carry exactly the labels c..c'-1; two results share none *)
Theorem C07_factory_fresh : forall conv nba st L d1 d2 c a1 c1 a2 c2,
  layout_ok L = true -> view_ok L = true ->
  (forall f v w, conv f v = Some w -> basic w = true) -> input_basic d1 = true -> input_basic d2 = true ->
  defaults_basic L = true ->
  decode conv nba st L d1 c = OOk a1 c1 -> decode conv nba st L d2 c1 = OOk a2 c2 ->
  NoDup (labels a1 ++ labels a2).
Proof. exact fresh_two. Qed.
Print Assumptions C07_factory_fresh.

(* ---- refutations: the faithful model contains the two known findings ---- *)
Definition idconv (_: string) (v: pv) : option pv := Some v.
(* int(value) on the small domain used in the examples *)
Definition intconv (_: string) (v: pv) : option pv :=
  match v with PInt z => Some (PInt z) | PFloat z => Some (PInt z) | _ => None end.

(* class C0(Mixin): x: int = 5      class C1(C0): x: int      compiled in __init_subclass__ *)
Definition kf_override : layout :=
  [ {| m_name := "x"; m_kind := KNormal; m_field := true; m_param := true; m_kw := false;
       m_def := DVal (PInt 5);
       m_anc := Some {| bf_def := DVal (PInt 5); bf_init := true; bf_kw := Some false |};
       m_own := true; m_ns := NsNone; m_df := None; m_nullty := false; m_ident := false; m_alias := None; m_unull := false |} ].

Theorem C07_binding_refuted : ~ C07_binding_full.
Proof.
  intro H. specialize (H idconv false true kf_override [] 0 eq_refl). vm_compute in H. discriminate.
Qed.
Print Assumptions C07_binding_refuted.

Example kf_override_model :
  layout_ok kf_override = true /\ view_ok kf_override = false /\
  decode idconv false true kf_override [] 0 = OMissing "x" /\
  ref_decode idconv false kf_override [] 0 = OOk [("x", Some (PInt 5))] 0.
Proof. repeat split; reflexivity. Qed.

(* class P0: p: int = 3      @dataclass class C0(P0, Mixin): x: int = 1 *)
Definition kf_plain_base : layout :=
  [ {| m_name := "p"; m_kind := KNormal; m_field := false; m_param := false; m_kw := false;
       m_def := DVal (PInt 3); m_anc := None; m_own := false; m_ns := NsNone; m_df := None;
       m_nullty := false; m_ident := false; m_alias := None; m_unull := false |};
    {| m_name := "x"; m_kind := KNormal; m_field := true; m_param := true; m_kw := false;
       m_def := DVal (PInt 1); m_anc := None; m_own := true; m_ns := NsValue (PInt 1); m_df := None;
       m_nullty := false; m_ident := false; m_alias := None; m_unull := false |} ].

Definition C07_noninit_full : Prop := forall conv nba st L d c m0 v,
  layout_ok L = true -> In m0 L -> m_param m0 = false ->
  (forall m, In m L -> m_alias m = None) ->
  decode conv nba st L ((m_name m0, v) :: d) c = decode conv nba st L d c.

Theorem C07_noninit_refuted_plain_base : ~ C07_noninit_full.
Proof.
  intro H.
  specialize (H idconv false true kf_plain_base [] 0 _ (PInt 1) eq_refl (or_introl eq_refl) eq_refl).
  assert (Ha: forall m, In m kf_plain_base -> m_alias m = None) by (intros m [<-|[<-|[]]]; reflexivity).
  specialize (H Ha).
  vm_compute in H. discriminate.
Qed.
Print Assumptions C07_noninit_refuted_plain_base.

Example kf_plain_base_model :
  decode idconv false true kf_plain_base [] 0 = OMissing "p" /\
  decode idconv false true kf_plain_base [("p", PInt 1)] 0 = OTypeError.
Proof. split; reflexivity. Qed.

(* ---- non-vacuity: a layout with every feature is in the domain of the theorems, and the
        generated call really mixes positional, keyword and **kwargs arguments ---- *)
(* class A: a: int; iv: InitVar[int] = 0; cv: ClassVar = 9; _: KW_ONLY; b: Optional[int];
            c: List = field(default_factory=list); ni: int = field(default=4, init=False); e: int = None
   seen after @dataclass (codec path) *)
Definition pf (d: dflt) (i k: bool) := Some {| bf_def := d; bf_init := i; bf_kw := Some k |}.
Definition demo : layout :=
  [ Build_member "a" KNormal true true false DNone None true NsNone (pf DNone true false) false false None false;
    Build_member "iv" KInitVar false true false (DVal (PInt 0)) None true (NsValue (PInt 0)) (pf (DVal (PInt 0)) true false) false false None false;
    Build_member "cv" KClassVar false false false (DVal (PInt 9)) None true (NsValue (PInt 9)) None false false None false;
    Build_member "_" KSentinel false false false DNone None true NsNone None false false None false;
    Build_member "b" KNormal true true true DNone None true NsNone (pf DNone true true) true false None false;
    Build_member "c" KNormal true true true DFac None true NsNone (pf DFac true true) false false None false;
    Build_member "ni" KNormal true false true (DVal (PInt 4)) None true (NsValue (PInt 4)) (pf (DVal (PInt 4)) false true) false false None false;
    Build_member "e" KNormal true true true (DVal PNone) None true (NsValue PNone) (pf (DVal PNone) true true) false false None false ].

Example C07_nonvacuous :
  layout_ok demo = true /\ view_ok demo = true /\
  (forall m, In m demo -> post_coherent m) /\
  first_error idconv false demo [("a", PInt 1); ("b", PNone); ("e", PNone); ("ni", PInt 77); ("cv", PInt 78)] = None /\
  decode idconv false true demo [("a", PInt 1); ("b", PNone); ("e", PNone); ("ni", PInt 77); ("cv", PInt 78)] 3 =
    OOk [("a", Some (PInt 1)); ("iv", Some (PInt 0)); ("cv", Some (PInt 9)); ("_", None);
         ("b", Some PNone); ("c", Some (PFresh 3)); ("ni", Some (PInt 4)); ("e", Some PNone)] 4 /\
  first_error idconv false demo [("a", PInt 1)] = Some (EMissing "b").
Proof.
  split; [reflexivity|]. split; [reflexivity|]. split; [|repeat split; reflexivity].
  intros m Hi. unfold post_coherent. cbn in Hi.
  repeat (destruct Hi as [<-|Hi]; [cbn; intros Hk; try discriminate Hk; split; reflexivity|]).
  contradiction.
Qed.

(* the emitted call for [demo]: one positional, one keyword argument, the rest through **kwargs *)
Example C07_nonvacuous_call :
  match plan idconv false true demo false false [("a", PInt 1); ("b", PInt 2); ("c", PList []); ("e", PInt 5)] with
  | inr pl => pos_of pl = [PInt 1] /\ kws_of pl = [("b", PInt 2)]
              /\ kwargs_of pl = [("c", PList []); ("e", PInt 5)]
  | inl _ => False
  end.
Proof. vm_compute. repeat split. Qed.

(* ---- the defaults spectrum: an explicit null beats a falsy non-None default, a truthy default and a
        None default alike, for converting and identity unpackers (instances of C07_null_wins) ----
   class S: r: Optional[float] = 0.0; s: Optional[str] = ""; t: Optional[int] = 7; u: Optional[int] = None;
            v: Any = 0 (identity unpacker); w: int = None (nullable only through its default) *)
Definition spectrum : layout :=
  [ Build_member "r" KNormal true true false (DVal (PFloat 0)) None true (NsValue (PFloat 0)) (pf (DVal (PFloat 0)) true false) true false None false;
    Build_member "s" KNormal true true false (DVal (PStr "")) None true (NsValue (PStr "")) (pf (DVal (PStr "")) true false) true false None false;
    Build_member "t" KNormal true true false (DVal (PInt 7)) None true (NsValue (PInt 7)) (pf (DVal (PInt 7)) true false) true false None false;
    Build_member "u" KNormal true true false (DVal PNone) None true (NsValue PNone) (pf (DVal PNone) true false) true false None false;
    Build_member "v" KNormal true true false (DVal (PInt 0)) None true (NsValue (PInt 0)) (pf (DVal (PInt 0)) true false) true true None false;
    Build_member "w" KNormal true true false (DVal PNone) None true (NsValue PNone) (pf (DVal PNone) true false) false false None false ].

Example C07_null_beats_any_default :
  layout_ok spectrum = true /\ view_ok spectrum = true /\
  decode idconv false true spectrum [("r", PNone); ("s", PNone); ("t", PNone); ("u", PNone); ("v", PNone); ("w", PNone)] 0 =
    OOk [("r", Some PNone); ("s", Some PNone); ("t", Some PNone); ("u", Some PNone); ("v", Some PNone); ("w", Some PNone)] 0 /\
  decode idconv false true spectrum [] 0 =
    OOk [("r", Some (PFloat 0)); ("s", Some (PStr "")); ("t", Some (PInt 7)); ("u", Some PNone);
         ("v", Some (PInt 0)); ("w", Some PNone)] 0 /\
  (* falsy present values beat truthy defaults as well *)
  decode idconv false true spectrum [("t", PInt 0); ("v", PBool false)] 0 =
    OOk [("r", Some (PFloat 0)); ("s", Some (PStr "")); ("t", Some (PInt 0)); ("u", Some PNone);
         ("v", Some (PBool false)); ("w", Some PNone)] 0.
Proof. repeat split; reflexivity. Qed.

(* ---- alias keys and wrapped Optionals (instances of C07_binding / C07_null_wins) ----
   class K: x: Optional[int] = field(default=10, metadata=field_options(alias="al"))
            w: Annotated[Optional[int], "meta"] = 0         (the field block sees a non-nullable type) *)
Definition aliased : layout :=
  [ Build_member "x" KNormal true true false (DVal (PInt 10)) None true (NsValue (PInt 10)) (pf (DVal (PInt 10)) true false) true false (Some "al") false;
    Build_member "w" KNormal true true false (DVal (PInt 0)) None true (NsValue (PInt 0)) (pf (DVal (PInt 0)) true false) false false None true ].

Example C07_alias_null_and_wrapped :
  layout_ok aliased = true /\ view_ok aliased = true /\
  (* allow_deserialization_not_by_alias: a null under the alias key is present and wins over the by-name key *)
  decode idconv true true aliased [("al", PNone); ("x", PInt 7); ("w", PNone)] 0 =
    OOk [("x", Some PNone); ("w", Some PNone)] 0 /\
  decode idconv true true aliased [("x", PInt 7)] 0 = OOk [("x", Some (PInt 7)); ("w", Some (PInt 0))] 0 /\
  (* without the option the field name is not a key of the field *)
  decode idconv false true aliased [("x", PInt 7)] 0 = OOk [("x", Some (PInt 10)); ("w", Some (PInt 0))] 0 /\
  decode idconv false true aliased [("al", PNone)] 0 = OOk [("x", Some PNone); ("w", Some (PInt 0))] 0.
Proof. repeat split; reflexivity. Qed.

(* ---- (T) the key rule of the model is the translated source (kernel K4, regenerated every run) ---- *)
Theorem C07_keys_are_code : forall nba m,
  K4.key_plan (KBool nba) (alias_kv m) (KStr (m_name m)) = Ok (KTuple (map KStr (keys_of nba m))).
Proof. exact keys_of_kernel. Qed.
Print Assumptions C07_keys_are_code.

Theorem C07_first_key_wins : forall nba m d, rd nba m d = first_hit (keys_of nba m) d.
Proof. exact rd_first_hit. Qed.
Print Assumptions C07_first_key_wins.

(* ---- conversion failures (instances of C07_error): a null for a non-nullable int field, whatever its
        default, and an unconvertible value raise InvalidFieldValue for that field; an earlier missing
        required key is reported first ---- *)
(* class V: q: int; x: int = 0; y: Optional[int] = 0 *)
Definition invalids : layout :=
  [ Build_member "q" KNormal true true false DNone None true NsNone (pf DNone true false) false false None false;
    Build_member "x" KNormal true true false (DVal (PInt 0)) None true (NsValue (PInt 0)) (pf (DVal (PInt 0)) true false) false false None false;
    Build_member "y" KNormal true true false (DVal (PInt 0)) None true (NsValue (PInt 0)) (pf (DVal (PInt 0)) true false) true false None false ].

Example C07_invalid_values :
  layout_ok invalids = true /\ view_ok invalids = true /\
  decode intconv false true invalids [("q", PInt 1); ("x", PNone)] 0 = OInvalid "x" /\
  decode intconv false true invalids [("q", PInt 1); ("x", PStr "abc")] 0 = OInvalid "x" /\
  decode intconv false true invalids [("x", PNone)] 0 = OMissing "q" /\
  decode intconv false true invalids [("q", PNone); ("x", PNone)] 0 = OInvalid "q" /\
  decode intconv false true invalids [("q", PFloat 4); ("y", PNone)] 0 =
    OOk [("q", Some (PInt 4)); ("x", Some (PInt 0)); ("y", Some PNone)] 0.
Proof. repeat split; reflexivity. Qed.

(* ---- (T) the nullability test of the field block is the translated source (kernel K17 =
        CodeBuilder.is_field_nullable, regenerated every run): for a member whose m_nullty is what the
        translated code computes from the shape t of its type hint, the translated code applied to t and to
        the default the builder sees returns exactly Bind.nullable ---- *)
Theorem C07_nullable_is_code : forall (m: member) (t: OptProj.fty),
  m_nullty m = BindK17.nullty_code t ->
  K17.is_field_nullable (K17Proofs.enc_default (BindK17.odflt (seen_default m))) (K17Proofs.enc_fty t)
  = Ok (KBool (nullable m)).
Proof. exact BindK17.nullable_is_code. Qed.
Print Assumptions C07_nullable_is_code.

(* Annotated[...] and Final[...] are seen through, a PEP 695 alias / NewType / bound TypeVar is not *)
Example C07_nullable_shapes :
  BindK17.nullty_code (OptProj.TyAnnotated (OptProj.TyFinal OptProj.TyOptional)) = true /\
  BindK17.nullty_code OptProj.TyUnionNone = true /\ BindK17.nullty_code OptProj.TyAny = true /\
  BindK17.nullty_code (OptProj.TyAnnotated OptProj.TyPlain) = false /\ BindK17.nullty_code OptProj.TyPlain = false.
Proof. repeat split; reflexivity. Qed.

(* ---- (T) defaults and argument assembly are the translated source (kernel K107a = CodeBuilder.get_field_default,
        the in_kwargs flag of FieldUnpackerCodeBlockBuilder.build, and the bodies of the two loops of
        _add_unpack_method_lines that skip init=False fields, detect kw_only and sort the fields into
        pos_args / kw_args / **kwargs; regenerated every run) ---- *)
From Verif Require BindK107a.
From VerifGen Require K107a.

(* the default the field block works with: get_field_default run on the Field the builder finds (or on the class
   namespace) is MISSING exactly when the model says "no default", None exactly when the model says "default None";
   the block is passed through **kwargs exactly when it has a default *)
Theorem C07_default_is_code : forall m,
  (exists v,
     K107a.get_field_default (BindK107a.enc_field (dc_field m)) (BindK107a.enc_ns (m_ns m)) KNone (KBool false) = Ok v
     /\ k_is v KMissing = negb (has_dflt (seen_default m))
     /\ k_is v KNone = dflt_is_none (seen_default m))
  /\ BindK107a.code_in_kwargs m = Ok (KBool (has_dflt (seen_default m))).
Proof. intros m. split; [exact (BindK107a.default_is_code m)|exact (BindK107a.in_kwargs_is_code m)]. Qed.
Print Assumptions C07_default_is_code.

(* the translated loops, run over ANY layout with unique member names the way _add_unpack_method_lines runs them
   (BindK107a.code_assembly), compute: **kwargs is passed iff some field has a default; kw_args / pos_args are, in
   order, the names that BindK107a.passing_of marks keyword / positional; that marking is the one of the model's
   generated from_dict (Bind.plan): whenever no field block raises, the non-skipped fields are passed exactly so.
   `st` is the variant of the in_kwargs flag that the translated loop body implements: sticky (true: the code as
   it is) or reset per block (false: seeded change C07-1); both decode identically on the domain, so an equivalent
   rewrite of that flag keeps this theorem provable while any other change of the loops breaks it *)
Theorem C07_assembly_is_code : exists st,
  (forall L, nodupb (map m_name L) = true ->
     BindK107a.code_assembly L =
     Ok (KTuple [KBool (existsb (fun x => BindK107a.is_kwargs (snd x)) (BindK107a.passing_of st L));
                 BindK107a.enc_names (BindK107a.names_with BindK107a.is_kw (BindK107a.passing_of st L));
                 BindK107a.enc_names (BindK107a.names_with BindK107a.is_pos (BindK107a.passing_of st L))]))
  /\ (forall conv nba L d pl,
        plan conv nba st L false false d = inr pl ->
        filter (fun x => negb (BindK107a.is_skip (snd x))) (map (fun t => (fst (fst t), snd (fst t))) pl)
        = BindK107a.passing_of st L)
  /\ (forall conv nba L d c, layout_ok L = true -> view_ok L = true ->
        decode conv nba st L d c = decode conv nba true L d c).
Proof. exact BindK107a.assembly_is_code. Qed.
Print Assumptions C07_assembly_is_code.

(* one pass of the translated assembly loop body, as a statement about the source: a block with a default goes to
   **kwargs (neither list grows), otherwise the name is appended to kw_args iff it is in kw_only_fields or the
   flag is set (variant st), else to pos_args *)
Theorem C07_arg_step_is_code : exists st, BindK107a.arg_step_spec st.
Proof. exact BindK107a.arg_step_is_code. Qed.
Print Assumptions C07_arg_step_is_code.

(* one pass of the translated kw_only detection: an init=False field is dropped and leaves the state alone; a kept
   field is keyword-only iff missing_kw_only is already set, or its Field is missing / has no processed kw_only
   (which also sets missing_kw_only for all later fields), or kw_only is true *)
Theorem C07_kw_step_is_code : forall m mk S,
  K107a.kw_step (BindK107a.enc_field (dc_field m)) (KStr (m_name m)) (KBool mk) (BindK107a.enc_names S) =
  let kwo := mk || match seen_kw m with Some b => b | None => true end in
  let mk' := mk || match seen_kw m with None => true | Some _ => false end in
  Ok (KTuple [KBool (seen_init m);
              KBool (if seen_init m then mk' else mk);
              BindK107a.enc_names (if seen_init m && kwo && negb (mem (m_name m) S) then S ++ [m_name m] else S)]).
Proof. exact BindK107a.kw_step_is_code. Qed.
Print Assumptions C07_kw_step_is_code.

(* non-vacuity: required a, init=False e, kw_only b, defaulted c, kw_only d -> cls(__a, b=__b, d=__d, **kwargs) *)
Example C07_assembly_example :
  BindK107a.code_assembly BindK107a.ex_layout
  = Ok (KTuple [KBool true; BindK107a.enc_names ["b"; "d"]; BindK107a.enc_names ["a"]])
  /\ BindK107a.names_with BindK107a.is_kwargs (BindK107a.passing_of true BindK107a.ex_layout) = ["c"].
Proof. split; vm_compute; reflexivity. Qed.

(* ---- (T) the field block is the translated source (kernel K107b = FieldUnpackerCodeBlockBuilder.build with
        _set_value / _try_set_value, regenerated every run, returning the emitted lines as a tree of the templates of
        the source's string literals): the block that the translated build emits for a member - for its default as
        get_field_default returns it (K107a), its nullability (K17), identity or converting unpacker expression, alias
        and allow_deserialization_not_by_alias - run by the interpreter of the emitted Python subset
        (BindK107b.run: reads of d, tests against MISSING / None, raise MissingField, try / bare except ->
        InvalidFieldValue, assignment to __f / kwargs['f']) does exactly what Bind.field_block says, for every member
        and every input.  build is run on two uninterpreted names (BindK107b.FNAME / ALIAS); a read under them is the
        lookup of the member's name / alias ---- *)
From Verif Require BindK107b.
Theorem C07_field_block_is_code : forall conv nba m d,
  BindK107b.run_block conv nba m d = Some (field_block conv nba m d).
Proof. exact BindK107b.field_block_is_code. Qed.
Print Assumptions C07_field_block_is_code.

(* non-vacuity: the emitted block of a nullable, converting field with default 0 read under alias or name
   (allow_deserialization_not_by_alias) has 3 top-level statements; null under the alias key wins over the name key
   and over the default; an absent key leaves kwargs alone; a value the unpacker rejects raises InvalidFieldValue *)
Example C07_field_block_example :
  let run gn ga := BindK107b.run_block_of true true false true (DVal (PInt 0)) gn ga
                     (fun v => match v with PInt z => Some (PInt z) | _ => None end) in
  (exists b, BindK107b.code_block_of true true false true (DVal (PInt 0)) = Ok (KList b) /\ List.length b = 3)
  /\ run (Some (PInt 7)) (Some PNone) = Some (FbSet PNone)
  /\ run (Some (PInt 7)) None = Some (FbSet (PInt 7))
  /\ run None None = Some FbSkip
  /\ run None (Some (PStr "x")) = Some FbInvalid.
Proof. cbv zeta. split; [eexists; split; vm_compute; reflexivity|]. repeat split; vm_compute; reflexivity. Qed.
