(* C07 — absent keys take defaults, present keys always win.
   Model: theories/Bind.v (generated from_dict restricted to argument binding + dataclass __init__),
   proofs: theories/BindProofs.v.  All theorems are for every conversion function [conv],
   every layout, every input dict and every allocation counter. *)
From Coq Require Import List String ZArith Bool Arith.
From Verif Require Import Bind BindProofs.
Import ListNotations.
Open Scope string_scope.

(* members that the builder does not treat as init fields (ClassVar, InitVar, KW_ONLY marker,
   init=False) are never read: putting a key of that name into the input changes nothing *)
Theorem C07_noninit_unread : forall conv L d c m0 v,
  NoDup (map m_name L) -> In m0 L -> filtered m0 = false ->
  decode conv L ((m_name m0, v) :: d) c = decode conv L d c.
Proof. exact noninit_unread. Qed.
Print Assumptions C07_noninit_unread.
