(* C13 - the same dialect means the same logical document in every format.
   Document model: OptProj.to_dict_model (C08).  Codec plans, format dialect tables and cache names: kernel
   K13C; merge: K2; method names: K11. *)
From Coq Require Import List String ZArith Bool.
From Verif Require Import PyK OptProj DialectMerge DialectDoc K11Proofs.
From VerifGen Require Import K2 K11 K13 K13C.
Import ListNotations.
Open Scope string_scope.

(* every codec class either hands default_dialect on unchanged or merges it INTO its format dialect *)
Theorem C13_codec_plans :
  map fmt_dialect_name all_fmts =
    [Some None; Some None; Some None; Some (Some "OrjsonDialect"); Some (Some "MessagePackDialect"); Some (Some "TOMLDialect")].
Proof. vm_compute. reflexivity. Qed.
Print Assumptions C13_codec_plans.

(* Dialect.merge as translated on this run is merge_ns on the option lattice of the document model *)
Theorem C13_merge_is_model :
  forall a b nd, exists r,
    merge_options (KNs (enc_dialect a)) (KNs (enc_dialect b)) (KNs nd) = Ok (KNs r) /\
    option_of r "omit_none" = enc_t (merge_ns a b).(n_on) /\
    option_of r "omit_default" = enc_t (merge_ns a b).(n_od) /\
    option_of r "serialize_by_alias" = enc_t (merge_ns a b).(n_ba).
Proof. exact merge_ns_is_K2. Qed.
Print Assumptions C13_merge_is_model.

(* formats whose own dialect sets no option (on this run: all but TOML): for every class, options,
   field plans and values the document is the basic codec's document *)
Theorem C13_same_document_silent :
  forall f D o fs vs, silent f = true -> codec_doc f D o fs vs = codec_doc FBasic D o fs vs.
Proof. exact same_document_silent. Qed.
Print Assumptions C13_same_document_silent.

Theorem C13_silent_formats : map silent all_fmts = [true; true; true; true; true; false].
Proof. exact silent_formats. Qed.
Print Assumptions C13_silent_formats.

(* TOML: the document of the basic codec for "D on top of omit_none = True" *)
Theorem C13_same_document_toml :
  forall D o fs vs, codec_doc FToml D o fs vs = codec_doc FBasic (force_on D) o fs vs.
Proof. exact same_document_toml. Qed.
Print Assumptions C13_same_document_toml.

(* an option the user's dialect sets is the one in force at the default-dialect level of every format *)
Theorem C13_codec_user_option_wins :
  forall f d g, In g [n_on; n_od; n_ba] -> g d <> U -> sel g (codec_dd f (Some d)) = g d.
Proof. exact codec_dd_user_wins. Qed.
Print Assumptions C13_codec_user_option_wins.

(* values included: full statement, what holds, and the witness *)
Definition C13_same_document_full := same_document_full.

Theorem C13_same_document_partial :
  forall (builtin: nat -> pv -> pv) (builtin_trivial: nat -> bool) (app: nat -> pv -> pv) (cls_eff: nat -> eff)
         f D usr o ds raws,
    match usr with Some u => dict_nodup u | None => True end ->
    native_free cls_eff f usr ds = true ->
    codec_document builtin builtin_trivial app cls_eff f D usr o ds raws =
    codec_document builtin builtin_trivial app cls_eff FBasic (on_top_of f D) usr o ds raws.
Proof. exact same_document_partial. Qed.
Print Assumptions C13_same_document_partial.

Theorem C13_same_document_full_refuted :
  ~ C13_same_document_full w_builtin (fun _ => false) (fun _ v => v) (fun _ => ENone).
Proof. exact same_document_full_refuted. Qed.
Print Assumptions C13_same_document_full_refuted.

(* one dialect cache per class, format and direction *)
Theorem C13_cache_names_injective :
  forall u1 f1 u2 f2, In f1 mixin_formats -> In f2 mixin_formats ->
    cache_name u1 f1 = cache_name u2 f2 -> u1 = u2 /\ f1 = f2.
Proof. exact cache_names_injective. Qed.
Print Assumptions C13_cache_names_injective.

(* ... and one default method per format and direction (kernel K11) *)
Theorem C13_method_names_separate :
  forall d1 d2 h1 h2 ta1 ta2 f1 f2 c1 c2 n,
    In f1 all_formats -> In f2 all_formats -> hexstr h1 = true -> hexstr h2 = true ->
    mname d1 h1 ta1 f1 c1 = Ok n -> mname d2 h2 ta2 f2 c2 = Ok n -> d1 = d2 /\ f1 = f2.
Proof.
  intros. destruct (method_names_injective d1 d2 h1 h2 ta1 ta2 f1 f2 c1 c2 n) as [A [B _]]; auto.
Qed.
Print Assumptions C13_method_names_separate.

(* ---- non-vacuity: a class with an Optional field holding None, an aliased field and a datetime field;
        D = {serialize_by_alias: True} and a user strategy for datetime (type 1, callable 9) ---- *)
Definition ex_ds : list fdecl :=
  [ {| d_plan := mk_plan "a" None true (DVal PNone); d_ty := 0 |};
    {| d_plan := mk_plan "b" (Some "bb") false (DVal (PInt 1)); d_ty := 0 |};
    {| d_plan := mk_plan "dt" None false DNo; d_ty := 1 |} ].
Definition ex_D : option ns := Some {| n_on := U; n_od := U; n_ba := T |}.
Definition ex_usr : option smap := Some [(1%nat, SDict [("serialize", 9%nat)])].
Definition ex_app (n: nat) (v: pv) : pv := PStr "2020".

Example C13_same_document_nonvacuous :
  native_free (fun _ => ENone) FToml ex_usr ex_ds = true /\
  native_free (fun _ => ENone) FOrjson ex_usr ex_ds = true /\
  codec_document w_builtin (fun _ => true) ex_app (fun _ => ENone) FOrjson ex_D ex_usr plain_opts ex_ds [PNone; PInt 2; POpq 7]
    = Some [("a", PNone); ("bb", PInt 2); ("dt", PStr "2020")] /\
  codec_document w_builtin (fun _ => true) ex_app (fun _ => ENone) FToml ex_D ex_usr plain_opts ex_ds [PNone; PInt 2; POpq 7]
    = Some [("bb", PInt 2); ("dt", PStr "2020")] /\
  codec_document w_builtin (fun _ => true) ex_app (fun _ => ENone) FBasic (on_top_of FToml ex_D) ex_usr plain_opts ex_ds [PNone; PInt 2; POpq 7]
    = Some [("bb", PInt 2); ("dt", PStr "2020")].
Proof. repeat split; vm_compute; reflexivity. Qed.
