(* C19, the speculative try-each of the union packer tied to the source (anchor pack.py:pack_union): the method that the
   two loops of pack_union - translated on every run, kernel K21 of C11 - emit for a Union of dataclasses is one
   `try: return <call> / except Exception: pass` per DISTINCT call expression in order of first occurrence, then `raise`;
   with the hook-trace meaning of a try block (events of a failed attempt stay in the log) it is Hooks.pack at a Union
   position, on both paths.  The known findings C19/codec-union-static-dispatch (second member's pre hook runs twice) and
   C19/union-member-flags (first member's keyword list used for every member with the same list) are consequences of
   exactly this emitted shape.  Proofs: theories/HookUnion.v (uses K21Proofs.foldA_packers). *)
From Coq Require Import List Bool Arith String.
From Verif Require Import UnionModel PackEmit UnionEmit Hooks HookUnion HookUnionDe.
From VerifGen Require Import K21.
Import ListNotations.
Local Open Scope list_scope.

(* whatever class names and encoders the members have: non-identity members are emitted as try blocks over the
   first occurrences of their call expressions *)
Theorem C19_K21_emit_tries :
  forall pms, pms <> [] -> (forall m, In m pms -> p_ident m = false) ->
    emit pms = PMethod (map PLTry (K21Proofs.ddp [] pms) ++ [PLRaise]).
Proof. exact emit_tries. Qed.
Print Assumptions C19_K21_emit_tries.

(* mixin path: member c's expression is value.__mashumaro_to_dict__(<keywords pfc c>) *)
Theorem C19_K21_pack_union_mixin :
  forall E stubs cr i j fs cs pc px k (nm: nat -> string) (en: nat -> uv -> option uv),
    cs <> [] ->
    let subs := map (fun kx => match kx with (n, x) => (n, pack E stubs Mixin x) end) fs in
    let mb := fun c => PM (nm c) (Some (pf_code (pfc E pc px c))) (en c) in
    exists ls, emit (map mb cs) = PMethod ls /\
      pack E stubs Mixin (VInst cr i j fs) (TUnion cs) pc px k
      = run_union_lines (fun m => let a := pf_decode (p_key m) in call_mixin E stubs (fst a) (snd a) k cr i j subs) ls.
Proof. exact k21_pack_union_mixin. Qed.
Print Assumptions C19_K21_pack_union_mixin.

(* codec path: member c's expression is <Alias of c>___mashumaro_to_dict__(value) *)
Theorem C19_K21_pack_union_codec :
  forall E stubs cr i j fs cs pc px k (nm: nat -> string) (en: nat -> uv -> option uv),
    cs <> [] ->
    let subs := map (fun kx => match kx with (n, x) => (n, pack E stubs Codec x) end) fs in
    let mb := fun c => PM (nm c) (Some c) (en c) in
    exists ls, emit (map mb cs) = PMethod ls /\
      pack E stubs Codec (VInst cr i j fs) (TUnion cs) pc px k
      = run_union_lines (fun m => call_codec E stubs (p_key m) cr i j subs) ls.
Proof. exact k21_pack_union_codec. Qed.
Print Assumptions C19_K21_pack_union_codec.

(* the union UNPACKER (anchor unpack.py:UnionUnpackerBuilder._add_body, kernel K19 of C11; K19.emit is qualified because
   K21 has an emit too): for dataclass members the translated loop emits one try block per distinct member in order, then
   raise - no type-match shortcut, no fallback block ... *)
Theorem C19_K19_emit_union_dc :
  forall dec cs,
    VerifGen.K19.emit (map (umb dec) cs) = map (fun c => LTry [BRet (umb dec c)]) (dedup_nat cs []) ++ [LRaise].
Proof. exact emit_union_dc. Qed.
Print Assumptions C19_K19_emit_union_dc.

(* ... and with the trace meaning of a try block it is Hooks.unpack at a Union position, for every input *)
Theorem C19_K19_unpack_union :
  forall E w cs dec,
    unpack E w (TUnion cs)
    = run_union_de_lines (fun m => match m with NM c _ _ => unpack E w (TDc c) | SM _ => dfail end)
                         (VerifGen.K19.emit (map (umb dec) cs)).
Proof. exact k19_unpack_union. Qed.
Print Assumptions C19_K19_unpack_union.

(* non-vacuity: Union[K0, K1, K2] in a class with the context option; K0 and K2 opted in, K1 did not: two distinct call
   expressions (with / without context=), three members - and through a codec three try blocks; an instance of K1 (pre
   hook declared) tried by K0's function first: the D8 double pre hook *)
Definition E_u : env :=
  [ mk_cinfo [Build_field 0 TInt false] true true false false true;
    mk_cinfo [Build_field 1 TInt false] true true false false false;
    mk_cinfo [Build_field 0 TInt false] true true false false true ].
Definition E_ud : env :=
  [ mk_cinfo [Build_field 0 TInt false] false false true true false;
    mk_cinfo [Build_field 1 TInt false] false false true true false ].
Example C19_K21_nonvacuous :
  let mbm := fun c => PM "K" (Some (pf_code (pfc E_u true xf_none c))) (fun v => Some v) in
  let mbc := fun c => PM "K" (Some c) (fun v => Some v) in
  (exists a b, emit (map mbm [0; 1; 2]) = PMethod [PLTry a; PLTry b; PLRaise]
               /\ p_key a = pf_code (true, xf_none) /\ p_key b = pf_code (false, xf_none)) /\
  (exists a b c, emit (map mbc [0; 1; 2]) = PMethod [PLTry a; PLTry b; PLTry c; PLRaise]) /\
  pack E_u true Codec (VInst 1 7 7 [(1, VInt)]) (TUnion [0; 1; 2]) false xf_none CNone
  = (true, [Pre 1 7 CNone; Pre 1 7 CAbsent; Post 1 7 CAbsent]) /\
  (* decoding {f1: int} as Union[K0d, K1d, K0d]: two try blocks; K0d's pre hook runs although K0d is discarded *)
  VerifGen.K19.emit (map (umb (fun _ v => Some v)) [0; 1; 0])
  = [LTry [BRet (umb (fun _ v => Some v) 0)]; LTry [BRet (umb (fun _ v => Some v) 1)]; LRaise] /\
  unpack E_ud (WDict None [(1, WInt)]) (TUnion [0; 1; 0]) 0
  = (Some (VInst 1 0 0 [(1, VInt)]), [PreDe 0; PreDe 1; PostDe 1 0], 1).
Proof.
  cbv zeta. split; [|split; [|split; [|split]]].
  - eexists; eexists. split; [vm_compute; reflexivity|split; reflexivity].
  - eexists; eexists; eexists. vm_compute. reflexivity.
  - vm_compute. reflexivity.
  - vm_compute. reflexivity.
  - vm_compute. reflexivity.
Qed.
