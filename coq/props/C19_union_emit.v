(* C19, the speculative try-each of the union packer tied to the source (anchor pack.py:pack_union): the method that the
   two loops of pack_union - translated on every run, kernel K21 of C11 - emit for a Union of dataclasses is one
   `try: return <call> / except Exception: pass` per DISTINCT call expression in order of first occurrence, then `raise`;
   with the hook-trace meaning of a try block (events of a failed attempt stay in the log) it is Hooks.pack at a Union
   position, on both paths.  The known findings C19/codec-union-static-dispatch (second member's pre hook runs twice) and
   C19/union-member-flags (first member's keyword list used for every member with the same list) are consequences of
   exactly this emitted shape.  Proofs: theories/HookUnion.v (uses K21Proofs.foldA_packers). *)
From Coq Require Import List Bool Arith String.
From Verif Require Import UnionModel PackEmit Hooks HookUnion.
From VerifGen Require Import K21.
Import ListNotations.
Local Open Scope list_scope.

(* whatever class names and encoders the members have: non-identity members are emitted as try blocks over the
   first occurrences of their call expressions *)
Theorem C19_K21_emit_tries :
  forall pms, pms <> [] -> (forall m, In m pms -> p_ident m = false) ->
    emit pms = PMethod (map PLTry (K21Proofs.ddp [] pms) ++ [PLRaise]).
Proof. exact emit_tries. Qed.
Print Assumptions C19_K21_emit_tries.

(* mixin path: member c's expression is value.__mashumaro_to_dict__(<keywords pfc c>) *)
Theorem C19_K21_pack_union_mixin :
  forall E stubs cr i j fs cs pc px k (nm: nat -> string) (en: nat -> uv -> option uv),
    cs <> [] ->
    let subs := map (fun kx => match kx with (n, x) => (n, pack E stubs Mixin x) end) fs in
    let mb := fun c => PM (nm c) (Some (pf_code (pfc E pc px c))) (en c) in
    exists ls, emit (map mb cs) = PMethod ls /\
      pack E stubs Mixin (VInst cr i j fs) (TUnion cs) pc px k
      = run_union_lines (fun m => let a := pf_decode (p_key m) in call_mixin E stubs (fst a) (snd a) k cr i j subs) ls.
Proof. exact k21_pack_union_mixin. Qed.
Print Assumptions C19_K21_pack_union_mixin.

(* codec path: member c's expression is <Alias of c>___mashumaro_to_dict__(value) *)
Theorem C19_K21_pack_union_codec :
  forall E stubs cr i j fs cs pc px k (nm: nat -> string) (en: nat -> uv -> option uv),
    cs <> [] ->
    let subs := map (fun kx => match kx with (n, x) => (n, pack E stubs Codec x) end) fs in
    let mb := fun c => PM (nm c) (Some c) (en c) in
    exists ls, emit (map mb cs) = PMethod ls /\
      pack E stubs Codec (VInst cr i j fs) (TUnion cs) pc px k
      = run_union_lines (fun m => call_codec E stubs (p_key m) cr i j subs) ls.
Proof. exact k21_pack_union_codec. Qed.
Print Assumptions C19_K21_pack_union_codec.

(* non-vacuity: Union[K0, K1, K2] in a class with the context option; K0 and K2 opted in, K1 did not: two distinct call
   expressions (with / without context=), three members - and through a codec three try blocks; an instance of K1 (pre
   hook declared) tried by K0's function first: the D8 double pre hook *)
Definition E_u : env :=
  [ mk_cinfo [Build_field 0 TInt false] true true false false true;
    mk_cinfo [Build_field 1 TInt false] true true false false false;
    mk_cinfo [Build_field 0 TInt false] true true false false true ].
Example C19_K21_nonvacuous :
  let mbm := fun c => PM "K" (Some (pf_code (pfc E_u true xf_none c))) (fun v => Some v) in
  let mbc := fun c => PM "K" (Some c) (fun v => Some v) in
  (exists a b, emit (map mbm [0; 1; 2]) = PMethod [PLTry a; PLTry b; PLRaise]
               /\ p_key a = pf_code (true, xf_none) /\ p_key b = pf_code (false, xf_none)) /\
  (exists a b c, emit (map mbc [0; 1; 2]) = PMethod [PLTry a; PLTry b; PLTry c; PLRaise]) /\
  pack E_u true Codec (VInst 1 7 7 [(1, VInt)]) (TUnion [0; 1; 2]) false xf_none CNone
  = (true, [Pre 1 7 CNone; Pre 1 7 CAbsent; Post 1 7 CAbsent]).
Proof.
  cbv zeta. split; [|split].
  - eexists; eexists. split; [vm_compute; reflexivity|split; reflexivity].
  - eexists; eexists; eexists. vm_compute. reflexivity.
  - vm_compute. reflexivity.
Qed.
