(* C10 - positions below a field: NewType supertypes, Optional arguments, collection elements, fields of nested
   dataclasses and of Self-typed children.
   compile is assembled (K5PKernel.v) from functions translated from /repo on this run:
     K5.registry_prepare (Registry.get), K5.pack_/unpack_type_with_overridden_* (first handler),
     K5P.descend_* (the spec.copy of each descent site), K5P.site_cls_* (class handed to the flag functions),
     K8.get_pack_method_flags, K5P.get_unpack_method_flags.
   ctxs P c path lists the resolution context (sources, current alias, declared type, holder class) of every
   position on the path, outermost first (Positions.next_ctx). *)
From Coq Require Import List String ZArith.
From Verif Require Import PyK PyK_strat OptProj Strategies StrategiesProofs Positions K5Kernel K5PKernel PositionsProofs.
Import ListNotations.
Open Scope string_scope.

(* the emitted customization is that of the outermost position with an enabled slot, and there it is the minimum
   of the documented order; nothing enabled anywhere on the path => built-in *)
Theorem C10_positions : forall d P e path c,
  e <> KNone ->
  compile d P (x_S c) (spec_of P c) (x_holder c) e path 0 =
    Ok (match ref_compile P d (ctxs P c path) 0 with Some (n, sw) => Some (n, emit d (Some sw) e) | None => None end) /\
  (forall n sw, ref_compile P d (ctxs P c path) 0 = Some (n, sw) ->
     exists cn, nth_error (ctxs P c path) n = Some cn /\ eff_resolve P d cn = Some sw /\
                is_lexmin (x_S cn) (ctx_keylist P cn) d (Some sw) /\
                forall j c', j < n -> nth_error (ctxs P c path) j = Some c' -> eff_resolve P d c' = None) /\
  (ref_compile P d (ctxs P c path) 0 = None -> forall c', In c' (ctxs P c path) -> eff_resolve P d c' = None).
Proof. exact c10_positions. Qed.
Print Assumptions C10_positions.

(* the dialect passed to the call is the call-level table of a position iff every dataclass -> dataclass / Self step
   on the way has ADD_DIALECT_SUPPORT on both classes (flag text of get_pack/unpack_method_flags at the translated
   call sites); otherwise that position has no call level *)
Theorem C10_dialect_reaches : forall P path c,
  t_call (x_S (final_ctx P c path)) = if all_reach P c path then t_call (x_S c) else None.
Proof. exact dialect_reaches. Qed.
Print Assumptions C10_dialect_reaches.

(* the format (default) dialect is a level of every position *)
Theorem C10_format_dialect_everywhere : forall P path c, t_dflt (x_S (final_ctx P c path)) = t_dflt (x_S c).
Proof. exact format_dialect_everywhere. Qed.
Print Assumptions C10_format_dialect_everywhere.

(* ---- non-vacuity ---- *)
Definition kOuter := KObj 31.  Definition kInner := KObj 32.  Definition kDate := KObj 12.
Definition kOpt := KObj 41.    Definition kList := KObj 42.   Definition kListO := KObj 43.
Definition dl (b: bool) : flags := {| g_on := false; g_ba := false; g_dl := b; g_cx := false |}.
Definition fn2 (m: nat) : sval := VDict (Some (FFn m)) (Some (FFn (100 + m))).
Definition P_ex (inner_support: bool) : prims :=
  {| p_rt := fun v => v; p_org := fun v => if kv_eqb v kList then kListO else v; p_isann := fun _ => false;
     p_flags := fun v => if kv_eqb v kOuter then dl true else if kv_eqb v kInner then dl inner_support else dl false;
     p_cfg := fun v => if kv_eqb v kInner then (None, [(kDate, fn2 5)]) else (None, []) |}.
(* Outer.inner : Inner;  Inner.xs : Optional[List[date]];  call dialect registers date, Inner's Config registers date *)
Definition c_ex : pctx :=
  {| x_S := {| f_ser := None; f_de := None; f_strat := None; t_call := Some [(kDate, fn2 3)]; t_cfgd := None;
               t_cfg := []; t_dflt := None |};
     x_ann := KNone; x_decl := kInner; x_holder := kOuter |}.
Definition path_ex : list node :=
  [NField false no_fieldopts kOpt; NType TOptional kList; NType TElement kDate].

Example C10_positions_nonvacuous :
  (* Inner supports dialects: the call dialect wins at the element position (depth 3) *)
  compile Ser (P_ex true) (x_S c_ex) (spec_of (P_ex true) c_ex) kOuter (KStr "value") path_ex 0
    = Ok (Some (3, k_call_expr (KObj 4) (KStr "value"))) /\
  all_reach (P_ex true) c_ex path_ex = true /\
  (* Inner does not: its own Config.serialization_strategy applies there instead *)
  compile Ser (P_ex false) (x_S c_ex) (spec_of (P_ex false) c_ex) kOuter (KStr "value") path_ex 0
    = Ok (Some (3, k_call_expr (KObj 6) (KStr "value"))) /\
  all_reach (P_ex false) c_ex path_ex = false /\
  t_call (x_S (final_ctx (P_ex false) c_ex path_ex)) = None.
Proof. repeat split; reflexivity. Qed.
