(* C02 / kernel K45c: Optional[...] and type variables on the pack side.
   [C02_optional_code_is_model] / [C02_typevar_code_is_model]: the packer of the model for [SOpt t] and for the type that
   stands for a type variable ([tv_sty]: unconstrained = Any, bound / default B = Optional[B]) is what
   pack_special_typing_primitive + expr_or_maybe_none produce (translated from /repo on every run, coq/gen/K45c.v).
   Consequently C02_pack_ref covers fields and items annotated by such a variable. *)
From Coq Require Import List String ZArith Bool.
From Verif Require Import Core TyModel TyProofs StpCode TyTypeVar.
From VerifGen Require Import K45c.
Import ListNotations.

Theorem C02_optional_code_is_model : forall (cbn: bool) (t: sty),
  stp_penc cbn code_pack_optional (fun c => cp c t) = Some (cp cbn (SOpt t)).
Proof. exact cp_optional_is_code. Qed.
Print Assumptions C02_optional_code_is_model.

Theorem C02_typevar_code_is_model : forall (cbn: bool) (k: tvar),
  stp_penc cbn (code_pack_tvar k) (fun c => cp c (tv_inner k)) = Some (cp cbn (tv_sty k)).
Proof. exact cp_tvar_is_code. Qed.
Print Assumptions C02_typevar_code_is_model.

(* the property for a position annotated by a type variable *)
Theorem C02_typevar_pack_ref : forall (E: senv) (P: prims) (k: tvar) (v: pv),
  conf E v (tv_sty k) = true -> pk E P v (cp true (tv_sty k)) = ref_enc E P v (tv_sty k).
Proof. intros E P k v. exact (encode_is_ref false E P v (tv_sty k)). Qed.
Print Assumptions C02_typevar_pack_ref.

(* G(Generic[T, B]) with T unconstrained, B = TypeVar("B", bound=int): x: T, y: B, w: List[B] *)
Definition tvE : senv :=
  [ {| sc_kind := KData; sc_name := "G"; sc_fields :=
         [ {| sf_name := "x"; sf_ty := tv_sty TVAny; sf_default := None; sf_opt := false |};
           {| sf_name := "y"; sf_ty := tv_sty (TVBound SIntT); sf_default := None; sf_opt := false |};
           {| sf_name := "w"; sf_ty := SList (tv_sty (TVBound SIntT)); sf_default := None; sf_opt := false |} ] |} ].
Definition tvP : prims := {|
  p_render := fun k w => VStr w; p_parse := fun _ _ => None; p_enum_value := fun _ _ => None; p_enum_of := fun _ _ => None;
  p_b64enc := fun b => b; p_b64dec := fun _ => None; p_int := fun _ => None; p_float := fun _ => None; p_str := fun _ => None |}.
Example C02_typevar_nonvacuous :
  let v := VObj "G" [("x", VList [VInt 1]); ("y", VNone); ("w", VList [VInt 5; VNone])] in
  conf tvE v (SData "G") = true /\
  pk tvE tvP v (cp true (SData "G")) = Ok (VDict [(VStr "x", VList [VInt 1]); (VStr "y", VNone); (VStr "w", VList [VInt 5; VNone])]) /\
  cp true (SList (tv_sty (TVBound SIntT))) = EListComp (EOpt EId).        (* [value if value is not None else None for value in self.w] *)
Proof. cbv zeta. repeat split; vm_compute; reflexivity. Qed.
