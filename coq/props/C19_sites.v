(* C19, tie to the source: the hook call sites of the generated to_dict / from_dict are READ from builder.py on every
   run (kernel K49 -> VerifGen.K49: pack_sites / unpack_sites / declared_hook), interpreted by HookSites.run_ps / run_us,
   and proved to be the method bodies of the model (Hooks.body / dbody / the dispatcher-only from_dict) that the trace
   theorems of C19_hooks.v are about.  A change of builder.py that moves, drops, duplicates or re-parameterises a hook
   line changes K49.v and these theorems stop compiling.  Proofs: theories/HookSitesProofs.v. *)
From Coq Require Import List Arith Bool.
From Verif Require Import Hooks HooksProofs HookSites HookSitesProofs.
From VerifGen Require Import K49.
Import ListNotations.

(* the emitted to_dict in closed form, for every answer the builder can get about the class and whatever the encoder:
   [pre hook line, rebinding self] ; [field statements] ; ONE return, wrapped in the post hook iff declared; the
   context keyword goes to either hook iff the class enabled ADD_SERIALIZATION_CONTEXT *)
Theorem C19_K49_to_dict_sites :
  forall pre post ctx kwm enc enckw,
    pack_sites pre post ctx kwm enc enckw
    = (if pre then [PSPre ctx] else []) ++ (if kwm then [PSFields] else [])
      ++ [PSRet (if post then Some ctx else None) (negb kwm)].
Proof. exact k49_pack_shape. Qed.
Print Assumptions C19_K49_to_dict_sites.

(* ... and it computes the model's method body *)
Theorem C19_K49_to_dict_is_model :
  forall E stubs cg cr i j subs kvar ck enc enckw,
    run_ps E stubs cr j (fields_M E cg subs ck) kvar
           (pack_sites (c_pre (cls E cg)) (c_post (cls E cg)) (c_ctx (cls E cg)) (kwmode E cg) enc enckw) i
    = body E stubs cg cr i j subs (if c_ctx (cls E cg) then kvar else CAbsent) ck.
Proof. exact k49_pack_sites_body. Qed.
Print Assumptions C19_K49_to_dict_is_model.

(* Hooks.pack at a dataclass position = the sites read from the source, both paths *)
Theorem C19_K49_pack_mixin :
  forall E stubs cr i j fs c pc px k enc enckw,
    pack E stubs Mixin (VInst cr i j fs) (TDc c) pc px k
    = let subs := map (fun kx => match kx with (n, x) => (n, pack E stubs Mixin x) end) fs in
      let pass := pc && c_ctx (cls E c) in
      if (pass && negb (c_ctx (cls E cr))) || negb (xf_le (xf_and px (c_xf (cls E c))) (c_xf (cls E cr))) then fail_
      else let kin := if pass then k else CNone in
           run_ps E stubs cr j (fields_M E cr subs kin) kin
                  (pack_sites (c_pre (cls E cr)) (c_post (cls E cr)) (c_ctx (cls E cr)) (kwmode E cr) enc enckw) i.
Proof. exact k49_pack_dc_mixin. Qed.
Print Assumptions C19_K49_pack_mixin.

Theorem C19_K49_pack_codec :
  forall E stubs cr i j fs c pc px k enc enckw,
    pack E stubs Codec (VInst cr i j fs) (TDc c) pc px k
    = let subs := map (fun kx => match kx with (n, x) => (n, pack E stubs Codec x) end) fs in
      run_ps E stubs cr j (fields_M E c subs CNone) CNone
             (pack_sites (c_pre (cls E c)) (c_post (cls E c)) (c_ctx (cls E c)) (kwmode E c) enc enckw) i.
Proof. exact k49_pack_dc_codec. Qed.
Print Assumptions C19_K49_pack_codec.

(* the property over the sites read from the source (union-free schemas, any depth): a method with the sites builder.py
   emits now logs exactly the pre/post-order traversal - each hook once, pre first on the instance, post last on what
   pre returned, the caller's context wherever the classes opted in *)
Theorem C19_K49_trace_mixin :
  forall E stubs cr i j fs c pc k enc enckw,
    env_union_free E = true -> wt E true (VInst cr i j fs) (TDc c) = true ->
    let subs := map (fun kx => match kx with (n, x) => (n, pack E stubs Mixin x) end) fs in
    let kin := if pc && c_ctx (cls E c) then k else CNone in
    run_ps E stubs cr j (fields_M E cr subs kin) kin
           (pack_sites (c_pre (cls E cr)) (c_post (cls E cr)) (c_ctx (cls E cr)) (kwmode E cr) enc enckw) i
    = (true, trav E pc k (VInst cr i j fs)).
Proof. exact k49_trace_sites_mixin. Qed.
Print Assumptions C19_K49_trace_mixin.

Theorem C19_K49_trace_codec :
  forall E stubs c i j fs pc enc enckw,
    env_union_free E = true -> wt E false (VInst c i j fs) (TDc c) = true ->
    let subs := map (fun kx => match kx with (n, x) => (n, pack E stubs Codec x) end) fs in
    run_ps E stubs c j (fields_M E c subs CNone) CNone
           (pack_sites (c_pre (cls E c)) (c_post (cls E c)) (c_ctx (cls E c)) (kwmode E c) enc enckw) i
    = (true, trav E pc CNone (VInst c i j fs)).
Proof. exact k49_trace_sites_codec. Qed.
Print Assumptions C19_K49_trace_codec.

(* from_dict: closed form of the emitted method of a class without a Config discriminator ... *)
Theorem C19_K49_from_dict_sites :
  forall dec prede postde,
    unpack_sites dec false prede postde
    = (if dec then [USDecode] else []) ++ (if prede then [USPre] else []) ++ [USFields; USRet postde].
Proof. exact k49_unpack_shape. Qed.
Print Assumptions C19_K49_from_dict_sites.

(* ... it computes the model's from_dict body (pre hook, field blocks, constructor, post hook on the new instance) ... *)
Theorem C19_K49_from_dict_is_model :
  forall E c subs dec disp n,
    run_us c disp (dfields (c_fields (cls E c)) subs)
           (unpack_sites dec false (c_prede (cls E c)) (c_postde (cls E c))) None n
    = dbody E c subs n.
Proof. exact k49_unpack_sites_dbody. Qed.
Print Assumptions C19_K49_from_dict_is_model.

(* ... Hooks.unpack at a dataclass position IS that method ... *)
Theorem C19_K49_unpack_dc :
  forall E tag kvs c n dec disp,
    c_disc (cls E c) = None ->
    unpack E (WDict tag kvs) (TDc c) n
    = run_us c disp (dfields (c_fields (cls E c)) (map (fun kx => match kx with (k, x) => (k, unpack E x) end) kvs))
             (unpack_sites dec false (c_prede (cls E c)) (c_postde (cls E c))) None n.
Proof. exact k49_unpack_dc. Qed.
Print Assumptions C19_K49_unpack_dc.

(* ... and a class whose own Config has a discriminator emits the dispatcher call and NOTHING else, whatever hooks it
   declares (the premise of C19_disc_config_dispatch: the base's hooks do not run around the dispatch) *)
Theorem C19_K49_from_dict_dispatcher :
  forall c disp fields dec prede postde args n,
    run_us c disp fields (unpack_sites dec true prede postde) args n = disp n.
Proof. exact k49_unpack_sites_dispatch. Qed.
Print Assumptions C19_K49_from_dict_dispatcher.

(* the deserialization property over the sites read from the source *)
Theorem C19_K49_de_trace :
  forall E kvs c n dec disp r tr n',
    env_union_free E = true -> c_disc (cls E c) = None ->
    run_us c disp (dfields (c_fields (cls E c)) (map (fun kx => match kx with (k, x) => (k, unpack E x) end) kvs))
           (unpack_sites dec false (c_prede (cls E c)) (c_postde (cls E c))) None n = (Some r, tr, n') ->
    tr = trav_de E r.
Proof. exact k49_de_trace_sites. Qed.
Print Assumptions C19_K49_de_trace.

(* get_declared_hook: a hook is emitted iff a class of the MRO other than DataClassDictMixin defines it *)
Theorem C19_K49_declared_hook :
  forall d m, declared_hook d m = true <-> exists c, d = Some c /\ m c = false.
Proof.
  intros d m. rewrite k49_declared_hook. unfold declared. destruct d as [c|].
  - rewrite negb_true_iff. split; [intro H; exists c; auto | intros [c' [H1 H2]]; inversion H1; subst; exact H2].
  - split; [discriminate | intros [c' [H1 _]]; discriminate H1].
Qed.
Print Assumptions C19_K49_declared_hook.

(* ---------------------------------------------------------------- non-vacuity: the sites of a class with both hooks and
   the context option, run on an instance whose pre hook returns another object (identity 8), nested instance inside *)
Definition E_s : env :=
  [ mk_cinfo [Build_field 0 TInt false] true true true true true;
    mk_cinfo [Build_field 1 (TOpt (TDc 0)) false] true true true true true ].
Example C19_K49_nonvacuous :
  pack_sites true true true true false false = [PSPre true; PSFields; PSRet (Some true) false] /\
  pack_sites false true false false true true = [PSRet (Some false) true] /\
  unpack_sites false false true true = [USPre; USFields; USRet true] /\
  unpack_sites true true true true = [USDecode; USDispatch] /\
  let v := VInst 1 7 8 [(1, VInst 0 9 9 [(0, VInt)])] in
  run_ps E_s true 1 8 (fields_M E_s 1 [(1, pack E_s true Mixin (VInst 0 9 9 [(0, VInt)]))] CTok) CTok
         (pack_sites true true true (kwmode E_s 1) false false) 7
  = (true, [Pre 1 7 CTok; Pre 0 9 CTok; Post 0 9 CTok; Post 1 8 CTok]) /\
  trav E_s true CTok v = [Pre 1 7 CTok; Pre 0 9 CTok; Post 0 9 CTok; Post 1 8 CTok] /\
  run_us 0 dfail (dfields (c_fields (cls E_s 0)) [(0, unpack E_s WInt)]) (unpack_sites false false true true) None 4
  = (Some (VInst 0 4 4 [(0, VInt)]), [PreDe 0; PostDe 0 4], 5).
Proof. repeat split; vm_compute; reflexivity. Qed.
