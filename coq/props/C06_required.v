(* C06 ('required' lists exactly the fields the serializer always writes): the decision in
   jsonschema/schema.py:on_dataclass (kernel K6R) with CodeBuilder.is_field_nullable (kernel K20; C08 has its own,
   independent K17), both translated from /repo on this run, against the model (Schema.frequired / fnullable). *)
From Coq Require Import List String ZArith Bool.
From Verif Require Import PyK PyK_nullable K20Proofs K6RProofs JValid Schema.
From VerifGen Require Import K20 K6R.
Import ListNotations.

Theorem K20_spec : forall t d,
  is_field_nullable t d = (match strip_spec t with FCore c => core_nullable c | _ => false end) || d.
Proof. exact K20_spec_thm. Qed.
Print Assumptions K20_spec.

Theorem K20_wrappers_transparent : forall t d,
  is_field_nullable (FAnnotated t) d = is_field_nullable t d /\
  is_field_nullable (FFinal (Some t)) d = is_field_nullable t d.
Proof. exact K20_wrappers_transparent_thm. Qed.
Print Assumptions K20_wrappers_transparent.

Theorem C06_schema_requires_spec : forall h o nl : bool,
  schema_requires (KBool h) (KBool o) (KBool nl) = Ok (KBool (negb h && negb (o && nl))).
Proof. exact schema_requires_spec_thm. Qed.
Print Assumptions C06_schema_requires_spec.

Theorem C06_fnullable_is_K20 : forall (f: field) (ws: list bool),
  is_field_nullable (wrap ws (FCore (core_of_ty (f_ty f)))) (f_dnone f) = fnullable f.
Proof. exact fnullable_is_K20_thm. Qed.
Print Assumptions C06_fnullable_is_K20.

Theorem C06_frequired_is_K6R : forall (omit: bool) (f: field) (ws: list bool),
  schema_requires (KBool (f_has_default f)) (KBool omit)
                  (KBool (is_field_nullable (wrap ws (FCore (core_of_ty (f_ty f)))) (f_dnone f)))
  = Ok (KBool (frequired omit f)).
Proof. exact frequired_is_K6R_thm. Qed.
Print Assumptions C06_frequired_is_K6R.

(* a field declared as a bare type variable, in the specialisation that binds the variable to f_ty f (since /repo
   4da7e9e: `gv: T` of G[Optional[int]] is nullable, so omit_none drops its None and the schema does not require it) *)
Theorem C06_fnullable_typevar_is_K20 : forall (f: field) (ws: list bool),
  is_field_nullable (wrap ws (FCore (core_of_tv (Some (f_ty f))))) (f_dnone f) = fnullable f.
Proof. exact fnullable_typevar_is_K20_thm. Qed.
Print Assumptions C06_fnullable_typevar_is_K20.

Theorem C06_frequired_typevar_is_K6R : forall (omit: bool) (f: field) (ws: list bool),
  schema_requires (KBool (f_has_default f)) (KBool omit)
                  (KBool (is_field_nullable (wrap ws (FCore (core_of_tv (Some (f_ty f))))) (f_dnone f)))
  = Ok (KBool (frequired omit f)).
Proof. exact frequired_typevar_is_K6R_thm. Qed.
Print Assumptions C06_frequired_typevar_is_K6R.

Theorem C06_unbound_typevar_nullable : forall (ws: list bool) d,
  is_field_nullable (wrap ws (FCore (core_of_tv None))) d = true.
Proof. exact unbound_typevar_nullable_thm. Qed.
Print Assumptions C06_unbound_typevar_nullable.

(* non-vacuity: Annotated[Final[Optional[int]]] without default under omit_none is not required;
   Literal[1, None] = None is nullable through its default *)
Example C06_required_nonvacuous :
  frequired true (mkF "x" "x" (TUnion [TInt; TNone]) false true None false None) = false /\
  frequired false (mkF "x" "x" (TUnion [TInt; TNone]) false true None false None) = true /\
  is_field_nullable (wrap [true; false] (FCore (core_of_ty (TUnion [TInt; TNone])))) false = true /\
  fnullable (mkF "w" "w" (TLit [JInt 1; JNull]) true true None true None) = true /\
  fnullable (mkF "w" "w" (TLit [JInt 1; JNull]) false true None false None) = false /\
  (* Union[int, None, str] (three members): nullable since /repo 906a805, hence not required under omit_none *)
  frequired true (mkF "u" "u" (TUnion [TInt; TNone; TStr]) false true None false None) = false /\
  is_field_nullable (FCore (core_of_ty (TUnion [TInt; TNone; TStr]))) false = true /\
  (* x: T in G[Optional[int]] / G[int] / G[None] / G[Union[str, None, int]] (agreement examples of fix 4da7e9e) *)
  is_field_nullable (FCore (core_of_tv (Some (TUnion [TInt; TNone])))) false = true /\
  is_field_nullable (FCore (core_of_tv (Some TInt))) false = false /\
  is_field_nullable (FCore (core_of_tv (Some TNone))) false = true /\
  is_field_nullable (FAnnotated (FCore (core_of_tv (Some (TUnion [TStr; TNone; TInt]))))) false = true.
Proof. repeat split; reflexivity. Qed.
