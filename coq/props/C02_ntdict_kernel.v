(* C02 / kernel K45b: the NamedTuple packer of the model is the expression pack_named_tuple returns
   ([k45b_pack] translated from /repo on every run; semantics of the display: NtEmit.run_pack_code): one packer per
   field applied to value[idx] with could_be_none = True, as a list -- or as a dict under the field names (as_dict). *)
From Coq Require Import List String ZArith Bool.
From Verif Require Import Core TyModel TyProofs TyNtDict NtEmit K45bProofs.
From VerifGen Require Import K45b.
Import ListNotations.

Theorem C02_named_code_is_model : forall (E: senv) (P: prims) (c: String.string) (k: scls) (l: list pv),
  sfind E KNamed c = Some k ->
  pk E P (VTuple l) (cp true (SNamed c)) =
    run_pack_code (ev_list (fun f x => pk E P x (cp true f.(sf_ty))) (fun _ => None) l)
                  (k45b_pack false (map sf_name k.(sc_fields))) k.(sc_fields).
Proof. intros E P c k l Ef. cbn [cp]. rewrite pk_unfold. rewrite Ef. rewrite k45b_as_list. reflexivity. Qed.
Print Assumptions C02_named_code_is_model.

Theorem C02_ntdict_code_is_model : forall (E: senv) (P: prims) (c: String.string) (k: scls) (l: list pv),
  sfind E KNamed c = Some k ->
  pk_nd E P (VTuple l) c =
    run_pack_code (ev_list (fun f x => pk E P x (cp true f.(sf_ty))) (fun _ => None) l)
                  (k45b_pack true (map sf_name k.(sc_fields))) k.(sc_fields).
Proof. intros E P c k l Ef. unfold pk_nd. rewrite Ef. rewrite k45b_as_dict. reflexivity. Qed.
Print Assumptions C02_ntdict_code_is_model.

Example C02_k45b_emitted :
  k45b_pack true ["a"; "b"] = NPDict ["a"; "b"] [IPos 0; IPos 1] /\ k45b_pack false ["a"; "b"] = NPList [IPos 0; IPos 1].
Proof. split; vm_compute; reflexivity. Qed.
