(* C17: clean_id, as translated from the source (kernel K42): the alias under which a local class is
   bound is identifier shaped, and the map is not injective (known finding clean-id-collision). *)
From Coq Require Import List NArith Bool.
From VerifGen Require Import K42.
From Verif Require Import K42Proofs.
Import ListNotations.
Open Scope N_scope.

Theorem C17_clean_id_identifier : forall s,
  clean_id s <> [] /\
  Forall (fun c => is_word c = true) (clean_id s) /\
  (exists c r, clean_id s = c :: r /\ is_digit c = false).
Proof. intros s. split; [apply clean_id_nonempty | split; [apply clean_id_word | apply clean_id_no_leading_digit]]. Qed.
Print Assumptions C17_clean_id_identifier.

Theorem C17_clean_id_length : forall s, (length s <= length (clean_id s) <= S (length s))%nat.
Proof. exact clean_id_length. Qed.
Print Assumptions C17_clean_id_length.

Theorem C17_clean_id_kernel_refuted :
  exists s1 s2 : list N, s1 <> s2 /\ clean_id s1 = clean_id s2.
Proof. exists [109; 46; 65; 95; 66], [109; 46; 65; 46; 66]. exact clean_id_collision. Qed.
Print Assumptions C17_clean_id_kernel_refuted.

Example C17_clean_id_examples :
  clean_id [] = [95] /\ clean_id [49; 97] = [95; 49; 97] /\ clean_id [97; 60; 62; 98] = [97; 95; 95; 98].
Proof. vm_compute. repeat split. Qed.
