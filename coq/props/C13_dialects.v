(* C13 - Dialects are isolated per call and honoured uniformly by every codec.
   Property theorems only; models and proofs are in theories/DialectCache.v,
   theories/DialectMerge.v (over kernels K2, K3, K13 translated from /repo on this run)
   and theories/DialectTwin.v. *)
From Coq Require Import List String ZArith Bool.
From Verif Require Import PyK PyK_strat DialectMerge DialectCache DialectTwin DialectSources.
From VerifGen Require Import K2 K3 K5 K13 K13F.
Import ListNotations.
Open Scope string_scope.
Open Scope nat_scope.

(* ---- isolation: every generator `compile`, every hierarchy `ancestors`, every history ---- *)
Theorem C13_isolation :
  forall (code: Type) (compile: nat -> option nat -> code) (ancestors: nat -> list nat)
         (ops: list op) (i c: nat) (d: option nat),
    nth_error ops i = Some (Call c d) ->
    In (Define c) (firstn i ops) ->
    nth_error (outs compile ancestors true (init) ops) i = Some (Some (compile c d)).
Proof. exact (@isolation). Qed.
Print Assumptions C13_isolation.

Theorem C13_default_unaltered :
  forall (code: Type) (compile: nat -> option nat -> code) (ancestors: nat -> list nat)
         (own: bool) (ops: list op) (s: state) (c: nat),
    forallb is_call ops = true ->
    c_default (final compile ancestors own s ops c) = c_default (s c).
Proof. exact (@default_unaltered). Qed.
Print Assumptions C13_default_unaltered.

(* why the cache must be created in the class's OWN namespace *)
Theorem C13_shared_cache_refuted :
  exists (h: list (nat * list nat)) (ops: list op) i c d,
    nth_error ops i = Some (Call c d) /\ In (Define c) (firstn i ops) /\
    nth_error (outs tcompile (anc_of h) false init ops) i <> Some (Some (tcompile c d)).
Proof. exact shared_cache_refuted. Qed.
Print Assumptions C13_shared_cache_refuted.

(* ---- merge: over K2 as translated on this run ---- *)
Theorem C13_merge_total :
  forall a b n key,
    has_keys merge_loop_keys a -> has_keys merge_loop_keys b -> In key five_options ->
    exists r, merge_options (KNs a) (KNs b) (KNs n) = Ok (KNs r)
      /\ option_of r key = if is_set (option_of b key) then option_of b key else option_of a key.
Proof. exact merge_total_five. Qed.
Print Assumptions C13_merge_total.

(* every attribute bound by class Dialect (K13), except the strategy map, is merged *)
Theorem C13_merge_covers_all_options :
  forall x, In x dialect_attrs -> x = "serialization_strategy" \/ In x merge_loop_keys.
Proof. exact all_dialect_attrs_merged. Qed.
Print Assumptions C13_merge_covers_all_options.

Theorem C13_merge_strategies :
  forall c o k dir,
    NoDup (map fst c) -> NoDup (map fst o) ->
    (forall e, sm_get o k = Some (SDict e) -> NoDup (map fst e)) ->
    effective (sm_get (merge_strategies c o) k) dir = strategy_spec (sm_get c k) (sm_get o k) dir.
Proof. exact merge_strategies_effective. Qed.
Print Assumptions C13_merge_strategies.

(* ---- codecs: an option that D sets resolves identically whatever the format dialect ---- *)
Theorem C13_codec_option_uniform :
  forall fmt dl n cd cfg key dflt,
    has_keys merge_loop_keys fmt -> has_keys merge_loop_keys dl -> In key five_options ->
    is_set (option_of dl key) = true ->
    exists r, merge_options (KNs fmt) (KNs dl) (KNs n) = Ok (KNs r) /\
      get_dialect_or_config_option KNone cd cfg (KNs r) (KStr key) dflt =
      get_dialect_or_config_option KNone cd cfg (KNs dl) (KStr key) dflt.
Proof. exact codec_option_uniform. Qed.
Print Assumptions C13_codec_option_uniform.

(* ---- dialect=D versus the twin class with default dialect D ---- *)
Definition C13_twin_full : Prop := twin_full.

Theorem C13_twin_partial :
  forall k D dd o dflt,
    flag_of k o = false -> covers D (k_cfgd k) o ->
    call_effective k D dd o dflt = twin_effective k D dd o dflt.
Proof. exact twin_partial. Qed.
Print Assumptions C13_twin_partial.

Theorem C13_call_dialect_refuted : ~ C13_twin_full.
Proof. exact call_dialect_refuted. Qed.
Print Assumptions C13_call_dialect_refuted.

Definition C13_union_full : Prop := union_full.

Theorem C13_union_partial :
  forall owner members actual,
    In actual members -> (forall m, In m members -> m = actual) ->
    union_forward owner members actual = union_expected owner actual.
Proof. exact union_partial. Qed.
Print Assumptions C13_union_partial.

Theorem C13_union_member_flags_refuted : ~ C13_union_full.
Proof. exact union_member_flags_refuted. Qed.
Print Assumptions C13_union_member_flags_refuted.

(* ---- where options and strategies come from (kernels K13 scan, K13F, K5) ---- *)
(* no code reads an option attribute directly: every read goes through get_dialect_or_config_option,
   i.e. through the chain call dialect > Config.dialect > Config > default_dialect *)
Theorem C13_options_only_via_resolution : direct_option_reads = [].
Proof. exact options_only_via_resolution. Qed.
Print Assumptions C13_options_only_via_resolution.

Theorem C13_every_option_read :
  forall o, In o dialect_attrs -> o = "serialization_strategy" \/ In o (map fst resolved_option_reads).
Proof. exact every_option_read. Qed.
Print Assumptions C13_every_option_read.

Theorem C13_option_defaults_consistent :
  forall o d1 d2, In (o, d1) resolved_option_reads -> In (o, d2) resolved_option_reads -> d1 = d2.
Proof. exact defaults_consistent. Qed.
Print Assumptions C13_option_defaults_consistent.

(* the defaults of the generated omit_none= / by_alias= keywords are the resolved options *)
Theorem C13_flag_keyword_default :
  forall d cd cfg dd,
    kw_default_omit_none d cd cfg dd = Ok (render_bool (first_set [d; cd; cfg; dd] "omit_none" (KBool false))) /\
    kw_default_by_alias d cd cfg dd = Ok (render_bool (first_set [d; cd; cfg; dd] "serialize_by_alias" (KBool false))).
Proof. intros. split; [apply kw_default_omit_none_spec | apply kw_default_by_alias_spec]. Qed.
Print Assumptions C13_flag_keyword_default.

(* strategy sources of `dialect=D` = strategy sources of the twin whose Config.dialect is D *)
Theorem C13_twin_strategy_sources :
  forall d cfg dd ft dmap cmap,
    ns_get d "serialization_strategy" = Some (KDict dmap) ->
    ns_get cfg "dialect" = Some KNone ->
    ns_get cfg "serialization_strategy" = Some (KDict cmap) ->
    iter_serialization_strategies_inner (KNs d) (KNs cfg) dd ft =
    iter_serialization_strategies_inner KNone (KNs (ns_set cfg "dialect" (KNs d))) dd ft.
Proof. exact twin_strategy_sources. Qed.
Print Assumptions C13_twin_strategy_sources.

(* one-directional entry of D: the other direction is still looked up in the lower sources *)
Example C13_twin_strategy_nonvacuous :
  let d := [("serialization_strategy", KDict [(KObj 1, KDict [(KStr "serialize", KObj 10)])])] in
  let cfg := [("dialect", KNone); ("serialization_strategy", KDict [(KObj 1, KDict [(KStr "deserialize", KObj 11)])])] in
  gen_items (iter_serialization_strategies_inner (KNs d) (KNs cfg) KNone (KObj 1)) =
    [KDict [(KStr "serialize", KObj 10)]; KDict [(KStr "deserialize", KObj 11)]].
Proof. vm_compute. reflexivity. Qed.

(* ---- non-vacuity ---- *)
(* a history on a 3-level hierarchy where the hypotheses of C13_isolation hold at a call
   that follows calls with other dialects on the parent and the child *)
Example C13_isolation_nonvacuous :
  let h := [(1, [0]); (2, [1; 0])] in
  let ops := [Define 0; Define 1; Define 2; Call 1 (Some 5); Call 0 (Some 6); Call 2 None; Call 0 (Some 5)] in
  nth_error ops 6 = Some (Call 0 (Some 5)) /\ In (Define 0) (firstn 6 ops) /\
  outs tcompile (anc_of h) true init ops =
    [None; None; None; Some (1, Some 5); Some (0, Some 6); Some (2, None); Some (0, Some 5)].
Proof. split; [reflexivity|]. split; [left; reflexivity|]. vm_compute. reflexivity. Qed.

(* has_keys holds for real dialect namespaces (every attribute of class Dialect is inherited);
   merge picks the user's value where set, the format's otherwise.  Stated per key and over
   whatever key tuple the source has on this run. *)
Example C13_merge_nonvacuous :
  let fmt := ns_set (ns_set blank_dialect "omit_none" (KBool true)) "no_copy_collections" (KTuple [KObj 1; KObj 2]) in
  let usr := ns_set (ns_set blank_dialect "serialize_by_alias" (KBool true)) "omit_default" (KBool false) in
  has_keys merge_loop_keys fmt /\ has_keys merge_loop_keys usr /\
  exists r, merge_options (KNs fmt) (KNs usr) (KNs []) = Ok (KNs r) /\
    option_of r "serialize_by_alias" = KBool true /\ option_of r "namedtuple_as_dict" = KMissing /\
    option_of r "omit_none" = KBool true /\ option_of r "omit_default" = KBool false /\
    option_of r "no_copy_collections" = KTuple [KObj 1; KObj 2].
Proof.
  cbv zeta. split; [apply has_keys_dec; vm_compute; reflexivity|].
  split; [apply has_keys_dec; vm_compute; reflexivity|].
  eexists. split; [vm_compute; reflexivity|]. vm_compute. repeat split.
Qed.

Example C13_twin_nonvacuous :
  flag_of (mk_klass (KNs []) KNone false false) "omit_none" = false /\
  call_effective (mk_klass (KNs []) KNone false false) (KNs [("omit_none", KBool true)]) KNone "omit_none" (KBool false)
    = Ok (KBool true).
Proof. split; vm_compute; reflexivity. Qed.
