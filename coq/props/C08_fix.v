(* C08 - the proposed repair of call-dialect-vs-flag-defaults (fixes/C08-call-dialect-flag-defaults.diff)
   restores the FULL flat statement in the model of the repaired dispatch (Verif.OptFix). *)
From Coq Require Import List String ZArith Bool.
From Verif Require Import OptProj OptProjProofs OptFix.
Import ListNotations.
Open Scope string_scope.

Theorem C08_project_fixed_full :
  forall (o: opts) (fs: list fplan) (vs: list fval),
    kw_ok o = true -> vals_ok fs vs = true ->
    to_dict_fixed o fs vs = Some (project (eff_of o) fs vs (plain_out fs vs)).
Proof. exact project_fixed_full. Qed.
Print Assumptions C08_project_fixed_full.

(* the D14 witness under the repaired dispatch *)
Example C08_fixed_d14 :
  to_dict_model d14_opts d14_fields d14_vals = Some [("a", PNone); ("b", PInt 1)] /\
  to_dict_fixed d14_opts d14_fields d14_vals = Some [("bb", PInt 1)].
Proof. split; reflexivity. Qed.
