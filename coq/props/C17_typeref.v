(* C17: how the generator refers to a type in the text it generates (kernel K44: get_type_name_identifier and
   is_local_type_name translated from the source, plus the regenerated table of every type_name / identifier call
   of the generator modules).  Code points as in K42; [name_chain] = NAME ('.' NAME)*, the shape c17_translate reads
   as ELoad / EAttr and Closed.check_closed / Binding.binding_ok resolve. *)
From Coq Require Import List NArith Bool String.
From VerifGen Require Import K42 K44.
From Verif Require Import K42Proofs K44Proofs NsBind Render TypeRef TypeRefBind.
Import ListNotations.
Open Scope N_scope.

(* the rendering of a local class is pasted as clean_id of it, and the class is registered under exactly that name *)
Theorem C17_type_ident_local : forall r,
  is_local_type_name r = true ->
  type_ident r = (K42.clean_id r, Some (K42.clean_id r)) /\
  Forall (fun c => K42.is_word c = true) (K42.clean_id r) /\ (exists c t, K42.clean_id r = c :: t /\ K42.is_digit c = false).
Proof.
  intros r H. split; [apply type_ident_local; exact H | split; [apply clean_id_word | apply clean_id_no_leading_digit]].
Qed.
Print Assumptions C17_type_ident_local.

Theorem C17_type_ident_nonlocal : forall r, is_local_type_name r = false -> type_ident r = (r, None).
Proof. exact type_ident_nonlocal. Qed.
Print Assumptions C17_type_ident_nonlocal.

Theorem C17_type_ident_alias_is_text : forall r a, snd (type_ident r) = Some a -> fst (type_ident r) = a.
Proof. exact type_ident_alias_is_text. Qed.
Print Assumptions C17_type_ident_alias_is_text.

(* full strength: whatever the rendering, the identifier of a type is a name chain *)
Definition C17_type_ident_chain_full : Prop := forall r, name_chain (fst (type_ident r)) = true.

(* holds for the renderings of classes: a local class (any rendering containing the marker) or a rendering that is a
   name chain already (module.qualname of a class reachable by name, Render.render (RNamed m q)) *)
Theorem C17_type_ident_chain_partial : forall r,
  is_local_type_name r = true \/ name_chain r = true -> name_chain (fst (type_ident r)) = true.
Proof. exact type_ident_chain. Qed.
Print Assumptions C17_type_ident_chain_partial.

(* outside that domain the identifier is an expression but not a name chain: "typing.List[int]" *)
Theorem C17_type_ident_chain_refuted : ~ C17_type_ident_chain_full.
Proof.
  intros H.
  specialize (H [116; 121; 112; 105; 110; 103; 46; 76; 105; 115; 116; 91; 105; 110; 116; 93]).
  vm_compute in H. discriminate H.
Qed.
Print Assumptions C17_type_ident_chain_refuted.

(* the rendering of a local class is never a name chain itself: it must not be pasted as code *)
Theorem C17_local_rendering_not_chain : forall r, is_local_type_name r = true -> name_chain r = false.
Proof. exact local_rendering_not_chain. Qed.
Print Assumptions C17_local_rendering_not_chain.

(* the input of the former known finding defaultdict-factory-local-class (repaired by /repo d8ae0ee), now an agreement
   example: "m.mk.<locals>.L" is not a name chain; its identifier "m_mk__locals__L" is, and is the registered alias *)
Example C17_defaultdict_factory_example :
  let r := [109; 46; 109; 107; 46; 60; 108; 111; 99; 97; 108; 115; 62; 46; 76] in
  let a := [109; 95; 109; 107; 95; 95; 108; 111; 99; 97; 108; 115; 95; 95; 76] in
  name_chain r = false /\ type_ident r = (a, Some a) /\ name_chain a = true /\
  type_ident [109; 46; 76] = ([109; 46; 76], None) /\ name_chain [109; 46; 76] = true.
Proof. vm_compute. repeat split. Qed.

(* ---- the table of type reference sites (regenerated from the source on every run) *)

Definition C17_typeref_sites_full : Prop := forall s, In s sites -> code_safe (s_form s) = true.

(* every type_name / get_type_name_identifier call of the generator either does not produce code (build-time message,
   debug print, quoted text), or produces an identifier reference (get_type_name_identifier, clean_id), or renders a
   constant chosen by the library - except the sites listed as a known finding (default_dialect in the lazy stubs) *)
Theorem C17_typeref_sites_partial : forall s,
  In s sites -> known_raw (s_form s) = false -> code_safe (s_form s) = true.
Proof. exact sites_partial. Qed.
Print Assumptions C17_typeref_sites_partial.

Theorem C17_typeref_sites_refuted : ~ C17_typeref_sites_full.
Proof. exact sites_full_refuted. Qed.
Print Assumptions C17_typeref_sites_refuted.

(* the known raw sites really occur (the table is not vacuous about them) *)
Theorem C17_typeref_known_raw_witnesses :
  exists s, In s sites /\ s_form s = FRaw ADialect.
Proof.
  pose proof sites_dialect_witness as W. apply existsb_exists in W as (s & Hin & E). exists s. split; [exact Hin | apply form_eqb_eq; exact E].
Qed.

(* the type arguments of a GenericSerializableType are identifier references (repaired; was known finding
   generic-serializable-local-type-arg) *)
Theorem C17_generic_serializable_typerefs_are_identifiers : forall s,
  In s sites -> (s_func s = "pack_generic_serializable_type"%string \/ s_func s = "unpack_generic_serializable_type"%string) ->
  s_form s = FIdentCall.
Proof.
  intros s Hin Hf.
  assert (H : forallb (fun s => negb (String.eqb (s_func s) "pack_generic_serializable_type" || String.eqb (s_func s) "unpack_generic_serializable_type")
                               || form_eqb (s_form s) FIdentCall) sites = true) by (vm_compute; reflexivity).
  rewrite forallb_forall in H. specialize (H s Hin).
  destruct Hf as [Hf | Hf]; rewrite Hf in H; simpl in H; apply form_eqb_eq; exact H.
Qed.
Print Assumptions C17_generic_serializable_typerefs_are_identifiers.
Print Assumptions C17_typeref_known_raw_witnesses.

(* unpack_collection (deque / defaultdict / ... ): every type reference is an identifier reference; the defaultdict
   factory is one of them (the statement the reverse patch of d8ae0ee breaks at the source level) *)
Theorem C17_collection_typerefs_are_identifiers : forall s,
  In s sites -> s_func s = "unpack_collection"%string -> s_form s = FIdentCall.
Proof. exact collection_sites. Qed.
Print Assumptions C17_collection_typerefs_are_identifiers.

Example C17_collection_typerefs_nonvacuous :
  exists s, In s sites /\ s_func s = "unpack_collection"%string /\ s_form s = FIdentCall.
Proof.
  pose proof collection_sites_nonvacuous as W. apply existsb_exists in W as (s & Hin & E).
  apply andb_true_iff in E as [E1 E2]. exists s. split; [exact Hin | split; [apply String.eqb_eq; exact E1 | apply form_eqb_eq; exact E2]].
Qed.

(* ---- from the model of type_name (Render.v) to the text in the generated code: a class rendered module.qualname is
        referred to by a name chain - the dotted path when module and qualname are dotted identifiers, the clean_id alias
        (registered under exactly that name) when the qualified name carries the marker of a local class.  [codes] = the
        code points of a string. *)
Theorem C17_class_reference_is_chain : forall nn m q,
  is_local_type_name (codes q) = true \/ (name_chain (codes m) = true /\ name_chain (codes q) = true) ->
  name_chain (fst (type_ident (codes (render nn (RNamed m q))))) = true.
Proof. exact class_reference_is_chain. Qed.
Print Assumptions C17_class_reference_is_chain.

Theorem C17_local_class_alias : forall nn m q,
  is_local_type_name (codes q) = true ->
  type_ident (codes (render nn (RNamed m q))) =
    (K42.clean_id (codes (render nn (RNamed m q))), Some (K42.clean_id (codes (render nn (RNamed m q))))).
Proof. exact local_class_alias. Qed.
Print Assumptions C17_local_class_alias.

(* the hand-written ASCII model of clean_id used by the string-level binding lemmas (NsBind, C17_clean_id_refuted) is the
   translated kernel on 7-bit input, and NsBind.local_render is what the translated get_type_name_identifier pastes *)
Theorem C17_clean_id_model_is_kernel : forall s, all7 s = true -> codes (NsBind.clean_id s) = K42.clean_id (codes s).
Proof. exact clean_id_model_is_kernel. Qed.
Print Assumptions C17_clean_id_model_is_kernel.

Theorem C17_local_render_is_type_ident : forall s,
  all7 s = true -> is_local_type_name (codes s) = true -> fst (type_ident (codes s)) = codes (local_render s).
Proof. exact local_render_is_type_ident. Qed.
Print Assumptions C17_local_render_is_type_ident.

Example C17_class_reference_examples :
  name_chain (fst (type_ident (codes (render false (RNamed "pkg.mod" "Outer.Inner"))))) = true /\
  fst (type_ident (codes (render false (RNamed "pkg.mod" "mk.<locals>.L")))) = codes "pkg_mod_mk__locals__L" /\
  name_chain (codes (render false (RNamed "pkg.mod" "mk.<locals>.L"))) = false.
Proof. vm_compute. repeat split. Qed.

(* ---- identity binding of local classes, end to end: the text the translated get_type_name_identifier pastes for a local
        class o (and registers it under) is a name that denotes o in the namespace assembled by setdefault, when the
        aliases are pairwise distinct and fresh; refuted without distinctness (m.f.<locals>.A_B / m.f.<locals>.A.B) *)
Theorem C17_local_alias_binding_partial : forall (V : Type) (rend : V -> string) objs m0 o,
  (forall o', In o' objs -> all7 (rend o') = true /\ is_local_type_name (codes (rend o')) = true) ->
  NoDup (map (alias V rend) objs) ->
  (forall o', In o' objs -> lookup V (alias V rend o') m0 = None) ->
  In o objs ->
  fst (type_ident (codes (rend o))) = codes (alias V rend o) /\
  snd (type_ident (codes (rend o))) = Some (codes (alias V rend o)) /\
  lookup V (alias V rend o) (ns_setdefault V (alias V rend) objs m0) = Some o.
Proof. exact local_alias_binding. Qed.
Print Assumptions C17_local_alias_binding_partial.

Theorem C17_local_alias_binding_refuted : ~ local_alias_binding_full.
Proof. exact local_alias_binding_refuted. Qed.
Print Assumptions C17_local_alias_binding_refuted.
