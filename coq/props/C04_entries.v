(* C04 ("through mixin methods and through Encoder/Decoder objects alike"): the Encoder / Decoder objects of the
   five formats are the format model's encode / decode - the same composition, the same library function and the
   same effective dialect as the mixin methods - so the round trip of C04_formats.v holds for them too.
   Everything specific to /repo is read from the source on this run:
     VerifGen.K104a  the rows of mashumaro/codecs/*.py and mashumaro/mixins/*.py (dialect rule, library function),
     VerifGen.K40  the program add_decode_method / add_encode_method emit,
     VerifGen.K41  (via the class names) the dialect class whose content is Fmt.fmt_entry. *)
From Coq Require Import List String ZArith Bool.
From Verif Require Import Fmt FmtProofs FmtDialectSource FmtEntries CodecWrap FmtEntriesProofs.
From VerifGen Require Import K40 K104a.
Import ListNotations.
Open Scope string_scope.

(* codec classes and mixin of one format: same loads / dumps (the model's parse_F / ser_F), same dialect class (the one
   K41 reads), codec rule = "merge the caller's default_dialect into it" *)
Theorem C04_entry_points_alike : forall F,
  exists c m, assoc_fmt F source_codecs = Some c /\ assoc_fmt F source_mixins = Some m /\
    c_dec_rule c = rule_of F /\ c_enc_rule c = rule_of F /\
    c_dec_fn c = lib_parse F /\ m_dec_fn m = lib_parse F /\
    c_enc_fn c = lib_ser F /\ m_enc_fn m = lib_ser F /\
    m_pack_dialect m = dialect_class F /\ m_unpack_dialect m = dialect_class F /\
    assoc_fmt F k41_classes = dialect_class F /\
    m_pack_name m = pack_name F /\ m_unpack_name m = unpack_name F.
Proof. exact entry_points_alike. Qed.
Print Assumptions C04_entry_points_alike.

(* <F>Decoder(t, default_dialect=X).decode(d)  =  Fmt.decode under  F's dialect (+) X *)
Theorem C04_decoder_object_is_model_decode :
  forall (parse_leaf: lkind -> string -> option string) (uparse: nat -> lkind -> string -> option string)
         (E: env) (EN: enums) (doc: Type) (ser: fmt -> bv -> doc) (parse: fmt -> doc -> option bv)
         F c X t b_m M,
    assoc_fmt F source_codecs = Some c ->
    (b_m = true -> forall x, unpack_expr parse_leaf uparse E EN doc (rule_lsem F (c_dec_rule c) X) t x = M x) ->
    forall d, decoder_obj parse_leaf uparse E EN doc ser parse F c X t b_m M (UDoc doc d)
              = res_opt doc (UObj doc) (decode parse_leaf uparse E EN doc parse (eff_lsem F X) F t d).
Proof. exact decoder_obj_is_decode. Qed.
Print Assumptions C04_decoder_object_is_model_decode.

(* <F>Encoder(t, default_dialect=X).encode(v)  =  Fmt.encode under  F's dialect (+) X *)
Theorem C04_encoder_object_is_model_encode :
  forall (render: lkind -> string -> string) (urender: nat -> lkind -> string -> string)
         (E: env) (EN: enums) (doc: Type) (ser: fmt -> bv -> doc) (parse: fmt -> doc -> option bv)
         F c X t b_m M,
    assoc_fmt F source_codecs = Some c ->
    (b_m = true -> forall x, pack_expr render urender E EN doc (rule_lsem F (c_enc_rule c) X) t x = M x) ->
    forall v, encoder_obj render urender E EN doc ser parse F c X t b_m M (UObj doc v)
              = res_opt doc (UDoc doc) (encode render urender E EN doc ser (eff_lsem F X) F t v).
Proof. exact encoder_obj_is_encode. Qed.
Print Assumptions C04_encoder_object_is_model_encode.

(* round trip through the objects (same premises as C04_roundtrip_partial) *)
Theorem C04_codec_objects_roundtrip :
  forall (render: lkind -> string -> string) (parse_leaf: lkind -> string -> option string)
         (urender: nat -> lkind -> string -> string) (uparse: nat -> lkind -> string -> option string)
         (leaf_ok: lkind -> string -> bool) (E: env) (EN: enums)
         (doc: Type) (ser: fmt -> bv -> doc) (parse: fmt -> doc -> option bv) (leaf_repr: fmt -> lkind -> string -> bool),
    (forall k p, leaf_ok k p = true -> parse_leaf k (render k p) = Some p) ->
    (forall u k p, leaf_ok k p = true -> uparse u k (urender u k p) = Some p) ->
    (forall F b, representable leaf_repr F b = true -> parse F (ser F b) = Some (norm render F b)) ->
    forall F c X t v bme bmd Me Md,
      assoc_fmt F source_codecs = Some c ->
      (bme = true -> forall x, pack_expr render urender E EN doc (rule_lsem F (c_enc_rule c) X) t x = Me x) ->
      (bmd = true -> forall x, unpack_expr parse_leaf uparse E EN doc (rule_lsem F (c_dec_rule c) X) t x = Md x) ->
      coherentb F (eff_lsem F X) = true ->
      in_subset render urender leaf_ok E EN leaf_repr (eff_lsem F X) F t v -> defaults_ok E (eff_lsem F X) ->
      forall x, encoder_obj render urender E EN doc ser parse F c X t bme Me (UObj doc v) = Some x ->
                decoder_obj parse_leaf uparse E EN doc ser parse F c X t bmd Md x = Some (UObj doc v).
Proof. exact codec_objects_roundtrip. Qed.
Print Assumptions C04_codec_objects_roundtrip.

(* ---- non-vacuity: TOMLEncoder / TOMLDecoder on a class with an omitted None and a native datetime; the
        MessagePack objects built with a caller's default_dialect; documents are parsed trees here ---- *)
Definition ex_env : env :=
  [("A", [("x", (TOpt TInt, true)); ("when", (TLeaf KDatetime, false)); ("raw", (TLeaf KBytes, false));
          ("kids", (TList (TData "A"), false))])].
Definition ex_leaf : pv :=
  VObj "A" [("x", VInt 3%Z); ("when", VLeaf KDatetime "2021-01-01T00:00:00"); ("raw", VLeaf KBytes "00"); ("kids", VList [])].
Definition ex_val : pv :=
  VObj "A" [("x", VNone); ("when", VLeaf KDatetime "2020-01-02T03:04:05"); ("raw", VLeaf KBytes "ff"); ("kids", VList [ex_leaf])].
Definition ex_ser (F: fmt) (b: bv) : bv := norm id_render F b.
Definition ex_parse (F: fmt) (d: bv) : option bv := Some d.
Definition ex_user : udialect := udial_of [(KBytes, EDict (Some 2%nat) (Some 2%nat))].
Definition no_method (x: uval bv) : option (uval bv) := None.

Example C04_entries_nonvacuous :
  exists ct cm,
    assoc_fmt FToml source_codecs = Some ct /\ assoc_fmt FMsgpack source_codecs = Some cm /\
    (* TOML: x is omitted, `when` stays native, and the Decoder object gives the value back *)
    (exists d, encoder_obj id_render id_urender ex_env [] bv ex_ser ex_parse FToml ct no_user (TData "A") false no_method
                 (UObj bv ex_val) = Some (UDoc bv (BDict d))
               /\ lookup "x" d = None /\ lookup "when" d = Some (BNat KDatetime "2020-01-02T03:04:05")
               /\ decoder_obj id_parse_leaf id_uparse ex_env [] bv ex_ser ex_parse FToml ct no_user (TData "A") false no_method
                    (UDoc bv (BDict d)) = Some (UObj bv ex_val)) /\
    (* MessagePack + default_dialect rendering bytes by a user strategy: `raw` is text in the document *)
    (exists d, encoder_obj id_render id_urender ex_env [] bv ex_ser ex_parse FMsgpack cm ex_user (TData "A") false no_method
                 (UObj bv ex_val) = Some (UDoc bv (BDict d))
               /\ lookup "raw" d = Some (BStr "ff") /\ lookup "x" d = Some BNone
               /\ decoder_obj id_parse_leaf id_uparse ex_env [] bv ex_ser ex_parse FMsgpack cm ex_user (TData "A") false no_method
                    (UDoc bv (BDict d)) = Some (UObj bv ex_val)) /\
    (* the rows themselves *)
    c_dec_rule ct = DMergeInto "mashumaro.mixins.toml.TOMLDialect" /\ c_enc_fn cm = "msgpack.packb(_, use_bin_type=True)" /\
    option_map c_dec_rule (assoc_fmt FJson source_codecs) = Some DAsIs.
Proof.
  eexists. eexists. split; [vm_compute; reflexivity|]. split; [vm_compute; reflexivity|].
  split; [eexists; split; [vm_compute; reflexivity | repeat split; vm_compute; reflexivity]|].
  split; [eexists; split; [vm_compute; reflexivity | repeat split; vm_compute; reflexivity]|].
  repeat split; vm_compute; reflexivity.
Qed.
