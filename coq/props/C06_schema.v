(* placeholder, filled below *)
From Verif Require Import JValid Schema.
