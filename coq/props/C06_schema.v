(* C06: generated JSON Schema accepts everything the serializer produces.
   Model: Verif.Schema (types, values, enc_ok, schema_f, defs_f, ty_ok/env_ok), Verif.JValid
   (Draft 2020-12 keyword subset); tuples go through the kernel VerifGen.K6 translated from /repo. *)
From Coq Require Import List String ZArith Bool.
From Verif Require Import PyK JValid PyK_tuple K6Proofs TzName Schema C06Proofs C06Final C06Tz K6NProofs.
From VerifGen Require Import K6 K6N.
Import ListNotations.
Open Scope string_scope.
Close Scope Z_scope.

(* Full-strength statement (every type of the model grammar, no domain restriction): refuted below. *)
Definition C06_sound_full : Prop :=
  forall pm E dl ar md ds n cur base t v j m s k,
    defs_f E dl ar md (classes E) = Some ds -> enc_ok n E cur base t v j = true -> schema_f E dl ar cur m t = Some s ->
    2 * n + 1 <= k -> jvalid pm ds k s j = true.

(* Soundness on the domain ty_ok / env_ok (= everything except the known findings; fixed tuples may
   contain an Unpack[...] segment per level, nested to any depth): for every dialect (ref prefix),
   all_refs mode, class table, type, value, admissible serialization j, all fuels. *)
Theorem C06_sound_partial :
  forall (pm: string -> string -> bool),
    (forall m, (-1440 < m < 1440)%Z -> pm UTC_PATTERN (tzname m) = true) ->
  forall E dl ar md ds,
    env_ok E = true -> defs_f E dl ar md (classes E) = Some ds ->
  forall n cur base t v j m m' s k,
    ty_ok m' E cur base t = true -> enc_ok n E cur base t v j = true -> schema_f E dl ar cur m t = Some s ->
    2 * n + 1 <= k -> jvalid pm ds k s j = true.
Proof. exact C06_sound_thm. Qed.
Print Assumptions C06_sound_partial.

(* the pattern hypothesis holds for the backtracking matcher on the pattern text of /repo *)
Theorem C06_tz_pattern : forall m, (-1440 < m < 1440)%Z -> pm_regex UTC_PATTERN (tzname m) = true.
Proof. exact pm_regex_tz. Qed.
Print Assumptions C06_tz_pattern.

Theorem C06_required_iff_no_default : forall E dl ar m d s, class_schema E dl ar m d = Some s ->
  forall key, In key (get_required (kws_of s)) <->
              exists f, In f (c_fields d) /\ f_key f = key /\ f_init f = true /\ f_has_default f = false
                        /\ (c_omit d && fnullable f) = false.
Proof. exact required_iff_no_default. Qed.
Print Assumptions C06_required_iff_no_default.

Theorem C06_satisfiable : forall (targs: list (targ schema)),
  (forall u, In u (unpacks targs) -> u_ok u) ->
  forall mn mx, get_kw_min (tuple_kws (on_tuple_k targs)) = Some mn ->
                get_kw_max (tuple_kws (on_tuple_k targs)) = Some mx -> (mn <= mx)%Z.
Proof. exact tuple_satisfiable. Qed.
Print Assumptions C06_satisfiable.

(* the known findings, exhibited in the model (each: an admissible serialization rejected) *)
Theorem C06_flag_refuted :
  enc_ok 5 E_flag false false (TEnum "F") (VFlag 3) (JInt 3) = true /\
  exists s, schema_f E_flag dl2020 false false 5 (TEnum "F") = Some s /\ jvalid pm_any [] 50 s (JInt 3) = false.
Proof. exact flag_refuted. Qed.
Theorem C06_intkey_refuted :
  enc_ok 5 E0 false false (TDict TInt TStr) (VDict [(VInt 1, VStr "a")]) (JObj [("1", JStr "a")]) = true /\
  exists s, schema_f E0 dl2020 false false 5 (TDict TInt TStr) = Some s /\ jvalid pm_any [] 50 s (JObj [("1", JStr "a")]) = false.
Proof. exact intkey_refuted. Qed.
Theorem C06_shared_defs_refuted :
  enc_ok 9 E_same false false (TData "HP") (VObj [("a", VObj [("v", VInt 1)]); ("b", VObj [("v", VStr "s")])]) doc_same = true /\
  ty_ok 9 E_same false false (TData "HP") = true /\
  (exists s, schema_f E_same dl2020 false false 9 (TData "HP") = Some s /\ jvalid pm_any [] 50 s doc_same = true) /\
  exists s ds, schema_f E_same dl2020 true false 9 (TData "HP") = Some s /\ defs_f E_same dl2020 true 9 (classes E_same) = Some ds /\
               jvalid pm_any ds 50 s doc_same = false.
Proof. exact shared_defs_refuted. Qed.
Theorem C06_set_collision_refuted :
  all2 (enc_ok 5 E0 false false (TUnion [TStr; TLeaf "date"])) [VStr "2020-01-01"; VLeaf "2020-01-01"] [JStr "2020-01-01"; JStr "2020-01-01"] = true /\
  exists s, schema_f E0 dl2020 false false 5 t_setu = Some s /\
            jvalid pm_any [] 50 s (JArr [JStr "2020-01-01"; JStr "2020-01-01"]) = false.
Proof. exact set_collision_refuted. Qed.
Theorem C06_init_false_refuted :
  enc_ok 5 E_init false false (TData "B") (VObj [("n", VInt 5)]) (JObj [("n", JInt 5)]) = true /\
  exists s, schema_f E_init dl2020 false false 5 (TData "B") = Some s /\ jvalid pm_any [] 50 s (JObj [("n", JInt 5)]) = false.
Proof. exact init_false_refuted. Qed.

(* named tuples as dicts / field override inside containers *)
Theorem C06_nt_override_container_refuted :
  enc_ok 9 E_ovc false false (TData "A") v_ovc j_ovc = true /\
  exists s, schema_f E_ovc dl2020 false false 9 (TData "A") = Some s /\ jvalid pm_any [] 50 s j_ovc = false.
Proof. exact nt_override_container_refuted. Qed.
(* omit_none: a nullable field without default is dropped for None and not required (fix a5aab21) *)
Example C06_omit_none_required_example :
  ty_ok 5 E_omit false false (TData "A") = true /\
  enc_ok 5 E_omit false false (TData "A") (VObj [("x", VNone)]) (JObj []) = true /\
  exists s, schema_f E_omit dl2020 false false 5 (TData "A") = Some s /\ get_required (kws_of s) = [] /\
            jvalid pm_any [] 50 s (JObj []) = true.
Proof. exact omit_none_required_example. Qed.

(* the as_dict decision of the serializer and of the schema builder (kernels K6N) equal the model's nt_mode *)
Theorem C06_nt_mode_schema : forall (c: bool) (ov: option bool),
  schema_nt_as_dict (KBool c) (enc_ov ov) = Ok (KBool (nt_mode c ov)).
Proof. exact schema_mode_thm. Qed.
Print Assumptions C06_nt_mode_schema.
Theorem C06_nt_mode_pack : forall (c: bool) (ov: option bool),
  pack_nt_as_dict (KBool c) (enc_ov ov) = Ok (KBool (nt_mode c ov)).
Proof. exact pack_mode_thm. Qed.
Print Assumptions C06_nt_mode_pack.

Theorem C06_sound_full_refuted : ~ C06_sound_full.
Proof.
  intros H. destruct flag_refuted as (He & s & Hs & Hv).
  rewrite (H pm_any E_flag dl2020 false 5 [] 5 false false (TEnum "F") (VFlag 3) (JInt 3) 5 s 50 eq_refl He Hs) in Hv; [discriminate|].
  repeat constructor.
Qed.
Print Assumptions C06_sound_full_refuted.

(* non-vacuity: the hypotheses of C06_sound_partial are met by a nested dataclass with alias,
   default, Optional, list of dates, str-keyed dict of fixed tuples, in all_refs mode *)
Example C06_nonvacuous : env_ok E_nv = true /\ ty_ok 9 E_nv false false (TData "H") = true /\ enc_ok 9 E_nv false false (TData "H") v_nv j_nv = true /\
  (exists s, schema_f E_nv dl2020 true false 9 (TData "H") = Some s) /\ (exists ds, defs_f E_nv dl2020 true 9 (classes E_nv) = Some ds).
Proof. exact nonvacuous. Qed.

(* non-vacuity of C06_sound_partial on the constructs added in round 3: a class with namedtuple_as_dict
   and omit_none, a field override to as_list, a variadic tuple of named tuples, nested Optionals keeping
   null, a dropped None field; all_refs mode; the document validates *)
Example C06_nonvacuous_nt_omit : env_ok E_nv2 = true /\ ty_ok 9 E_nv2 false false (TData "S") = true /\
  enc_ok 9 E_nv2 false false (TData "S") v_nv2 j_nv2 = true /\
  (exists s ds, schema_f E_nv2 dl2020 true false 9 (TData "S") = Some s /\ defs_f E_nv2 dl2020 true 9 (classes E_nv2) = Some ds /\
                jvalid pm_any ds 50 s j_nv2 = true).
Proof. exact nonvacuous2. Qed.

(* non-vacuity on fixed tuples with an Unpack segment (element-wise soundness, round 4): the hypotheses hold for
   Tuple[int, Unpack[Tuple[str, ...]], bool] and Tuple[int, Unpack[Tuple[str, float]]]; their schemas accept the
   serializations and reject a too short array / a wrongly typed prefix element *)
Example C06_nonvacuous_unpack :
  ty_ok 9 E0 false false t_unp_var = true /\ ty_ok 9 E0 false false t_unp_fix = true /\
  enc_ok 9 E0 false false t_unp_var (VList [VInt 1; VStr "a"; VStr "b"; VBool true]) (JArr [JInt 1; JStr "a"; JStr "b"; JBool true]) = true /\
  enc_ok 9 E0 false false t_unp_fix (VList [VInt 1; VStr "a"; VFlt "2.5"]) (JArr [JInt 1; JStr "a"; JFlt "2.5"]) = true /\
  (exists s, schema_f E0 dl2020 false false 9 t_unp_var = Some s /\
             jvalid pm_any [] 50 s (JArr [JInt 1; JStr "a"; JStr "b"; JBool true]) = true /\
             jvalid pm_any [] 50 s (JArr [JInt 1]) = false) /\
  (exists s, schema_f E0 dl2020 false false 9 t_unp_fix = Some s /\
             jvalid pm_any [] 50 s (JArr [JInt 1; JStr "a"; JFlt "2.5"]) = true /\
             jvalid pm_any [] 50 s (JArr [JInt 1; JInt 2; JFlt "2.5"]) = false).
Proof. exact nonvacuous_unpack. Qed.

Example C06_nonvacuous_unpack_nested :
  ty_ok 9 E0 false false t_unp_nest = true /\
  enc_ok 9 E0 false false t_unp_nest (VList [VInt 1; VStr "a"; VFlt "2.5"; VFlt "0.5"; VBool true])
         (JArr [JInt 1; JStr "a"; JFlt "2.5"; JFlt "0.5"; JBool true]) = true /\
  exists s, schema_f E0 dl2020 false false 9 t_unp_nest = Some s /\
            jvalid pm_any [] 50 s (JArr [JInt 1; JStr "a"; JFlt "2.5"; JFlt "0.5"; JBool true]) = true /\
            jvalid pm_any [] 50 s (JArr [JInt 1; JBool true]) = false.
Proof. exact nonvacuous_unpack_nested. Qed.

(* overridden serialization (field option serialize=<function>, Config / dialect serialization_strategy): the schema
   describes the function's return annotation; sound for non-nullable fields, refuted for nullable ones (None is not
   passed to the function) *)
Theorem C06_overridden_nullable_refuted :
  enc_ok 5 E_ovn false false (TData "A") (VObj [("x", VNone)]) (JObj [("x", JNull)]) = true /\
  exists s, schema_f E_ovn dl2020 false false 5 (TData "A") = Some s /\ jvalid pm_any [] 50 s (JObj [("x", JNull)]) = false.
Proof. exact overridden_nullable_refuted. Qed.
Example C06_nonvacuous_override :
  env_ok E_ov = true /\ ty_ok 9 E_ov false false (TData "S") = true /\
  enc_ok 9 E_ov false false (TData "S") (VObj [("l", VStr "1,2"); ("d", VInt 7); ("p", VBool true)])
         (JObj [("l", JStr "1,2"); ("d", JInt 7); ("p", JBool true)]) = true /\
  exists s, schema_f E_ov dl2020 false false 9 (TData "S") = Some s /\
            jvalid pm_any [] 50 s (JObj [("l", JStr "1,2"); ("d", JInt 7); ("p", JBool true)]) = true /\
            jvalid pm_any [] 50 s (JObj [("l", JArr [JInt 1; JInt 2]); ("d", JInt 7); ("p", JBool true)]) = false.
Proof. exact nonvacuous_override. Qed.
