(* C02: the basic form of a union value (kernel K21 = the loops of pack.py:pack_union, translated on every run). *)
From Coq Require Import List Bool Arith String ZArith.
From Verif Require Import UnionModel PackEmit C02UnionOrder.
From VerifGen Require K21.
Import ListNotations.
Open Scope string_scope.

Theorem C02_union_passthrough_as_is : forall pms v m,
  In m pms -> p_ident m = true -> class_of v = p_cls m -> run_pres (K21.emit pms) v = Some v.
Proof. exact passthrough_as_is. Qed.
Print Assumptions C02_union_passthrough_as_is.

Theorem C02_union_passthrough_order_free : forall pms pms' v m,
  In m pms -> (forall x, In x pms -> In x pms') -> p_ident m = true -> class_of v = p_cls m ->
  run_pres (K21.emit pms') v = run_pres (K21.emit pms) v.
Proof. exact passthrough_order_free. Qed.
Print Assumptions C02_union_passthrough_order_free.

Theorem C02_union_converting_in_declared_order : forall pms v,
  pms <> [] -> forallb p_ident pms = false ->
  existsb (fun m => p_ident m && String.eqb (class_of v) (p_cls m)) pms = false ->
  run_pres (K21.emit pms) v = first_some (fun m => p_enc m v) (dedup p_key Nat.eqb (filter (fun m => negb (p_ident m)) pms)).
Proof. exact converting_in_declared_order. Qed.
Print Assumptions C02_union_converting_in_declared_order.

(* Union[Decimal, int] and Union[FrozenSet[str], str]: the converting member is declared first and never fails *)
Example C02_union_nonvacuous :
  let str_ := fun v => match v with UInt z => Some (UStr "5") | UObj _ r => Some (UStr r) | _ => Some (UStr "?") end in
  let lst := fun v => match v with UStr _ => Some (UList [UStr "a"; UStr "b"]) | _ => Some (UList []) end in
  run_pres (K21.emit [PM "Decimal" (Some 1%nat) str_; PM "int" None Some]) (UInt 5) = Some (UInt 5) /\
  run_pres (K21.emit [PM "Decimal" (Some 1%nat) str_; PM "int" None Some]) (UObj "Decimal" "1.50") = Some (UStr "1.50") /\
  run_pres (K21.emit [PM "frozenset" (Some 2%nat) lst; PM "str" None Some]) (UStr "ab") = Some (UStr "ab").
Proof. cbv zeta. repeat split; reflexivity. Qed.
