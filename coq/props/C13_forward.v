(* C13 - forwarding of the call dialect to nested calls (kernel K13U: get_unpack_method_flags and the
   flag call sites of types/pack.py, types/unpack.py). *)
From Coq Require Import List String ZArith Bool.
From Verif Require Import PyK PyK_c08 DialectForward.
From VerifGen Require Import K13U.
Import ListNotations.
Open Scope string_scope.

Theorem C13_unpack_flags :
  forall s o, get_unpack_method_flags s o = Ok (KStr (if dl_enabled o && dl_enabled s then "dialect=dialect" else "")).
Proof. exact unpack_flags_spec. Qed.
Print Assumptions C13_unpack_flags.

Theorem C13_self_forwards_dialect :
  forall s, dl_enabled s = true -> get_unpack_method_flags s s = Ok (KStr "dialect=dialect").
Proof. exact self_forwards_dialect. Qed.
Print Assumptions C13_self_forwards_dialect.

(* in a Self position the flags are computed for the builder's own class, in a nested-dataclass
   position for the nested type, elsewhere for the builder itself *)
Theorem C13_flag_sites : forall x, In x flag_call_sites -> site_ok x = true.
Proof. exact flag_sites_ok. Qed.
Print Assumptions C13_flag_sites.

Example C13_forward_nonvacuous :
  dl_enabled (KNs [("ADD_DIALECT_SUPPORT", KBool true)]) = true /\
  get_unpack_method_flags (KNs [("ADD_DIALECT_SUPPORT", KBool true)]) (KNs []) = Ok (KStr "") /\
  has_site "unpack.py" "is_self" = true /\ has_site "pack.py" "is_self" = true.
Proof. repeat split; vm_compute; reflexivity. Qed.
