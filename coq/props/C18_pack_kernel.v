(* C18, anchor "copy() vs by-reference vs comprehension decision" (pack.py:pack_collection) -- the part K15 does
   not cover: WHICH collection types are submitted to the rule.  Kernel K118b (the if/elif chain of pack_collection,
   pack_tuple, pack_named_tuple, pack_typed_dict; translated on this run) composed with K15 gives the model's
   encode compiler. *)
From Coq Require Import List Bool.
From Verif Require Import Share ShareProofs CollDecision ShareK15 UnpackDecision PackDecision ShareK118a ShareK118b.
From VerifGen Require Import K15 K118b.
Import ListNotations.

(* whatever the origin type is: outside the rule the chain returns its input only for str subclasses (immutable)
   and never a shallow copy; so a mutable container is passed by reference only where K15's rule says so *)
Theorem C18_pack_source_byref_only_by_rule : forall f,
  p_outside_rule (pack_collection_decision f) = true ->
  pack_collection_decision f = PDSame /\ uf_sub f UStr = true.
Proof. exact pack_collection_same_only_str. Qed.
Print Assumptions C18_pack_source_byref_only_by_rule.

Theorem C18_pack_structs_rebuild :
  existsb p_outside_rule (pack_tuple_results ++ pack_named_tuple_results ++ pack_typed_dict_results) = false.
Proof. exact pack_structs_rebuild. Qed.
Print Assumptions C18_pack_structs_rebuild.

Theorem C18_pack_seq_is_source : forall E N hsup o t,
  is_seq_origin o = true ->
  ir_of_pdecision N o (pack_collection_decision (pack_origin_facts o)) (cp E N hsup t) IId IId
  = Some (cp E N hsup (TSeq o t)).
Proof. exact cp_seq_is_source. Qed.
Print Assumptions C18_pack_seq_is_source.

Theorem C18_pack_map_is_source : forall E N hsup o kt vt,
  is_map_origin o = true ->
  ir_of_pdecision N o (pack_collection_decision (pack_origin_facts o)) IId (cp E N hsup kt) (cp E N hsup vt)
  = Some (cp E N hsup (TMap o kt vt)).
Proof. exact cp_map_is_source. Qed.
Print Assumptions C18_pack_map_is_source.

Theorem C18_pack_chainmap_is_source : forall E N hsup kt vt,
  ir_of_pdecision N ODict (pack_collection_decision pxf_chainmap) IId (cp E N hsup kt) (cp E N hsup vt)
  = Some (cp E N hsup (TComp KChainMap (TRMap kt vt))).
Proof. exact cp_chainmap_is_source. Qed.
Print Assumptions C18_pack_chainmap_is_source.

Theorem C18_pack_tuple_is_source :
  pack_collection_decision (pack_origin_facts OTuple) = PDTuple /\
  forall d, In d pack_tuple_results -> d = PDSeqComp \/ d = PDItems \/ d = PDEmpty.
Proof. exact pack_tuple_is_source. Qed.
Print Assumptions C18_pack_tuple_is_source.

(* the whole encode compiler, collection cases assembled from K118b + K15, is the model's *)
Theorem C18_pack_compiler_is_source : forall E N hsup t, wf_origins t = true -> cpK E N hsup t = cp E N hsup t.
Proof. exact cpK_is_cp. Qed.
Print Assumptions C18_pack_compiler_is_source.

(* hence C18_share holds for the compiler built from the source *)
Theorem C18_share_source : forall E n0 call Ntop t v,
  wf_origins t = true ->
  conforms E v t = true -> udet E v call Ntop true t = true -> all_old n0 v = true ->
  let (r, n1) := run_pack E v call (cpK E Ntop true t) n0 in
  maxold n0 r = byref E (ident E) v call Ntop true t /\ n0 <= n1.
Proof. exact pack_share_source. Qed.
Print Assumptions C18_share_source.
