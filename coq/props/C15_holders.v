(* C15 - the holder objects of the codec path and the dataclass call site of both paths.
   Property theorems only; model + proofs in theories/C15Holders.v.  The receiver of the emitted call, the place the
   generated method is stored, the nested-builder condition and ValueSpec.attrs are the kernel K115a, read off
   /repo/mashumaro/core/meta/types/{pack,unpack,common}.py on this run. *)
From Coq Require Import List String ZArith Bool.
From Verif Require Import C15Model C15Proofs C15Site C15Holders C15Nailed.
From VerifGen Require Import K115a.
Import ListNotations.
Open Scope string_scope.

(* the two-path interpreter's dispatch (C15Model.target, hand-written) is the meaning of the receiver pack_dataclass
   emits: `value.m()` = lookup along the MRO of the runtime class for a nailed builder, the function bound at compile
   time to the annotated class's holder for a codec builder *)
Theorem C15_site_target_kernel : forall E m ann rc,
  target E m ann rc = resolve E (K115a.pack_recv (nailed m)) ann rc.
Proof. exact target_by_kernel. Qed.
Print Assumptions C15_site_target_kernel.

(* the mixin path stores generated methods on the class (visible to everybody), the codec path on a holder *)
Theorem C15_site_method_loc_kernel : forall m,
  K115a.pack_method_loc (nailed m) = (match m with Mixin => LClass | Codec => LHolder end) /\
  K115a.unpack_method_loc (nailed m) = (match m with Mixin => LClass | Codec => LHolder end).
Proof. exact method_loc_by_kernel. Qed.
Print Assumptions C15_site_method_loc_kernel.

(* decoding never dispatches on a runtime class, on either path *)
Theorem C15_site_unpack_static : forall b E ann rc rc',
  resolve E (K115a.unpack_recv b) ann rc = resolve E (K115a.unpack_recv b) ann rc'.
Proof. exact unpack_static. Qed.
Print Assumptions C15_site_unpack_static.

(* creating a codec (any shape type, any world): class table untouched, existing registries untouched, one registry
   added whose holders are all new objects *)
Theorem C15_codec_creation_frame : forall w t w', create_codec w t = Ok w' ->
  w_env w' = w_env w /\ w_next w <= w_next w' /\
  exists r, w_regs w' = (w_regs w ++ [r])%list /\ Forall (fun i => w_next w <= i < w_next w') (ids r).
Proof. exact create_codec_frame. Qed.
Print Assumptions C15_codec_creation_frame.

Theorem C15_codec_holders_disjoint : forall w t w', wf w -> create_codec w t = Ok w' ->
  exists r, w_regs w' = (w_regs w ++ [r])%list /\
            forall r0 i, In r0 (w_regs w) -> In i (ids r0) -> ~ In i (ids r).
Proof. exact create_codec_disjoint. Qed.
Print Assumptions C15_codec_holders_disjoint.

(* a constructed codec is complete: every dataclass position of the shape type, and transitively of the fields of the
   compiled classes, is bound to a holder of THIS codec that owns the generated method (strict or late binding) *)
Theorem C15_codec_complete : forall w t w', create_codec w t = Ok w' ->
  exists r, w_regs w' = (w_regs w ++ [r])%list /\
            (forall c, In c (ty_classes t) -> owns r c) /\ closed_reg (w_env w) r.
Proof. exact create_codec_complete. Qed.
Print Assumptions C15_codec_complete.

(* decoders: the same frame and completeness *)
Theorem C15_decoder_creation_frame_complete : forall w t w', create_decoder w t = Ok w' ->
  w_env w' = w_env w /\ w_next w <= w_next w' /\
  exists r, w_regs w' = (w_regs w ++ [r])%list /\ Forall (fun i => w_next w <= i < w_next w') (ids r) /\
            (forall c, In c (ty_classes t) -> owns r c) /\ closed_reg (w_env w) r.
Proof. exact create_decoder_frame_complete. Qed.
Print Assumptions C15_decoder_creation_frame_complete.

(* histories in which codec creation really compiles (and may fail): the observed calls are those of the initial class
   table, codecs never come to share a holder, existing registries stay *)
Theorem C15_frame_history_holders : forall w ops,
  names_ok (w_env w) = true -> Forall (in_dom (w_env w)) ops -> wf w ->
  outs_w w ops = calls (w_env w) ops /\ wf (final_w w ops) /\ exists l, w_regs (final_w w ops) = (w_regs w ++ l)%list.
Proof. exact frame_history_w. Qed.
Print Assumptions C15_frame_history_holders.

(* the mixin path's side of creation: executing class statements (mixin classes, subclasses, wrappers) installs methods
   on the plain classes their nailed builders reach - computed by the model from the kernel's method location and
   nested-builder condition - and never changes an in-domain call of either path, under any dialect *)
Theorem C15_frame_class_statements : forall E mixins roots m o t v,
  no_lookalike_union E t = true -> dialect_compat_o E o = true -> names_ok E = true -> exact E v t = true ->
  run_pack_o (k_module_exec E mixins roots) m o t v = run_pack_o E m o t v.
Proof. exact frame_class_statements. Qed.
Print Assumptions C15_frame_class_statements.

Example C15_class_statements_nonvacuous :
  flags (k_module_exec E_n ["K3"] []) = [("K0", true); ("K1", false); ("K2", true); ("K3", true)] /\
  flags (k_module_exec E_n [] [TUnion [TData "K1"; TInt]]) = [("K0", false); ("K1", true); ("K2", false); ("K3", false)].
Proof. exact module_exec_example. Qed.

Example C15_holders_nonvacuous :
  match create_codec (mkW E_h [] 0) (TList (TData "K2")) with
  | Ok w1 => match create_codec w1 (TData "K2") with
             | Ok w2 => (map reg_view (w_regs w2), map ids (w_regs w2), w_env w2)
             | Err _ => ([], [], []) end
  | Err _ => ([], [], []) end
  = ([[("K2", true); ("K1", true); ("K0", true)]; [("K2", true); ("K1", true); ("K0", true)]],
     [[0; 1; 2]; [3; 4; 5]]%nat, E_h).
Proof. exact holders_two_codecs. Qed.

(* a self-referencing dataclass: which of the two holds is decided by the flag the kernel reads off the holder branch
   of pack_dataclass (strict `getattr(spec.attrs, method_name)` / late-bound call through the holder) *)
Theorem C15_selfref_codec_refuted : K115a.pack_selfref_late = false ->
  exact E_self v_self (TData "K0") = true /\ no_lookalike_union E_self (TData "K0") = true /\
  run_pack (map (set_method ["K0"]) E_self) Mixin None (TOpt (TData "K0")) v_self
    = Ok (VDict [("x", VInt 1); ("n", VDict [("x", VInt 2); ("n", VNone)])]) /\
  create_codec (mkW E_self [] 0) (TData "K0") = Err XRaw.
Proof. exact selfref_codec_refuted. Qed.
Print Assumptions C15_selfref_codec_refuted.

Theorem C15_selfref_codec_late : K115a.pack_selfref_late = true ->
  exists w', create_codec (mkW E_self [] 0) (TData "K0") = Ok w' /\ map reg_view (w_regs w') = [[("K0", true)]] /\
             w_env w' = E_self.
Proof. exact selfref_codec_late. Qed.
Print Assumptions C15_selfref_codec_late.
