(* C08 - kernel K13F = CodeBuilder.get_pack_method_default_flag_values (builder.py 673-733; plugin
   tools/kernels/k13f_flag_defaults.py of C13, reused), translated from /repo on this run, tied to
   the keyword defaults of the model OptProj.ctx_of. *)
From Coq Require Import List String ZArith Bool.
From Verif Require Import PyK OptProj OptEnc K3Proofs K13FOptProofs.
From VerifGen Require Import K3 K13F.
Import ListNotations.
Open Scope string_scope.

(* the rendered default of omit_none= / by_alias= of a method built for dialect bd (None: the
   default method) is the first set value among [bd; Config.dialect; Config; default dialect] *)
Theorem K13F_defaults : forall (o: opts) (bd: option ns),
  kw_default_omit_none (enc_ons bd) (enc_ons o.(o_cfgd)) (enc_ons (Some o.(o_cfg))) (enc_ons o.(o_dd))
  = Ok (pybool (look n_on (levels o bd))) /\
  kw_default_by_alias (enc_ons bd) (enc_ons o.(o_cfgd)) (enc_ons (Some o.(o_cfg))) (enc_ons o.(o_dd))
  = Ok (pybool (look n_ba (levels o bd))).
Proof. exact K13F_defaults_lemma. Qed.
Print Assumptions K13F_defaults.

(* and the model's run-time keyword values are the caller's value or that default of the DEFAULT method *)
Theorem C08_ctx_kw_defaults : forall (o: opts),
  r_on (ctx_of o) = kwdef o.(o_kon) (look n_on (levels o None)) /\
  r_ba (ctx_of o) = kwdef o.(o_kba) (look n_ba (levels o None)).
Proof. exact ctx_kw_defaults_lemma. Qed.
Print Assumptions C08_ctx_kw_defaults.

Example K13F_defaults_example :
  kw_default_omit_none KNone (KNs [("omit_none", KBool true)]) (KNs [("omit_none", KBool false)]) KNone = Ok (KStr "True").
Proof. reflexivity. Qed.
