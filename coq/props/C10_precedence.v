(* C10 - the most specific customization wins.
   kernel d / codegen d are the functions translated from /repo on this run (VerifGen.K5):
     kernel Ser = get_overridden_serialization_method      kernel De = get_overridden_deserialization_method
     codegen Ser = pack_type_with_overridden_serialization  codegen De = unpack_type_with_overridden_deserialization
   applied to the encoding of an arbitrary source record S (field options, and the four strategy
   tables: call dialect, Config.dialect, Config.serialization_strategy, default/format dialect)
   and arbitrary type objects An (annotated alias or None), T (exact type), O (origin). *)
From Coq Require Import List String ZArith.
From Verif Require Import PyK PyK_strat Strategies StrategiesProofs K5Kernel K5Proofs.
From VerifGen Require Import K5.
Import ListNotations.

(* the result is the minimum of the enabled (level, key) registrations under
   (field option, field strategy, key specificity, level), and that minimum is unique *)
Theorem C10_precedence : forall d S An T O e,
  let ks := keys_of An T O in
  kernel d S An T O = Ok (enc_result d (resolve S ks d)) /\
  codegen d S An T O e = Ok (emit d (resolve S ks d) e) /\
  is_lexmin S ks d (resolve S ks d) /\
  (forall r, is_lexmin S ks d r -> r = resolve S ks d).
Proof. exact c10_precedence. Qed.
Print Assumptions C10_precedence.

(* nothing enabled => the handler declines (None): built-in behaviour *)
Theorem C10_empty : forall d S An T O e,
  (forall s, at_slot S (keys_of An T O) d s = None) ->
  kernel d S An T O = Ok KNone /\ codegen d S An T O e = Ok KNone.
Proof. exact c10_empty. Qed.
Print Assumptions C10_empty.

(* pass_through at the winning slot => the emitted expression is the value expression itself *)
Theorem C10_pass_through : forall d S An T O e s,
  is_lexmin S (keys_of An T O) d (Some (s, WPass)) ->
  kernel d S An T O = Ok k_pass_through /\ codegen d S An T O e = Ok e.
Proof. exact c10_pass_through. Qed.
Print Assumptions C10_pass_through.

(* serialization and deserialization are the same resolution up to the direction tag *)
Theorem C10_sym : forall S An T O,
  let ks := keys_of An T O in
  kernel Ser S An T O = Ok (enc_result Ser (resolve S ks Ser)) /\
  kernel De S An T O = Ok (enc_result De (resolve S ks De)) /\
  (forall d, resolve (swap_sources S) ks (flip d) = swap_result (resolve S ks d)) /\
  (forall d, kernel (flip d) (swap_sources S) An T O = Ok (enc_result (flip d) (swap_result (resolve S ks d)))).
Proof. exact c10_sym. Qed.
Print Assumptions C10_sym.

(* ---- non-vacuity: concrete records ---- *)
Definition tAnn := KObj 11.  Definition tEx := KObj 12.  Definition tOr := KObj 13.
Definition both (m: nat) : sval := VDict (Some (FFn m)) (Some (FFn (100 + m))).
Definition full : sources :=
  {| f_ser := Some (FFn 1); f_de := Some (FFn 101); f_strat := Some (VStrat false false 2 102);
     t_call := Some [(tAnn, both 3); (tEx, both 4); (tOr, both 5)];
     t_cfgd := Some [(tAnn, both 6); (tEx, both 7); (tOr, both 8)];
     t_cfg := [(tAnn, both 9); (tEx, both 10); (tOr, both 11)];
     t_dflt := Some [(tAnn, both 12); (tEx, both 13); (tOr, both 14)] |}.

Example C10_all_levels : resolve full (keys_of tAnn tEx tOr) Ser = Some (SFieldOpt, WFn 1).
Proof. reflexivity. Qed.

(* key specificity beats level: alias key in the default dialect wins over the exact type
   in the call dialect; a deserialize-only entry does not shadow lower levels on serialization *)
Definition mixed : sources :=
  {| f_ser := None; f_de := None; f_strat := Some (VDict None (Some (FFn 102)));
     t_call := Some [(tAnn, VDict None (Some (FFn 103))); (tEx, both 4)];
     t_cfgd := None; t_cfg := [(tOr, VPass)];
     t_dflt := Some [(tAnn, both 12)] |}.
Example C10_key_major :
  resolve mixed (keys_of tAnn tEx tOr) Ser = Some (SReg 0 LDefault, WFn 12) /\
  resolve mixed (keys_of tAnn tEx tOr) De = Some (SFieldStrat, WFn 102) /\
  kernel Ser mixed tAnn tEx tOr = Ok (KObj 13).
Proof. repeat split; reflexivity. Qed.

Example C10_pass_through_nonvacuous :
  let S := {| f_ser := None; f_de := None; f_strat := None; t_call := None; t_cfgd := None;
              t_cfg := [(tOr, VPass)]; t_dflt := Some [(tOr, both 14)] |} in
  is_lexmin S (keys_of KNone tEx tOr) Ser (Some (SReg 1 LCfg, WPass)) /\
  codegen Ser S KNone tEx tOr (KStr "value") = Ok (KStr "value").
Proof.
  cbv zeta. split; [|reflexivity].
  match goal with |- is_lexmin ?S ?ks ?d ?r => change r with (resolve S ks d) end.
  apply resolve_is_lexmin.
Qed.

Example C10_empty_nonvacuous :
  let S := {| f_ser := None; f_de := Some (FFn 1); f_strat := None; t_call := None; t_cfgd := Some [];
              t_cfg := [(tEx, VDict None (Some (FFn 5)))]; t_dflt := None |} in
  (forall s, at_slot S (keys_of tAnn tEx tOr) Ser s = None) /\ kernel Ser S tAnn tEx tOr = Ok KNone.
Proof. cbv zeta. split; [apply resolve_none_iff|]; reflexivity. Qed.

(* ---- which keys reach the resolution (Registry.get, translated) ----
   first_handler = registry_prepare (translated Registry.get up to the handler loop) followed by the first handler.
   For a field declared with type t on a spec that carries annotated type a:
     t Annotated  => alias key = rt t (the alias *after* substituting the field's type parameters),
                     exact key = rt (org t), origin key = org (rt (org t));
     otherwise    => alias key = a (whatever the spec already carries), exact = rt t, origin = org (rt t). *)
Theorem C10_keys : forall d S rt org isann t o a e,
  first_handler d S rt org isann (mk_spec t o a) e =
  match keys_after rt org isann t a with
  | (a', t', o') => Ok (emit d (resolve S (keys_of a' t' o') d) e)
  end.
Proof. exact c10_keys. Qed.
Print Assumptions C10_keys.

(* non-vacuity: x: Annotated[T, "m"] in Box[T] specialised with T := date; a registration for
   Annotated[date, "m"] (Config.serialization_strategy) beats one for date (call dialect) *)
Definition tyT := KTuple [KStr "TypeVar"; KInt 0].
Definition tyDate := KObj 12.
Definition tyAnn (t: kv) := KTuple [KStr "Annotated"; t; KStr "m"].
Definition rt_ex (v: kv) : kv :=
  match v with
  | KTuple [KStr "Annotated"; KTuple [KStr "TypeVar"; _]; m] => KTuple [KStr "Annotated"; tyDate; m]
  | KTuple [KStr "TypeVar"; _] => tyDate
  | _ => v end.
Definition org_ex (v: kv) : kv := match v with KTuple [KStr "Annotated"; t; _] => t | _ => v end.
Definition isann_ex (v: kv) : bool := match v with KTuple [KStr "Annotated"; _; _] => true | _ => false end.
Example C10_keys_generic :
  let S := {| f_ser := None; f_de := None; f_strat := None; t_call := Some [(tyDate, both 4)]; t_cfgd := None;
              t_cfg := [(tyAnn tyDate, both 9)]; t_dflt := None |} in
  keys_after rt_ex org_ex isann_ex (tyAnn tyT) KNone = (tyAnn tyDate, tyDate, tyDate) /\
  first_handler Ser S rt_ex org_ex isann_ex (mk_spec (tyAnn tyT) (tyAnn tyT) KNone) (KStr "value")
    = Ok (k_call_expr (KObj 10) (KStr "value")).
Proof. cbv zeta. split; reflexivity. Qed.
