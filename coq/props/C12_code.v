(* C12 - tie (T): the model's list of variants is what the code of /repo computes. *)
From Coq Require Import List Arith Bool.
From Verif Require Import Discr DiscrSpec DiscrProofs PyK_discr K12Defs K12Proofs DiscrEmit DiscrEmitProofs C12RegName C12RegNameProofs.
From VerifGen Require Import K12.
Import ListNotations.

(* (T) the code as translated from /repo on this run (kernel K12: helpers.iter_all_subclasses,
   DiscriminatedUnionUnpackerBuilder._get_variant_names, the class-level rebuild of the Discriminator in builder.py),
   evaluated on the class graph (subclasses_of = cls.__subclasses__() in definition order), yields exactly the
   model's list of variants, in the same order *)
Theorem C12_code_variants : forall ops s,
  eval_names (iter_all_subclasses (S (length (defs ops))) (subclasses_of (defs ops)))
             (get_variant_names (s_sub s) (s_sup s && negb (s_config s && negb config_keeps_supertypes)) (s_bases s))
  = variants (defs ops) s.
Proof. intros ops s. apply code_variants_is_model, wf_defs. Qed.
Print Assumptions C12_code_variants.


(* (T) the exception facts the model's dispatcher clauses rest on, read from the source on this run: an absent key is
   detected by `except KeyError`; a KeyError/AttributeError leaving the CALL of the selected variant is taken for a
   registry miss (refill + retry: clause OKeyErr of Discr.field_body, known finding variant-keyerror-misreported), after
   the retry only KeyError -> SuitableVariantNotFound; MissingDiscriminatorError and SuitableVariantNotFoundError of a
   nested dispatcher are NOT caught by the outer one (they propagate: clauses OMissing / ONotFound of Discr.enter_with);
   a class without the attribute in its own __dict__ is skipped *)
Theorem C12_code_exceptions :
  catches key_lookup_handler [EKeyError] = true
  /\ catches variant_call_handler [EKeyError] = true /\ catches variant_call_handler [EAttributeError] = true
  /\ catches variant_call_handler missing_error_bases = false
  /\ catches variant_call_handler notfound_error_bases = false
  /\ catches retry_handler [EKeyError] = true /\ catches retry_handler [EAttributeError] = false
  /\ catches retry_handler missing_error_bases = false /\ catches retry_handler notfound_error_bases = false
  /\ catches own_tag_lookup_handler [EKeyError] = true
  (* value[field] on a non-mapping and hash(tag) of an unhashable value raise TypeError: caught right there, and never
     by the handlers around the variant call *)
  /\ catches non_mapping_handler [ETypeError] = true /\ catches hash_handler [ETypeError] = true
  /\ catches key_lookup_handler [ETypeError] = false /\ catches variant_call_handler [ETypeError] = false
  (* the call of the selected variant sits OUTSIDE the regions guarded by variant_call_handler / retry_handler (fix
     C12-variant-keyerror-misreported): a KeyError of the variant surfaces, Discr.field_body has no OKeyErr clause *)
  /\ variant_call_guarded = false.
Proof. vm_compute. repeat split. Qed.
Print Assumptions C12_code_exceptions.

(* (T) THE EMITTED DISPATCHER.  emit_lookup nailed tagger = the statements DiscriminatedUnionUnpackerBuilder._add_body and
   _add_register_variant_tags emit for the guarded registry lookup, its `except (KeyError, AttributeError)` handler (refill
   loop over the variants, retry) and the final call, translated from /repo on this run (one constructor per emitted line,
   control structure from the source).  Run by the interpreter DiscrEmit.exec_block on the dispatcher's registry - the
   variants' "has its own method" read off the model state, any tagger whose result (list or bare value) flattens to the
   model's tags - and committed to the state, they ARE the model's field-mode clause Discr.field_body: for every
   continuation [enter], registry key, site, tag and state. *)
Theorem C12_code_dispatcher : forall nailed enter top codec k s t x tr,
  (forall v, flat (tr v) = match assoc (s_tgid s) (c_ttags (nth v (classes x) dummy_cls)) with Some l => l | None => [] end) ->
  option_map (commit_lookup enter top codec k x)
             (result_of (exec_block (classes x) s t (variants (classes x) s) (has_method codec x) tr
                                    (emit_lookup nailed (s_tagger s)) (env0 (get_reg k (regs x)))))
  = Some (field_body enter top codec k s t x).
Proof. exact code_field_body_is_emitted. Qed.
Print Assumptions C12_code_dispatcher.

(* non-vacuity: the emitted program is not trivial and the runs differ as the model says: a stale hit whose class lacks
   its own method refills (class 2 wins, classes 1 and 2 rebuilt, class 0 without the key skipped by `continue`), with
   the method it is returned as is; a bare tagger result registers one tag, a list every element *)
Example C12_code_dispatcher_nonvacuous :
  let cl := [Cls [] [] [(0, [9])] [] false; Cls [0] [(0, 1)] [(0, [4; 5])] [] false; Cls [0] [(0, 1)] [] [] false] in
  let s := Site [0] true true true false false false 0 0 false in
  let st_ := Site [0] true true true true false false 0 0 false in
  let tr := fun v => match v with 0 => TScalar 9 | 1 => TList [4; 5] | _ => TList [] end in
  length (emit_lookup true false) = 2
  /\ result_of (exec_block cl s 1 (variants cl s) (fun _ => false) tr (emit_lookup true false) (env0 [(1, 1)]))
     = Some (true, Some 2, [(1, 2); (1, 1); (1, 1)], [1; 2])
  /\ result_of (exec_block cl s 1 (variants cl s) (fun _ => true) tr (emit_lookup true false) (env0 [(1, 1)]))
     = Some (false, Some 1, [(1, 1)], [])
  /\ result_of (exec_block cl s 7 (variants cl s) (fun _ => true) tr (emit_lookup false false) (env0 [(1, 1)]))
     = Some (true, None, [(1, 2); (1, 1); (1, 1)], [1; 2])
  /\ result_of (exec_block cl st_ 9 (variants cl st_) (fun _ => false) tr (emit_lookup true true) (env0 []))
     = Some (true, Some 0, [(9, 0); (5, 1); (4, 1)], [1; 2; 0]).
Proof. vm_compute. repeat split. Qed.

(* non-vacuity: a three-level forest with a diamond; the translated code walks it depth first in definition order *)
Example C12_code_variants_nonvacuous :
  let ops := [Define [] [] [] [] false; Define [0] [] [] [] false; Define [0] [] [] [] false; Define [1; 2] [] [] [] false; Define [1] [] [] [] false] in
  iter_all_subclasses (S (length (defs ops))) (subclasses_of (defs ops)) 0 = [1; 3; 4; 2; 3]
  /\ variants (defs ops) (Site [0] true true false false false false 0 0 false) = [1; 3; 4; 2; 3; 0].
Proof. vm_compute. split; reflexivity. Qed.

(* (T) WHICH POSITIONS SHARE A REGISTRY.  The model keys its registries by site.  In the code a registry is a holder
   attribute found by NAME; K12 translates `_get_variants_attr` of both builders (annotated position / class level) into the
   parts of that name.  An annotated position's name contains a token that is fresh per builder instance (random_hex,
   memoised in an instance slot): two positions - in one field or in two, with equal or different Discriminator
   settings - never share a registry; the class-level name is one constant per class (shared by the per-format
   dispatchers of that class, model state `regs` keyed by the class). *)
Theorem C12_code_registry_names :
  (forall f1 f2 r1 r2, r1 <> r2 -> render annotated_variants_attr f1 r1 <> render annotated_variants_attr f2 r2)
  /\ variants_attr_per_instance = true
  /\ (forall f1 f2 r1 r2, render class_variants_attr f1 r1 = render class_variants_attr f2 r2).
Proof. exact code_registry_names. Qed.
Print Assumptions C12_code_registry_names.
