(* C12 - tie (T): the model's list of variants is what the code of /repo computes. *)
From Coq Require Import List Arith Bool.
From Verif Require Import Discr DiscrSpec DiscrProofs PyK_discr K12Defs K12Proofs.
From VerifGen Require Import K12.
Import ListNotations.

(* (T) the code as translated from /repo on this run (kernel K12: helpers.iter_all_subclasses,
   DiscriminatedUnionUnpackerBuilder._get_variant_names, the class-level rebuild of the Discriminator in builder.py),
   evaluated on the class graph (subclasses_of = cls.__subclasses__() in definition order), yields exactly the
   model's list of variants, in the same order *)
Theorem C12_code_variants : forall ops s,
  eval_names (iter_all_subclasses (S (length (defs ops))) (subclasses_of (defs ops)))
             (get_variant_names (s_sub s) (s_sup s && negb (s_config s && negb config_keeps_supertypes)) (s_bases s))
  = variants (defs ops) s.
Proof. intros ops s. apply code_variants_is_model, wf_defs. Qed.
Print Assumptions C12_code_variants.


(* (T) the exception facts the model's dispatcher clauses rest on, read from the source on this run: an absent key is
   detected by `except KeyError`; a KeyError/AttributeError leaving the CALL of the selected variant is taken for a
   registry miss (refill + retry: clause OKeyErr of Discr.field_body, known finding variant-keyerror-misreported), after
   the retry only KeyError -> SuitableVariantNotFound; MissingDiscriminatorError and SuitableVariantNotFoundError of a
   nested dispatcher are NOT caught by the outer one (they propagate: clauses OMissing / ONotFound of Discr.enter_with);
   a class without the attribute in its own __dict__ is skipped *)
Theorem C12_code_exceptions :
  catches key_lookup_handler [EKeyError] = true
  /\ catches variant_call_handler [EKeyError] = true /\ catches variant_call_handler [EAttributeError] = true
  /\ catches variant_call_handler missing_error_bases = false
  /\ catches variant_call_handler notfound_error_bases = false
  /\ catches retry_handler [EKeyError] = true /\ catches retry_handler [EAttributeError] = false
  /\ catches retry_handler missing_error_bases = false /\ catches retry_handler notfound_error_bases = false
  /\ catches own_tag_lookup_handler [EKeyError] = true
  (* value[field] on a non-mapping and hash(tag) of an unhashable value raise TypeError: caught right there, and never
     by the handlers around the variant call *)
  /\ catches non_mapping_handler [ETypeError] = true /\ catches hash_handler [ETypeError] = true
  /\ catches key_lookup_handler [ETypeError] = false /\ catches variant_call_handler [ETypeError] = false
  (* the call of the selected variant sits OUTSIDE the regions guarded by variant_call_handler / retry_handler (fix
     C12-variant-keyerror-misreported): a KeyError of the variant surfaces, Discr.field_body has no OKeyErr clause *)
  /\ variant_call_guarded = false.
Proof. vm_compute. repeat split. Qed.
Print Assumptions C12_code_exceptions.

(* non-vacuity: a three-level forest with a diamond; the translated code walks it depth first in definition order *)
Example C12_code_variants_nonvacuous :
  let ops := [Define [] [] [] [] false; Define [0] [] [] [] false; Define [0] [] [] [] false; Define [1; 2] [] [] [] false; Define [1] [] [] [] false] in
  iter_all_subclasses (S (length (defs ops))) (subclasses_of (defs ops)) 0 = [1; 3; 4; 2; 3]
  /\ variants (defs ops) (Site [0] true true false false false false 0 0 false) = [1; 3; 4; 2; 3; 0].
Proof. vm_compute. split; reflexivity. Qed.
