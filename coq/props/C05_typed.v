(* C05 at the type level: error behaviour of the generated unpackers themselves (model Verif.ErrsTy.ue over the
   type grammar / class tables of TyModel.v; stdlib primitives are oracles returning a value or the exception
   class CPython raises).  All statements are for every class table E and every oracle Q. *)
From Coq Require Import List String ZArith Bool.
From Verif Require Import Core TupleIdx TyModel Errs ErrsProofs ErrsTy ErrsTyProofs.
Import ListNotations.
Open Scope string_scope.
Open Scope list_scope.

(* a dataclass position IS the field loop of Errs.v with the typed unpackers as field decoders: all C05
   theorems of C05_errors.v therefore hold for typed schemas, nested to any depth *)
Theorem C05_typed_link : forall E Q CF c k d, sfind E KData c = Some k ->
  ue E Q CF d (UData c) = from_dict (cspec_of E Q CF k) d.
Proof. exact ue_data_from_dict. Qed.
Print Assumptions C05_typed_link.

Theorem C05_typed_outcomes : forall E Q CF c k d, sfind E KData c = Some k ->
  documented (cspec_of E Q CF k) d (ue E Q CF d (UData c)).
Proof. exact typed_outcomes. Qed.
Print Assumptions C05_typed_outcomes.

Theorem C05_typed_first_bad : forall E Q CF c k kvs pre f post b, sfind E KData c = Some k ->
  map (fspec_of E Q CF (CF c)) (sc_fields k) = pre ++ f :: post ->
  (tc_forbid (CF c) = true -> extras_of (CF c) (sc_fields k) kvs = []) ->
  Forall (fun g => field_bad kvs g = None) pre -> field_bad kvs f = Some b ->
  ue E Q CF (VDict kvs) (UData c) = Exn (exn_of_bad c f b).
Proof. exact typed_first_bad. Qed.
Print Assumptions C05_typed_first_bad.

(* InvalidFieldValue names a field of the class, carries the input value found under its key, and its
   __context__ (ue_cause) is the exception that field's own unpacker raised on that value *)
Theorem C05_typed_cause : forall E Q CF c k kvs fn v h, sfind E KData c = Some k ->
  ue E Q CF (VDict kvs) (UData c) = Exn (XInvalidFieldValue fn v h) ->
  exists f e, In f (sc_fields k) /\ fn = sf_name f /\ h = c /\
              lookup_field kvs (fspec_of E Q CF (CF c) f) = Some v /\
              ue E Q CF v (cu false (sf_ty f)) = Exn e /\
              ue_cause E Q CF k (VDict kvs) = Some e.
Proof. exact typed_cause. Qed.
Print Assumptions C05_typed_cause.

(* nested dataclass: the cause is one of the INNER class's documented outcomes about the inner input *)
Theorem C05_typed_nested_cause : forall E Q CF v f e c2 k2,
  cu false (sf_ty f) = UData c2 -> sfind E KData c2 = Some k2 ->
  ue E Q CF v (cu false (sf_ty f)) = Exn e ->
  documented (cspec_of E Q CF k2) v (Exn e).
Proof. exact typed_nested_cause. Qed.
Print Assumptions C05_typed_nested_cause.

(* forbid_extra_keys at the type level (per-class Config: aliases, allow_deserialization_not_by_alias): exactly the
   keys of the input that are neither an alias-or-name nor (when allowed) a name *)
Theorem C05_typed_extra_exact : forall E Q CF c k kvs, sfind E KData c = Some k ->
  tc_forbid (CF c) = true -> extras_of (CF c) (sc_fields k) kvs <> [] ->
  ue E Q CF (VDict kvs) (UData c) = Exn (XExtraKeys (extras_of (CF c) (sc_fields k) kvs) c).
Proof. exact typed_extra_exact. Qed.
Print Assumptions C05_typed_extra_exact.

(* containers: which exceptions an unpacker can raise *)
Theorem C05_list_exn : forall E Q CF l u e, ue E Q CF (VList l) (UListComp u) = Exn e ->
  exists x, In x l /\ ue E Q CF x u = Exn e.
Proof. exact list_exn. Qed.
Print Assumptions C05_list_exn.

Theorem C05_list_ok : forall E Q CF l u r, ue E Q CF (VList l) (UListComp u) = Ok r ->
  exists ys, r = VList ys /\ Forall2 (fun x y => ue E Q CF x u = Ok y) l ys.
Proof. exact list_ok. Qed.
Print Assumptions C05_list_ok.

Theorem C05_list_not_iterable : forall E Q CF d u,
  match d with VNone | VBool _ | VInt _ | VFloat _ => True | _ => False end ->
  ue E Q CF d (UListComp u) = Exn XTypeError.
Proof. exact list_not_iterable. Qed.
Print Assumptions C05_list_not_iterable.

Theorem C05_dict_exn : forall E Q CF kvs ku vu e, ue E Q CF (VDict kvs) (UDictComp ku vu) = Exn e ->
  exists k x, In (k, x) kvs /\
    (ue E Q CF k ku = Exn e \/ ue E Q CF x vu = Exn e \/
     (e = XTypeError /\ exists k', ue E Q CF k ku = Ok k' /\ hashable k' = false)).
Proof. exact dict_exn. Qed.
Print Assumptions C05_dict_exn.

Theorem C05_dict_not_mapping : forall E Q CF d ku vu, is_dict d = false ->
  ue E Q CF d (UDictComp ku vu) = Exn XAttributeError.
Proof. exact dict_not_mapping. Qed.
Print Assumptions C05_dict_not_mapping.

Theorem C05_tuplefix_exn : forall E Q CF us l e, ue E Q CF (VList l) (UTupleFix us) = Exn e ->
  (exists i x u, nth_error l i = Some x /\ nth_error us i = Some u /\ ue E Q CF x u = Exn e) \/
  (e = XIndexError /\ (List.length l < List.length us)%nat).
Proof. exact tuplefix_exn. Qed.
Print Assumptions C05_tuplefix_exn.

(* Tuple[pre..., *Tuple[t, ...], post...] on a list: IndexError for a head / tail position past the end, or an
   item's own exception unchanged (TypeError only for a malformed index plan, which cu never builds) *)
Theorem C05_tupleu_var_exn : forall E Q CF plan pre u post l e,
  ue E Q CF (VList l) (UTupleU plan pre (UTupleVar u) post) = Exn e ->
  e = XIndexError \/ e = XTypeError \/
  exists u' x, (In u' pre \/ u' = u \/ In u' post) /\ In x l /\ ue E Q CF x u' = Exn e.
Proof. exact tupleu_var_exn. Qed.
Print Assumptions C05_tupleu_var_exn.

Theorem C05_typeddict_exn : forall E Q CF c k kvs e,
  sfind E KTyped c = Some k ->
  ue E Q CF (VDict kvs) (UTyped c) = Exn e ->
  e = XKeyError \/
  exists f x, In f (sc_fields k) /\ d_lookup kvs (VStr (sf_name f)) = Some x /\
              ue E Q CF x (cu true (sf_ty f)) = Exn e.
Proof. exact typeddict_exn. Qed.
Print Assumptions C05_typeddict_exn.

(* NamedTuple (with or without defaults): an item that is present in the input is decoded by its own
   unpacker and that result is what the tuple holds -- never a default (the defect repaired by 8ccb0df) *)
Theorem C05_namedtuple_no_silent_default : forall E Q CF c k l r,
  sfind E KNamed c = Some k ->
  ue E Q CF (VList l) (UNamed c) = Ok r ->
  exists items, r = VNT c items /\
    forall i x f, nth_error l i = Some x -> nth_error (sc_fields k) i = Some f ->
      exists y, ue E Q CF x (cu true (sf_ty f)) = Ok y /\ nth_error items i = Some y.
Proof. exact namedtuple_no_silent_default. Qed.
Print Assumptions C05_namedtuple_no_silent_default.

Theorem C05_namedtuple_exn : forall E Q CF c k l e,
  sfind E KNamed c = Some k ->
  ue E Q CF (VList l) (UNamed c) = Exn e ->
  (exists i x f, nth_error l i = Some x /\ nth_error (sc_fields k) i = Some f /\
                 ue E Q CF x (cu true (sf_ty f)) = Exn e) \/
  (exists rest, nt_tail (konst_u E) (nt_exhausted (TyModel.has_default (sc_fields k))) rest = Exn e).
Proof. exact namedtuple_exn. Qed.
Print Assumptions C05_namedtuple_exn.

(* ---------------------------------------------------------------- non-vacuity *)
(* int("x") -> ValueError, int(None) / int([..]) -> TypeError, as CPython does *)
Definition Q0 : eprims :=
  {| q_parse := fun _ _ => Exn XValueError;
     q_enum_of := fun _ _ => Exn XValueError;
     q_b64dec := fun _ => Exn XAttributeError;
     q_int := fun v => match v with VStr "12" => Ok 12%Z | VStr _ => Exn XValueError | _ => Exn XTypeError end;
     q_float := fun _ => Exn XTypeError;
     q_str := fun _ => Ok "s" |}.

(* class Inner: x: int; ys: List[int] = []      class Outer: a: int; inner: Inner; opt: Optional[Inner] = None
   class NT(NamedTuple): a: int; b: Tuple[int, int] = (0, 0); c: int = 7 *)
Definition E0 : senv :=
  [ {| sc_kind := KData; sc_name := "Inner";
       sc_fields := [ {| sf_name := "x"; sf_ty := SIntT; sf_default := None; sf_opt := false |};
                      {| sf_name := "ys"; sf_ty := SList SIntT; sf_default := Some (VList []); sf_opt := false |} ] |};
    {| sc_kind := KData; sc_name := "Outer";
       sc_fields := [ {| sf_name := "a"; sf_ty := SIntT; sf_default := None; sf_opt := false |};
                      {| sf_name := "inner"; sf_ty := SData "Inner"; sf_default := None; sf_opt := false |};
                      {| sf_name := "opt"; sf_ty := SOpt (SData "Inner"); sf_default := Some VNone; sf_opt := false |} ] |};
    {| sc_kind := KNamed; sc_name := "NT";
       sc_fields := [ {| sf_name := "a"; sf_ty := SIntT; sf_default := None; sf_opt := false |};
                      {| sf_name := "b"; sf_ty := STupleFix [SIntT; SIntT]; sf_default := Some (VTuple [VInt 0; VInt 0]); sf_opt := false |};
                      {| sf_name := "c"; sf_ty := SIntT; sf_default := Some (VInt 7); sf_opt := false |} ] |} ].

(* Inner: forbid_extra_keys, x aliased "X", allow_deserialization_not_by_alias *)
Definition CF0 : string -> tcfg := fun c =>
  if String.eqb c "Inner" then {| tc_forbid := true; tc_nba := true; tc_alias := [("x", "X")] |} else no_cfg.

Definition inner_bad : pv := VDict [(VStr "x", VInt 1); (VStr "ys", VList [VInt 2; VStr "q"])].

(* Outer.from_dict({"a": 1, "inner": {"x": 1, "ys": [2, "q"]}}): InvalidFieldValue('inner', <inner input>, Outer);
   cause InvalidFieldValue('ys', [2, "q"], Inner); whose cause is int("q") -> ValueError *)
Example C05_typed_ex_nested :
  ue E0 Q0 CF0 (VDict [(VStr "a", VInt 1); (VStr "inner", inner_bad)]) (UData "Outer")
    = Exn (XInvalidFieldValue "inner" inner_bad "Outer")
  /\ ue E0 Q0 CF0 inner_bad (UData "Inner") = Exn (XInvalidFieldValue "ys" (VList [VInt 2; VStr "q"]) "Inner")
  /\ ue E0 Q0 CF0 (VList [VInt 2; VStr "q"]) (UListComp (UScalar SInt)) = Exn XValueError.
Proof. repeat split; reflexivity. Qed.

Example C05_typed_ex_cause :
  match sfind E0 KData "Outer" with
  | Some k => ue_cause E0 Q0 CF0 k (VDict [(VStr "a", VInt 1); (VStr "inner", inner_bad)])
              = Some (XInvalidFieldValue "ys" (VList [VInt 2; VStr "q"]) "Inner")
  | None => False end.
Proof. reflexivity. Qed.

(* first bad field in declaration order: a is bad (TypeError inside), inner is missing: a decides *)
Example C05_typed_ex_order :
  ue E0 Q0 CF0 (VDict [(VStr "opt", VInt 5); (VStr "a", VNone)]) (UData "Outer") = Exn (XInvalidFieldValue "a" VNone "Outer")
  /\ ue E0 Q0 CF0 (VDict [(VStr "opt", VInt 5); (VStr "a", VInt 3)]) (UData "Outer") = Exn (XMissingField "inner" "Outer")
  /\ ue E0 Q0 CF0 (VDict [(VStr "opt", VInt 5); (VStr "a", VInt 3); (VStr "inner", VDict [(VStr "x", VInt 0)])]) (UData "Outer")
     = Exn (XInvalidFieldValue "opt" (VInt 5) "Outer").
Proof. repeat split; reflexivity. Qed.

(* NT <- [1, [5], 9]: the IndexError of the nested tuple propagates (before 8ccb0df: NT(1, (0, 0), 7));
   NT <- [1]: defaults;  NT <- []: TypeError (missing positional argument);  NT <- {0: 1}: KeyError *)
Example C05_typed_ex_namedtuple :
  ue E0 Q0 CF0 (VList [VInt 1; VList [VInt 5]; VInt 9]) (UNamed "NT") = Exn XIndexError
  /\ ue E0 Q0 CF0 (VList [VInt 1]) (UNamed "NT") = Ok (VNT "NT" [VInt 1; VTuple [VInt 0; VInt 0]; VInt 7])
  /\ ue E0 Q0 CF0 (VList []) (UNamed "NT") = Exn XTypeError
  /\ ue E0 Q0 CF0 (VDict [(VInt 0, VInt 1)]) (UNamed "NT") = Exn XKeyError
  /\ ue E0 Q0 CF0 (VInt 5) (UNamed "NT") = Exn XTypeError.
Proof. repeat split; reflexivity. Qed.

Example C05_typed_ex_containers :
  ue E0 Q0 CF0 (VInt 5) (UListComp (UScalar SInt)) = Exn XTypeError
  /\ ue E0 Q0 CF0 (VList [VInt 1]) (UDictComp (UScalar SStr) (UScalar SInt)) = Exn XAttributeError
  /\ ue E0 Q0 CF0 (VStr "12") (UListComp (UScalar SInt)) = Exn XValueError
  /\ ue E0 Q0 CF0 (VInt 5) (UData "Inner") = Exn XValueError.
Proof. repeat split; reflexivity. Qed.

(* Config at the type level: alias read first, then the name; extra keys rejected before any field *)
Example C05_typed_ex_config :
  ue E0 Q0 CF0 (VDict [(VStr "X", VInt 1)]) (UData "Inner") = Ok (VObj "Inner" [("x", VInt 1); ("ys", VList [])])
  /\ ue E0 Q0 CF0 (VDict [(VStr "x", VInt 2)]) (UData "Inner") = Ok (VObj "Inner" [("x", VInt 2); ("ys", VList [])])
  /\ ue E0 Q0 CF0 (VDict [(VStr "x", VNone); (VStr "zz", VInt 1); (VInt 3, VNone)]) (UData "Inner")
     = Exn (XExtraKeys [VStr "zz"; VInt 3] "Inner")
  /\ ue E0 Q0 CF0 (VDict [(VStr "a", VInt 1); (VStr "inner", VDict [(VStr "X", VInt 1); (VStr "zz", VInt 1)])]) (UData "Outer")
     = Exn (XInvalidFieldValue "inner" (VDict [(VStr "X", VInt 1); (VStr "zz", VInt 1)]) "Outer").
Proof. repeat split; reflexivity. Qed.

(* Tuple[int, *Tuple[int, ...], int] (cu of STupleU): short input -> IndexError; a bad item -> its own ValueError;
   a scalar -> TypeError; a dict -> KeyError *)
Definition tu_int : pdec := cu true (STupleU [SIntT] (STupleVar SIntT) [SIntT]).
Example C05_typed_ex_tupleu :
  ue E0 Q0 CF0 (VList [VInt 1; VInt 2; VInt 3; VInt 4]) tu_int = Ok (VTuple [VInt 1; VInt 2; VInt 3; VInt 4])
  /\ ue E0 Q0 CF0 (VList []) tu_int = Exn XIndexError
  /\ ue E0 Q0 CF0 (VList [VInt 1; VStr "q"; VInt 3]) tu_int = Exn XValueError
  /\ ue E0 Q0 CF0 (VInt 5) tu_int = Exn XTypeError
  /\ ue E0 Q0 CF0 (VDict [(VStr "k", VInt 1)]) tu_int = Exn XKeyError
  /\ ue E0 Q0 CF0 (VDict [(VInt 0, VInt 1)]) tu_int = Exn XKeyError.
Proof. repeat split; reflexivity. Qed.
