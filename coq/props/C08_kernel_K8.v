(* C08 - kernel K8 = CodeBuilder.get_pack_method_flags (pass_encoder=False) and the
   kwargs-vs-dict-literal test of _add_pack_method_lines, translated from /repo on this run. *)
From Coq Require Import List String ZArith Bool.
From Verif Require Import PyK PyK_c08 OptProj K8Proofs.
From VerifGen Require Import K8.
Import ListNotations.
Open Scope string_scope.

(* ---- K8: flags forwarded to a nested class; kwargs-vs-literal ---- *)
Theorem K8_forward : forall a b : flags,
  get_pack_method_flags (enc_flags a) (enc_flags b) = Ok (KStr (String.concat ", " (flag_args (both a b)))).
Proof. exact K8_forward_lemma. Qed.
Print Assumptions K8_forward.

Theorem K8_use_kwargs : forall (c: sctx) (fs: list fplan),
  res_truthy (use_kwargs_test (names_of (fun p => nullable p && negb p.(p_trivial)) fs) (names_of nullable fs)
                              (KBool c.(s_on)) (KBool c.(s_fon)) (KBool c.(s_fba)) (aliases_of fs) (KBool c.(s_od)))
  = Some (use_kwargs c fs).
Proof. exact K8_use_kwargs_lemma. Qed.
Print Assumptions K8_use_kwargs.

(* non-vacuity *)
Example K8_forward_example :
  get_pack_method_flags (enc_flags {| g_on := true; g_ba := true; g_dl := false; g_cx := true |})
                        (enc_flags {| g_on := true; g_ba := false; g_dl := true; g_cx := true |})
  = Ok (KStr "omit_none=omit_none, context=context").
Proof. reflexivity. Qed.
