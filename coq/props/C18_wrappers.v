(* C18: the wrapper cases of the encode compiler are the shapes pack.py emits (kernel K118e, translated on this run);
   an Optional / bound-TypeVar / Literal item is never the bare name, so collections of such items are rebuilt under every
   no_copy_collections -- the generator's reading of "elements need no conversion" (known findings
   nocopy-optional-elements, nocopy-literal-elements; C18_share_full_refuted is the model-level statement). *)
From Coq Require Import List Bool.
From Verif Require Import Share WrapDecision ShareK118e.
From VerifGen Require Import K118e.
Import ListNotations.

Theorem C18_pack_wrappers_are_source : forall E N hsup t,
  ir_of_wshape pack_optional_shape (cp E N hsup t) = Some (cp E N hsup (TOpt t)) /\
  ir_of_wshape pack_typevar_bound_shape (cp E N hsup t) = Some (cp E N hsup (TOpt t)) /\
  ir_of_wshape pack_newtype_shape (cp E N hsup t) = Some (cp E N hsup (TWrap t)) /\
  ir_of_wshape pack_final_shape (cp E N hsup t) = Some (cp E N hsup (TWrap t)) /\
  ir_of_wshape pack_required_shape (cp E N hsup t) = Some (cp E N hsup (TWrap t)) /\
  ir_of_wshape pack_any_shape (cp E N hsup t) = Some (cp E N hsup TAny) /\
  ir_of_wshape pack_literal_shape (cp E N hsup t) = Some (cp E N hsup TLit) /\
  pack_union_shape = WUnion /\ pack_typevar_constrained_shape = WUnion.
Proof. exact wrappers_are_source. Qed.
Print Assumptions C18_pack_wrappers_are_source.

Theorem C18_optional_item_rebuilt : forall E N hsup o t,
  is_id (cp E N hsup (TOpt t)) = code_is_bare_name pack_optional_shape items_could_be_none (is_id (cp E N hsup t)) /\
  cp E N hsup (TSeq o (TOpt t)) = ISeqComp (cp E N hsup (TOpt t)) /\
  (forall kt, cp E N hsup (TMap o kt (TOpt t)) = IMapComp (cp E N hsup kt) (cp E N hsup (TOpt t))).
Proof. exact optional_item_rebuilt. Qed.
Print Assumptions C18_optional_item_rebuilt.

Theorem C18_item_code_bare_name : forall b,
  code_is_bare_name pack_optional_shape items_could_be_none b = false /\
  code_is_bare_name pack_typevar_bound_shape items_could_be_none b = false /\
  code_is_bare_name pack_literal_shape items_could_be_none b = false /\
  code_is_bare_name pack_newtype_shape items_could_be_none b = b /\
  code_is_bare_name pack_final_shape items_could_be_none b = b /\
  code_is_bare_name pack_required_shape items_could_be_none b = b.
Proof. intro b. repeat split; reflexivity. Qed.
Print Assumptions C18_item_code_bare_name.
