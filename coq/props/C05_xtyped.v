(* C05 for root dataclasses with Union[...] / Literal[...] field positions over the typed grammar (model Verif.ErrsX).
   The class is an Errs.cspec, so the field-loop theorems of C05_errors.v apply verbatim; the statements below
   instantiate them and add what is specific to the union and Literal positions. *)
From Coq Require Import List String ZArith Bool.
From Verif Require Import Core TupleIdx TyModel Errs ErrsProofs ErrsTy ErrsTyProofs ErrsX.
Import ListNotations.
Open Scope string_scope.
Open Scope list_scope.

Lemma xspec_plain E Q CF nailed k : plain (xspec_of E Q CF nailed k).
Proof. split; reflexivity. Qed.

Theorem C05_x_outcomes : forall E Q CF nailed k d,
  documented (xspec_of E Q CF nailed k) d (uex E Q CF nailed k d).
Proof. intros. apply outcomes. apply xspec_plain. Qed.
Print Assumptions C05_x_outcomes.

Theorem C05_x_first_bad : forall E Q CF nailed k kvs pre f post b,
  cs_fields (xspec_of E Q CF nailed k) = pre ++ f :: post ->
  (cs_forbid_extra (xspec_of E Q CF nailed k) = true -> extra_keys (xspec_of E Q CF nailed k) kvs = []) ->
  Forall (fun g => field_bad kvs g = None) pre -> field_bad kvs f = Some b ->
  uex E Q CF nailed k (VDict kvs) = Exn (exn_of_bad (xc_name k) f b).
Proof.
  intros E Q CF nailed k kvs pre f post b Hs Hx Hp Hb.
  exact (first_bad_decides (xspec_of E Q CF nailed k) kvs pre f post b (xspec_plain _ _ _ _ _) Hs Hx Hp Hb).
Qed.
Print Assumptions C05_x_first_bad.

(* a union position: the value comes from a member (exact-type shortcut, identity, try member, fallback coercion)
   or the union raises exactly its final exception -- InvalidFieldValue(field, value, class) in a mixin method *)
Theorem C05_x_union_position : forall E Q CF cls f ms v,
  xf_ty f = XUnion ms ->
  Forall (fun m => member_tame m v = true) (map (umember_of E Q CF) ms) ->
  (exists x, xdec E Q CF true cls f v = Ok x /\ from_member (map (umember_of E Q CF) ms) v x) \/
  xdec E Q CF true cls f v = Exn (XInvalidFieldValue (xf_name f) v cls).
Proof.
  intros E Q CF cls f ms v Ht Htame. unfold xdec. rewrite Ht. cbn [xrun xfinal].
  exact (union_outcomes (map (umember_of E Q CF) ms) (XInvalidFieldValue (xf_name f) v cls) v Htame).
Qed.
Print Assumptions C05_x_union_position.

(* garbage at a union position without a None member is rejected with the culprit named *)
Theorem C05_x_union_rejects_partial : forall E Q CF cls f ms v,
  xf_ty f = XUnion ms ->
  Forall (fun m => is_none_member m = false) (map (umember_of E Q CF) ms) ->
  Forall (fun m => member_accepts m v = false) (map (umember_of E Q CF) ms) ->
  Forall (fun m => member_tame m v = true) (map (umember_of E Q CF) ms) ->
  xdec E Q CF true cls f v = Exn (XInvalidFieldValue (xf_name f) v cls).
Proof.
  intros E Q CF cls f ms v Ht Hn Ha Htame. unfold xdec. rewrite Ht. cbn [xrun xfinal].
  exact (union_rejects_garbage _ _ v Hn Ha Htame).
Qed.
Print Assumptions C05_x_union_rejects_partial.

(* ---------------------------------------------------------------- union / Literal positions INSIDE containers *)
(* List[x] on a list: the only exception is the one of an element's own position, unchanged -- for a union element
   that is the union's final exception naming THAT element (final elem) *)
Theorem C05_x_list_exn : forall E Q CF final x l e,
  xrun E Q CF final (XList x) (VList l) = Exn e -> exists elem, In elem l /\ xrun E Q CF final x elem = Exn e.
Proof.
  intros E Q CF final x l e H. cbn [xrun] in H.
  destruct (mapM (xrun E Q CF final x) l) as [r|e'] eqn:Em; cbn [bind] in H; [discriminate|].
  inversion H; subst. exact (mapM_exn _ _ _ Em).
Qed.
Print Assumptions C05_x_list_exn.

Theorem C05_x_list_ok : forall E Q CF final x l r,
  xrun E Q CF final (XList x) (VList l) = Ok r ->
  exists ys, r = VList ys /\ Forall2 (fun elem y => xrun E Q CF final x elem = Ok y) l ys.
Proof.
  intros E Q CF final x l r H. cbn [xrun] in H.
  destruct (mapM (xrun E Q CF final x) l) as [ys|e'] eqn:Em; cbn [bind] in H; [|discriminate].
  inversion H; subst. exists ys. split; [reflexivity|]. exact (mapM_ok _ _ _ Em).
Qed.
Print Assumptions C05_x_list_ok.

(* a garbage element of List[Union[...]] (no None member): the list raises the union's final exception for that
   element, provided the elements before it are accepted *)
Theorem C05_x_list_union_rejects_partial : forall E Q CF final ms pre elem post ys,
  Forall2 (fun a y => xrun E Q CF final (XUnion ms) a = Ok y) pre ys ->
  Forall (fun m => is_none_member m = false) (map (umember_of E Q CF) ms) ->
  Forall (fun m => member_accepts m elem = false) (map (umember_of E Q CF) ms) ->
  Forall (fun m => member_tame m elem = true) (map (umember_of E Q CF) ms) ->
  xrun E Q CF final (XList (XUnion ms)) (VList (pre ++ elem :: post)) = Exn (final elem).
Proof.
  intros E Q CF final ms pre elem post ys Hpre Hn Ha Ht. cbn [xrun].
  assert (He: xrun E Q CF final (XUnion ms) elem = Exn (final elem))
    by (cbn [xrun]; exact (union_rejects_garbage _ _ elem Hn Ha Ht)).
  assert (Hm: mapM (xrun E Q CF final (XUnion ms)) (pre ++ elem :: post) = Exn (final elem)).
  { induction Hpre as [|a y pre' ys' Hay _ IH]; cbn [app mapM].
    - rewrite He. reflexivity.
    - rewrite Hay, IH. reflexivity. }
  cbn [xrun] in Hm. rewrite Hm. reflexivity.
Qed.
Print Assumptions C05_x_list_union_rejects_partial.

Theorem C05_x_dict_not_mapping : forall E Q CF final kt x v, is_dict v = false ->
  xrun E Q CF final (XDict kt x) v = Exn XAttributeError.
Proof. intros E Q CF final kt x v H. destruct v; try reflexivity. discriminate H. Qed.
Print Assumptions C05_x_dict_not_mapping.

(* Literal positions: the result is the input itself and it is one of the listed values, of the same class;
   otherwise ValueError and no listed value equals the input *)
Lemma pv_eqb_lit : forall l x v, lit_pv l = Some x -> pv_eqb v x = true -> v = x.
Proof.
  intros l x v Hl H. destruct l; cbn in Hl; inversion Hl; subst; destruct v; cbn in H; try discriminate.
  - apply Z.eqb_eq in H. subst. reflexivity.
  - apply String.eqb_eq in H. subst. reflexivity.
  - apply Bool.eqb_prop in H. subst. reflexivity.
  - reflexivity.
Qed.

Theorem C05_lit_ok : forall ls v r, lit_run ls v = Ok r ->
  r = v /\ exists l, In l ls /\ lit_pv l = Some v.
Proof.
  induction ls as [|l ls IH]; intros v r H; [discriminate|].
  cbn [lit_run] in H. destruct (lit_pv l) as [x|] eqn:El.
  - destruct (pv_eqb v x) eqn:Ee.
    + inversion H; subst. pose proof (pv_eqb_lit l r v El Ee). subst. split; [reflexivity|].
      exists l. split; [left; reflexivity|exact El].
    + destruct (IH v r H) as [Hr [l' [Hin Hl]]]. split; [exact Hr|]. exists l'. split; [right; exact Hin|exact Hl].
  - destruct (IH v r H) as [Hr [l' [Hin Hl]]]. split; [exact Hr|]. exists l'. split; [right; exact Hin|exact Hl].
Qed.
Print Assumptions C05_lit_ok.

Theorem C05_lit_exn : forall ls v e, lit_run ls v = Exn e ->
  e = XValueError /\ forall l, In l ls -> lit_pv l <> Some v.
Proof.
  induction ls as [|l ls IH]; intros v e H.
  - inversion H. split; [reflexivity|]. intros l [].
  - cbn [lit_run] in H. destruct (lit_pv l) as [x|] eqn:El.
    + destruct (pv_eqb v x) eqn:Ee; [discriminate|].
      destruct (IH v e H) as [He Hn]. split; [exact He|]. intros l' [Hl'|Hl'].
      * subst l'. rewrite El. intros Hc. inversion Hc; subst.
        assert (pv_eqb v v = true).
        { destruct l; cbn in El; inversion El; subst; cbn;
            [apply Z.eqb_refl|apply String.eqb_refl|destruct b; reflexivity|reflexivity]. }
        congruence.
      * apply Hn. exact Hl'.
    + destruct (IH v e H) as [He Hn]. split; [exact He|]. intros l' [Hl'|Hl'].
      * subst l'. rewrite El. discriminate.
      * apply Hn. exact Hl'.
Qed.
Print Assumptions C05_lit_exn.

(* ---------------------------------------------------------------- non-vacuity *)
Definition Qx : eprims :=
  {| q_parse := fun k v => match v with VStr "2020-01-02" => Ok "2020-01-02" | VStr _ => Exn XValueError | _ => Exn XTypeError end;
     q_enum_of := fun _ _ => Exn XValueError;
     q_b64dec := fun _ => Exn XAttributeError;
     q_int := fun v => match v with VStr "12" => Ok 12%Z | VStr _ => Exn XValueError | _ => Exn XTypeError end;
     q_float := fun _ => Exn XTypeError;
     q_str := fun _ => Ok "s" |}.
Definition CFx : string -> tcfg := fun _ => no_cfg.
(* class K: u: Union[int, date]; w: Union[int, None, date] = 0; l: Literal[1, "a", None] *)
Definition Kx : xcls :=
  {| xc_name := "K";
     xc_fields := [ {| xf_name := "u"; xf_ty := XUnion [SIntT; SLeaf "date"]; xf_default := None |};
                    {| xf_name := "w"; xf_ty := XUnion [SIntT; SNoneT; SLeaf "date"]; xf_default := Some (VInt 0) |};
                    {| xf_name := "l"; xf_ty := XLit [LInt 1; LStr "a"; LNone]; xf_default := Some (VInt 1) |} ] |}.

Example C05_x_ex :
  uex [] Qx CFx true Kx (VDict [(VStr "u", VStr "2020-01-02"); (VStr "l", VStr "a")])
    = Ok (VObj "K" [("u", VLeaf "date" "2020-01-02"); ("w", VInt 0); ("l", VStr "a")])
  /\ uex [] Qx CFx true Kx (VDict [(VStr "u", VStr "zz"); (VStr "l", VStr "b")])
    = Exn (XInvalidFieldValue "u" (VStr "zz") "K")
  /\ uex_cause [] Qx CFx true Kx (VDict [(VStr "u", VStr "zz")]) = Some (XInvalidFieldValue "u" (VStr "zz") "K")
  /\ uex_cause [] Qx CFx false Kx (VDict [(VStr "u", VStr "zz")]) = Some XValueError
  /\ uex [] Qx CFx true Kx (VDict [(VStr "u", VInt 1); (VStr "l", VBool true)])
    = Exn (XInvalidFieldValue "l" (VBool true) "K")                       (* True == 1 but is not an int *)
  /\ uex [] Qx CFx true Kx (VDict [(VStr "u", VInt 1); (VStr "w", VStr "garbage")])
    = Ok (VObj "K" [("u", VInt 1); ("w", VNone); ("l", VInt 1)]).         (* known finding union-none-fallback *)
Proof. repeat split; reflexivity. Qed.

(* class L: us: List[Union[int, date]]; m: Dict[str, Literal[1, "a"]] = {}; o: Optional[Literal["x"]] = None *)
Definition Lx : xcls :=
  {| xc_name := "L";
     xc_fields := [ {| xf_name := "us"; xf_ty := XList (XUnion [SIntT; SLeaf "date"]); xf_default := None |};
                    {| xf_name := "m"; xf_ty := XDict SStrT (XLit [LInt 1; LStr "a"]); xf_default := Some (VDict []) |};
                    {| xf_name := "o"; xf_ty := XOpt (XLit [LStr "x"]); xf_default := Some VNone |} ] |}.
Example C05_x_ex_nested :
  uex [] Qx CFx true Lx (VDict [(VStr "us", VList [VInt 1; VStr "2020-01-02"]); (VStr "m", VDict [(VStr "k", VStr "a")]); (VStr "o", VNone)])
    = Ok (VObj "L" [("us", VList [VInt 1; VLeaf "date" "2020-01-02"]); ("m", VDict [(VStr "k", VStr "a")]); ("o", VNone)])
  /\ uex [] Qx CFx true Lx (VDict [(VStr "us", VList [VInt 1; VStr "zz"; VNone])])
    = Exn (XInvalidFieldValue "us" (VList [VInt 1; VStr "zz"; VNone]) "L")
  (* the cause names the offending ELEMENT *)
  /\ uex_cause [] Qx CFx true Lx (VDict [(VStr "us", VList [VInt 1; VStr "zz"; VNone])]) = Some (XInvalidFieldValue "us" (VStr "zz") "L")
  /\ uex_cause [] Qx CFx false Lx (VDict [(VStr "us", VList [VInt 1; VStr "zz"])]) = Some XValueError
  /\ uex_cause [] Qx CFx true Lx (VDict [(VStr "us", VInt 5)]) = Some XTypeError
  /\ uex_cause [] Qx CFx true Lx (VDict [(VStr "us", VList []); (VStr "m", VDict [(VStr "k", VBool true)])]) = Some XValueError
  /\ uex [] Qx CFx true Lx (VDict [(VStr "us", VList []); (VStr "o", VStr "y")]) = Exn (XInvalidFieldValue "o" (VStr "y") "L").
Proof. repeat split; reflexivity. Qed.
