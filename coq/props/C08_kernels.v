(* C08 - theorems about the kernels translated from /repo on this run:
   K3 = get_dialect_or_config_option, K8 = get_pack_method_flags + kwargs-vs-literal test,
   and their link to the definitions of the model Verif.OptProj. *)
From Coq Require Import List String ZArith Bool.
From Verif Require Import PyK PyK_c08 OptProj K3Proofs K8Proofs.
From VerifGen Require Import K3 K8.
Import ListNotations.
Open Scope string_scope.

(* ---- K3: option lookup order ---- *)
Theorem K3_order : forall d cd c dd opt dflt,
  get_dialect_or_config_option d cd c dd (KStr opt) dflt
  = Ok (first_nonmissing [ns_opt d opt; ns_opt cd opt; ns_opt c opt; ns_opt dd opt] dflt).
Proof. exact K3_order_lemma. Qed.
Print Assumptions K3_order.

Theorem K3_look : forall d cd c dd x,
  get_dialect_or_config_option (enc_ons d) (enc_ons cd) (enc_ons c) (enc_ons dd) (KStr (opt_str x)) (KBool false)
  = Ok (KBool (look (opt_sel x) [d; cd; c; dd])).
Proof. exact K3_look_lemma. Qed.
Print Assumptions K3_look.

(* ---- K8: flags forwarded to a nested class; kwargs-vs-literal ---- *)
Theorem K8_forward : forall a b : flags,
  get_pack_method_flags (enc_flags a) (enc_flags b) = Ok (KStr (String.concat ", " (flag_args (both a b)))).
Proof. exact K8_forward_lemma. Qed.
Print Assumptions K8_forward.

Theorem K8_use_kwargs : forall (c: sctx) (fs: list fplan),
  res_truthy (use_kwargs_test (names_of (fun p => nullable p && negb p.(p_trivial)) fs) (names_of nullable fs)
                              (KBool c.(s_on)) (KBool c.(s_fon)) (KBool c.(s_fba)) (aliases_of fs) (KBool c.(s_od)))
  = Some (use_kwargs c fs).
Proof. exact K8_use_kwargs_lemma. Qed.
Print Assumptions K8_use_kwargs.

(* non-vacuity *)
Example K3_order_example :
  get_dialect_or_config_option KNone (KNs [("omit_none", KBool true)]) (KNs [("omit_none", KBool false)]) KNone
                               (KStr "omit_none") (KBool false) = Ok (KBool true).
Proof. reflexivity. Qed.
Example K8_forward_example :
  get_pack_method_flags (enc_flags {| g_on := true; g_ba := true; g_dl := false; g_cx := true |})
                        (enc_flags {| g_on := true; g_ba := false; g_dl := true; g_cx := true |})
  = Ok (KStr "omit_none=omit_none, context=context").
Proof. reflexivity. Qed.
