(* C10 - which descent site a type takes: the dispatch chains of pack_/unpack_special_typing_primitive and
   pack_/unpack_collection, translated from /repo on this run (VerifGen.K5D) as decision trees over the library's own
   test expressions.  `agree p l`: the valuation p gives the listed outcome to the listed tests.  Both directions take
   the same site. *)
From Coq Require Import List String.
From Verif Require Import Positions Dispatch.
From VerifGen Require Import K5D.
Import ListNotations.
Open Scope string_scope.

Theorem C10_dispatch_optional : forall p,
  agree p [special; ("is_union(spec.type)", true); ("is_optional(spec.type, resolved_type_params)", true)] ->
  site_of (dispatch_pack p) = SStep TOptional /\ site_of (dispatch_unpack p) = SStep TOptional.
Proof. exact route_optional. Qed.
Theorem C10_dispatch_union : forall p,
  agree p [special; ("is_union(spec.type)", true); ("is_optional(spec.type, resolved_type_params)", false)] ->
  site_of (dispatch_pack p) = SStep TMember /\ site_of (dispatch_unpack p) = SStep TMember.
Proof. exact route_union. Qed.
Theorem C10_dispatch_newtype : forall p,
  agree p (before_newtype ++ [("is_new_type(spec.type)", true)]) ->
  site_of (dispatch_pack p) = SStep TNewType /\ site_of (dispatch_unpack p) = SStep TNewType.
Proof. exact route_newtype. Qed.
Theorem C10_dispatch_self : forall p,
  agree p (before_newtype ++ [("is_new_type(spec.type)", false); ("is_literal(spec.type)", false);
                               ("spec.type is typing_extensions.LiteralString", false); ("is_self(spec.type)", true)]) ->
  site_of (dispatch_pack p) = SSelf /\ site_of (dispatch_unpack p) = SSelf.
Proof. exact route_self. Qed.
Theorem C10_dispatch_named_tuple : forall p,
  agree p (plain_collection ++ [("ensure_generic_collection_subclass(spec, list)", false);
                                 ("ensure_generic_collection_subclass(spec, collections.deque)", false);
                                 ("issubclass(spec.origin_type, tuple)", true); ("is_named_tuple(spec.origin_type)", true)]) ->
  site_of (dispatch_pack p) = SStep TNamedField /\ site_of (dispatch_unpack p) = SStep TNamedField.
Proof. exact route_named_tuple. Qed.
Theorem C10_dispatch_tuple : forall p,
  agree p (plain_collection ++ [("ensure_generic_collection_subclass(spec, list)", false);
                                 ("ensure_generic_collection_subclass(spec, collections.deque)", false);
                                 ("issubclass(spec.origin_type, tuple)", true); ("is_named_tuple(spec.origin_type)", false);
                                 ("ensure_generic_collection(spec)", true)]) ->
  site_of (dispatch_pack p) = SStep TTupleItem /\ site_of (dispatch_unpack p) = SStep TTupleItem.
Proof. exact route_tuple. Qed.
Theorem C10_dispatch_list : forall p,
  agree p (plain_collection ++ [("issubclass(spec.origin_type, tuple)", false);
                                 ("ensure_generic_collection_subclass(spec, list, deque, Set)", true);
                                 ("ensure_generic_collection_subclass(spec, list)", true)]) ->
  site_of (dispatch_pack p) = SStep TElement /\ site_of (dispatch_unpack p) = SStep TElement.
Proof. exact route_list. Qed.
Theorem C10_dispatch_typed_dict : forall p,
  agree p (plain_collection ++ not_sequence_like ++ [("is_typed_dict(spec.origin_type)", true)]) ->
  site_of (dispatch_pack p) = SStep TTypedKey /\ site_of (dispatch_unpack p) = SStep TTypedKey.
Proof. exact route_typed_dict. Qed.
Theorem C10_dispatch_mapping : forall p,
  agree p (plain_collection ++ not_sequence_like ++
           [("is_typed_dict(spec.origin_type)", false); ("issubclass(spec.origin_type, types.MappingProxyType)", false);
            ("ensure_generic_mapping(spec, args, Mapping)", true)]) ->
  site_of (dispatch_pack p) = SStep TElement /\ site_of (dispatch_unpack p) = SStep TElement.
Proof. exact route_mapping. Qed.
Print Assumptions C10_dispatch_optional. Print Assumptions C10_dispatch_union. Print Assumptions C10_dispatch_newtype.
Print Assumptions C10_dispatch_self. Print Assumptions C10_dispatch_named_tuple. Print Assumptions C10_dispatch_tuple.
Print Assumptions C10_dispatch_list. Print Assumptions C10_dispatch_typed_dict. Print Assumptions C10_dispatch_mapping.

(* non-vacuity: a valuation as the harness computes it for NewType("N", date) *)
Example C10_dispatch_nonvacuous :
  let p := fun t => orb (String.eqb t "is_special_typing_primitive(spec.origin_type)") (String.eqb t "is_new_type(spec.type)") in
  agree p (before_newtype ++ [("is_new_type(spec.type)", true)]) /\ dispatch_pack p = "newtype".
Proof. cbv zeta. split; [repeat constructor|reflexivity]. Qed.
