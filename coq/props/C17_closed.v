(* C17: generated code is closed and binds every type by identity. *)
From Coq Require Import List String Bool NArith.
From Verif Require Import Closed ClosedProofs NsBind Binding Render.
Import ListNotations.

(* A program accepted by the analysis never raises NameError / UnboundLocalError, and never an
   AttributeError on a module, class or attribute holder of its captured namespace (the outcome
   OName stands for all three): neither its module level code (run by exec with locals dict +
   globals + builtins = nm, objects Wm) nor any of its functions, called with any arguments, on any
   path (every branch, every exception edge, any number of loop iterations, any expression
   raising), with globals + builtins = nf bound to the objects Wf. *)
Theorem C17_closed_sound : forall nm nf Wm Wf p,
  check_closed nm nf Wm Wf p = true ->
  (forall o, exec false [] nm Wm (mod_stmt p) [] o -> o <> OName) /\
  (forall f, In f (defs p) -> forall B o,
      incl (fparams f) B -> exec true (fdecl f) nf Wf (fbody f) B o -> o <> OName).
Proof. exact closed_sound. Qed.
Print Assumptions C17_closed_sound.

(* every generated attribute a program reads from a class / holder is one some program installs *)
Theorem C17_attrs_closed_sound : forall reads sets,
  attrs_closed reads sets = true -> forall r, In r reads -> In r sets.
Proof. exact attrs_closed_sound. Qed.
Print Assumptions C17_attrs_closed_sound.

(* identity binding, full strength: every object imported under its rendered name is what that
   name denotes in the namespace built by setdefault *)
Definition C17_binding_full : Prop :=
  forall (V : Type) (render : V -> string) (objs : list V) (o : V),
    In o objs -> lookup V (render o) (ns_setdefault V render objs []) = Some o.

Theorem C17_binding_partial : forall (V : Type) (render : V -> string) (objs : list V) m0 (o : V),
  NoDup (map render objs) ->
  (forall o', In o' objs -> lookup V (render o') m0 = None) ->
  In o objs -> lookup V (render o) (ns_setdefault V render objs m0) = Some o.
Proof. exact binding_partial. Qed.
Print Assumptions C17_binding_partial.

(* defect D7: two distinct objects with one rendered name -> the second is bound to the first *)
Theorem C17_same_name_refuted : forall (V : Type) (render : V -> string) (o1 o2 : V) rest,
  render o1 = render o2 ->
  lookup V (render o2) (ns_setdefault V render (o1 :: o2 :: rest) []) = Some o1.
Proof. exact NsBind.first_wins. Qed.
Print Assumptions C17_same_name_refuted.

Theorem C17_binding_refuted : ~ C17_binding_full.
Proof.
  intros H. specialize (H nat (fun _ => "m.mk.<locals>.L"%string) [1; 2] 2 (or_intror (or_introl eq_refl))).
  vm_compute in H. discriminate H.
Qed.
Print Assumptions C17_binding_refuted.

(* local classes are rendered through clean_id, which is not injective: distinct qualified
   names (top-level class A_B, nested class A.B) share one identifier *)
Theorem C17_clean_id_refuted :
  exists q1 q2 : string, q1 <> q2 /\ clean_id q1 = clean_id q2 /\
    lookup nat (clean_id q2) (ns_setdefault nat (fun n => match n with 1 => clean_id q1 | _ => clean_id q2 end) [1; 2] []) = Some 1.
Proof.
  exists "m.A_B"%string, "m.A.B"%string. split; [discriminate|]. split; reflexivity.
Qed.
Print Assumptions C17_clean_id_refuted.

(* ---------------------------------------------------------------- non-vacuity *)
Open Scope N_scope.

(* def f(d):                       names: 1=f 2=d 3=value 4=MISSING 5=int 6=cls 7=x 8=InvalidFieldValue 9=setattr
       try:
           value = d.get('x', MISSING)
           try: x = int(value)
           except: raise InvalidFieldValue(value, cls)
       except AttributeError(=10): raise
       return cls(x, [value for value in d])
   setattr(cls, 'f', f) *)
Definition W0 : world := mkW [] [].
Definition ex_body : stmt :=
  SSeq (STry (SSeq (SAssign [3] (ECons (ELoad 2) (ELoad 4)))
                   (STry (SAssign [7] (ECons (ELoad 5) (ELoad 3)))
                         (HCons ENil None (SRaise (ECons (ELoad 8) (ECons (ELoad 3) (ELoad 6)))) HNil)
                         SPass SPass))
             (HCons (ELoad 10) None (SRaise ENil) HNil) SPass SPass)
       (SReturn (ECons (ELoad 6) (ECons (ELoad 7) (EComp (ELoad 2) (CBind [3] (CEval (ELoad 3) CEnd)))))).
Definition ex_prog : program :=
  [IDef (mkFun 1 ENil [2] ex_body); IStmt (SExpr (ECons (ELoad 9) (ECons (ELoad 6) (ELoad 1))))].

Example C17_accepts : check_closed [6; 9] [4; 5; 6; 8; 10] W0 W0 ex_prog = true.
Proof. vm_compute. reflexivity. Qed.
(* the same program without MISSING in its globals, or with the error path naming an unbound local *)
Example C17_rejects_missing_global : check_closed [6; 9] [5; 6; 8; 10] W0 W0 ex_prog = false.
Proof. vm_compute. reflexivity. Qed.
Definition ex_bad_body : stmt :=
  STry (SAssign [7] (ELoad 5)) (HCons ENil None (SRaise (ELoad 7)) HNil) SPass SPass.
Example C17_rejects_unbound_on_except_path :
  check_closed [] [5] W0 W0 [IDef (mkFun 1 ENil [2] ex_bad_body)] = false.
Proof. vm_compute. reflexivity. Qed.
(* and the semantics really can raise NameError there *)
Example C17_semantics_can_fail :
  exec true [2; 7] [5] W0 ex_bad_body [2] OName.
Proof.
  eapply XTryExc with (B1 := [2]) (o2 := OName).
  - apply (XAssign true [2; 7] [5] W0 [2] [7] (ELoad 5) RExc). apply EvRaise.
  - apply (HMatch true [2; 7] [5] W0 ENil None (SRaise (ELoad 7)) HNil [2] OName).
    + apply EvNil.
    + apply (XRaise true [2; 7] [5] W0 [2] (ELoad 7) RName). apply EvLoadBad. reflexivity.
  - apply FinName.
Qed.

(* the statement each generated shard file instantiates: all programs of the shard are closed *)
Theorem C17_shard_sound : forall cases,
  Verif.Wire.bad_idx case_ok cases = [] ->
  forall c, In c cases ->
    (forall o, exec false [] (c_nm c) (c_wm c) (mod_stmt (c_prog c)) [] o -> o <> OName) /\
    (forall f, In f (defs (c_prog c)) -> forall B o,
        incl (fparams f) B -> exec true (fdecl f) (c_nf c) (c_wf c) (fbody f) B o -> o <> OName).
Proof. exact shard_sound. Qed.
Print Assumptions C17_shard_sound.

(* ---------------------------------------------------------------- identity binding over the object model *)

(* full strength: whatever was imported under a rendered root name, the rendered chain denotes the
   object found at that path below the imported object *)
Definition C17_binding_chain_full : Prop :=
  forall g0 imps h en root path m c,
    In (root, m) imps -> walk h m path = Some (Some c) ->
    denote (mkW (assemble g0 imps) h) en root path = Some c.

(* holds when rendered root names are injective on the imported objects, the root is not a name
   the builder module already owns, and the root is not a local name of the generated function *)
Theorem C17_binding : forall g0 imps h en root path m c,
  functional imps -> assoc root g0 = None -> In (root, m) imps ->
  walk h m path = Some (Some c) -> falls_global en root = true ->
  denote (mkW (assemble g0 imps) h) en root path = Some c.
Proof. exact binding_denote. Qed.
Print Assumptions C17_binding.

(* known collisions, in the object model *)
Theorem C17_first_import_wins_refuted : forall g0 n o1 o2 rest,
  assoc n g0 = None -> assoc n (assemble g0 ((n, o1) :: (n, o2) :: rest)) = Some o1.
Proof. exact Binding.first_wins. Qed.
Print Assumptions C17_first_import_wins_refuted.

Theorem C17_prepopulated_refuted : forall g0 imps root o',
  assoc root g0 = Some o' -> assoc root (assemble g0 imps) = Some o'.
Proof. exact prepopulated_wins. Qed.
Print Assumptions C17_prepopulated_refuted.

Theorem C17_not_at_qualname_refuted : forall ns W en root path,
  lookup_ok ns en root = true -> falls_global en root = true -> resolve W root path = None ->
  eval ns W en (EAttr root path) RName.
Proof. exact not_at_qualname. Qed.
Print Assumptions C17_not_at_qualname_refuted.

Theorem C17_local_root_refuted : forall W en root path,
  falls_global en root = false -> denote W en root path = None.
Proof. exact local_root_shadows. Qed.
Print Assumptions C17_local_root_refuted.

Theorem C17_binding_chain_refuted : ~ C17_binding_chain_full.
Proof.
  intros H.
  (* two classes imported under one alias name 7: objects 1 and 2; the chain `7` denotes 1 for both *)
  specialize (H [] [(7, 1); (7, 2)] [] [] 7 [] 2 2 (or_intror (or_introl eq_refl)) eq_refl).
  vm_compute in H. discriminate H.
Qed.
Print Assumptions C17_binding_chain_refuted.

(* per-run checks are what they say *)
Theorem C17_binding_ok_sound : forall W exps,
  binding_ok W exps = true ->
  forall root path c, In (root, path, c) exps -> resolve W root path = Some (Some c).
Proof. exact binding_ok_sound. Qed.
Print Assumptions C17_binding_ok_sound.

Theorem C17_assembly_ok_sound : forall g0 imps real,
  assembly_ok g0 imps real = true ->
  forall n o, In (n, o) imps -> assoc n real = assoc n (assemble g0 imps).
Proof. exact assembly_ok_sound. Qed.
Print Assumptions C17_assembly_ok_sound.

(* non-vacuity with the new constructs: names 20 = pkg, 21 = mod, 22 = Cls, 23 = Missing, 24 = value (a parameter)
   objects: 100 = package (module), 101 = module, 102 = class *)
Definition Wx : world :=
  mkW [(20, 100)] [(100, mkObj KModule [(21, 101)]); (101, mkObj KModule [(22, 102)]); (102, mkObj KClass [])].
Definition chain_prog (attr : N) : program :=
  [IDef (mkFun 1 ENil [24] (SReturn (ECons (EAttr 20 [21; attr]) (EAttr 24 [22; 23]))))].
Example C17_chain_accepts : check_closed [] [20] W0 Wx (chain_prog 22) = true.
Proof. vm_compute. reflexivity. Qed.
Example C17_chain_rejects_missing_attribute : check_closed [] [20] W0 Wx (chain_prog 23) = false.
Proof. vm_compute. reflexivity. Qed.
Example C17_chain_denotes : denote Wx [mkF true [24] [24]] 20 [21; 22] = Some 102.
Proof. vm_compute. reflexivity. Qed.
Example C17_binding_nonvacuous :
  functional [(20, 100)] /\ assoc 20 ([] : gmap) = None /\
  denote (mkW (assemble [] [(20, 100)]) (wheap Wx)) [mkF true [24] [24]] 20 [21; 22] = Some 102.
Proof.
  split; [| split; [reflexivity | vm_compute; reflexivity]].
  intros n o1 o2 [A | []] [B | []]. inversion A; inversion B; congruence.
Qed.

(* ---------------------------------------------------------------- rendering (model of type_name, compared with the implementation each run) *)
Theorem C17_render_named : forall nn m q, render nn (RNamed m q) = (m ++ "." ++ q)%string.
Proof. exact render_named. Qed.
Print Assumptions C17_render_named.

(* the chain (root :: path) that C17_binding / check_closed resolve for a class is the dot-split of its rendering *)
Theorem C17_render_chain : forall nn m q,
  split_dots (render nn (RNamed m q)) "" = (split_dots m "" ++ split_dots q "")%list.
Proof. exact render_chain. Qed.
Print Assumptions C17_render_chain.
