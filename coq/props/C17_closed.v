(* C17: generated code is closed and binds every type by identity. *)
From Coq Require Import List String Bool NArith.
From Verif Require Import Closed ClosedProofs NsBind.
Import ListNotations.

(* A program accepted by the analysis never raises NameError / UnboundLocalError: neither its
   module level code (run by exec with locals dict + globals + builtins = nm) nor any of its
   functions, called with any arguments, on any path (every branch, every exception edge, any
   number of loop iterations, any expression raising), with globals + builtins = nf. *)
Theorem C17_closed_sound : forall nm nf p,
  check_closed nm nf p = true ->
  (forall o, exec false [] nm (mod_stmt p) [] o -> o <> OName) /\
  (forall f, In f (defs p) -> forall B o,
      incl (fparams f) B -> exec true (fdecl f) nf (fbody f) B o -> o <> OName).
Proof. exact closed_sound. Qed.
Print Assumptions C17_closed_sound.

(* every generated attribute a program reads from a class / holder is one some program installs *)
Theorem C17_attrs_closed_sound : forall reads sets,
  attrs_closed reads sets = true -> forall r, In r reads -> In r sets.
Proof. exact attrs_closed_sound. Qed.
Print Assumptions C17_attrs_closed_sound.

(* identity binding, full strength: every object imported under its rendered name is what that
   name denotes in the namespace built by setdefault *)
Definition C17_binding_full : Prop :=
  forall (V : Type) (render : V -> string) (objs : list V) (o : V),
    In o objs -> lookup V (render o) (ns_setdefault V render objs []) = Some o.

Theorem C17_binding_partial : forall (V : Type) (render : V -> string) (objs : list V) m0 (o : V),
  NoDup (map render objs) ->
  (forall o', In o' objs -> lookup V (render o') m0 = None) ->
  In o objs -> lookup V (render o) (ns_setdefault V render objs m0) = Some o.
Proof. exact binding_partial. Qed.
Print Assumptions C17_binding_partial.

(* defect D7: two distinct objects with one rendered name -> the second is bound to the first *)
Theorem C17_same_name_refuted : forall (V : Type) (render : V -> string) (o1 o2 : V) rest,
  render o1 = render o2 ->
  lookup V (render o2) (ns_setdefault V render (o1 :: o2 :: rest) []) = Some o1.
Proof. exact first_wins. Qed.
Print Assumptions C17_same_name_refuted.

Theorem C17_binding_refuted : ~ C17_binding_full.
Proof.
  intros H. specialize (H nat (fun _ => "m.mk.<locals>.L"%string) [1; 2] 2 (or_intror (or_introl eq_refl))).
  vm_compute in H. discriminate H.
Qed.
Print Assumptions C17_binding_refuted.

(* local classes are rendered through clean_id, which is not injective: distinct qualified
   names (top-level class A_B, nested class A.B) share one identifier *)
Theorem C17_clean_id_refuted :
  exists q1 q2 : string, q1 <> q2 /\ clean_id q1 = clean_id q2 /\
    lookup nat (clean_id q2) (ns_setdefault nat (fun n => match n with 1 => clean_id q1 | _ => clean_id q2 end) [1; 2] []) = Some 1.
Proof.
  exists "m.A_B"%string, "m.A.B"%string. split; [discriminate|]. split; reflexivity.
Qed.
Print Assumptions C17_clean_id_refuted.

(* ---------------------------------------------------------------- non-vacuity *)
Open Scope N_scope.

(* def f(d):                       names: 1=f 2=d 3=value 4=MISSING 5=int 6=cls 7=x 8=InvalidFieldValue 9=setattr
       try:
           value = d.get('x', MISSING)
           try: x = int(value)
           except: raise InvalidFieldValue(value, cls)
       except AttributeError(=10): raise
       return cls(x, [value for value in d])
   setattr(cls, 'f', f) *)
Definition ex_body : stmt :=
  SSeq (STry (SSeq (SAssign [3] (ECons (ELoad 2) (ELoad 4)))
                   (STry (SAssign [7] (ECons (ELoad 5) (ELoad 3)))
                         (HCons ENil None (SRaise (ECons (ELoad 8) (ECons (ELoad 3) (ELoad 6)))) HNil)
                         SPass SPass))
             (HCons (ELoad 10) None (SRaise ENil) HNil) SPass SPass)
       (SReturn (ECons (ELoad 6) (ECons (ELoad 7) (EComp (ELoad 2) (CBind [3] (CEval (ELoad 3) CEnd)))))).
Definition ex_prog : program :=
  [IDef (mkFun 1 ENil [2] ex_body); IStmt (SExpr (ECons (ELoad 9) (ECons (ELoad 6) (ELoad 1))))].

Example C17_accepts : check_closed [6; 9] [4; 5; 6; 8; 10] ex_prog = true.
Proof. vm_compute. reflexivity. Qed.
(* the same program without MISSING in its globals, or with the error path naming an unbound local *)
Example C17_rejects_missing_global : check_closed [6; 9] [5; 6; 8; 10] ex_prog = false.
Proof. vm_compute. reflexivity. Qed.
Definition ex_bad_body : stmt :=
  STry (SAssign [7] (ELoad 5)) (HCons ENil None (SRaise (ELoad 7)) HNil) SPass SPass.
Example C17_rejects_unbound_on_except_path :
  check_closed [] [5] [IDef (mkFun 1 ENil [2] ex_bad_body)] = false.
Proof. vm_compute. reflexivity. Qed.
(* and the semantics really can raise NameError there *)
Example C17_semantics_can_fail :
  exec true [2; 7] [5] ex_bad_body [2] OName.
Proof.
  eapply XTryExc with (B1 := [2]) (o2 := OName).
  - apply (XAssign true [2; 7] [5] [2] [7] (ELoad 5) RExc). apply EvRaise.
  - apply (HMatch true [2; 7] [5] ENil None (SRaise (ELoad 7)) HNil [2] OName).
    + apply EvNil.
    + apply (XRaise true [2; 7] [5] [2] (ELoad 7) RName). apply EvLoadBad. reflexivity.
  - apply FinName.
Qed.

(* the statement each generated shard file instantiates: all programs of the shard are closed *)
Theorem C17_shard_sound : forall cases,
  Verif.Wire.bad_idx case_ok cases = [] ->
  forall c, In c cases ->
    (forall o, exec false [] (fst (fst c)) (mod_stmt (snd c)) [] o -> o <> OName) /\
    (forall f, In f (defs (snd c)) -> forall B o,
        incl (fparams f) B -> exec true (fdecl f) (snd (fst c)) (fbody f) B o -> o <> OName).
Proof. exact shard_sound. Qed.
Print Assumptions C17_shard_sound.
