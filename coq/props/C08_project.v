(* C08 - serialization options only project the plain output.
   Model: Verif.OptProj (flat body of to_dict, parametric in the packed field values).
   Kernel theorems: C08_kernels.v; nested classes: C08_nested.v. *)
From Coq Require Import List String ZArith Bool Sorting.Sorted Sorting.Permutation.
From Verif Require Import OptProj OptProjProofs.
Import ListNotations.
Open Scope string_scope.

(* ---- the property, flat ---- *)
Definition C08_project_full : Prop :=
  forall (o: opts) (fs: list fplan) (vs: list fval),
    kw_ok o = true -> vals_ok fs vs = true ->
    to_dict_model o fs vs = Some (project (eff_of o) fs vs (plain_out fs vs)).

Theorem C08_project_partial :
  forall (o: opts) (fs: list fplan) (vs: list fval),
    kw_ok o = true -> vals_ok fs vs = true -> flag_defaults_ok o = true ->
    to_dict_model o fs vs = Some (project (eff_of o) fs vs (plain_out fs vs)).
Proof. exact project_partial. Qed.
Print Assumptions C08_project_partial.

(* D14 (known finding C08/call-dialect-vs-flag-defaults) *)
Theorem C08_project_refuted : ~ C08_project_full.
Proof. exact project_full_refuted. Qed.
Print Assumptions C08_project_refuted.

(* a union of three or more members containing None (repaired in /repo 906a805, formerly known finding
   C08/omit-none-wide-union): nullable (K17), inside the domain of C08_project_partial, None dropped *)
Example C08_wide_union :
  kw_ok wide_opts = true /\ vals_ok wide_fields wide_vals = true /\ flag_defaults_ok wide_opts = true /\
  to_dict_model wide_opts wide_fields wide_vals = Some [("w", PStr "2020-01-01")].
Proof. exact wide_union_example. Qed.

(* NaN default under omit_default (repaired in /repo 80d27b9, formerly known finding
   C08/omit-default-nan-isnan): None and non-numbers are kept, only a float NaN is dropped; this
   instance is inside the domain of C08_project_partial *)
Example C08_nan_default :
  kw_ok nan_opts = true /\ vals_ok nan_fields nan_vals = true /\ flag_defaults_ok nan_opts = true /\
  to_dict_model nan_opts nan_fields nan_vals = Some [("m", PNone); ("s", PStr "q")].
Proof. exact nan_default_example. Qed.

(* what the body computes on the whole lattice, D14 included: the projection under the DEFAULT
   METHOD's keyword defaults *)
Theorem C08_project_actual :
  forall (o: opts) (fs: list fplan) (vs: list fval),
    kw_ok o = true -> vals_ok fs vs = true ->
    to_dict_model o fs vs = Some (project (eff_d14 o) fs vs (plain_out fs vs)).
Proof. exact project_actual. Qed.
Print Assumptions C08_project_actual.

(* what the reference says (independent of the body): with sort_keys the rows are a permutation
   of the plain output ordered by FIELD NAME; every emitted pair carries the unchanged value of the
   plain output under the field's name or its alias *)
Theorem C08_spec_sorted :
  forall e fs vs plain, e.(e_sort) = true ->
    exists rows, project e fs vs plain = flat_map (project_row e) rows
                 /\ Permutation rows (combine (combine fs vs) plain)
                 /\ Sorted (key_le prow_name) rows.
Proof. exact project_sorted_rows. Qed.
Print Assumptions C08_spec_sorted.

Theorem C08_spec_values :
  forall e r k v, In (k, v) (project_row e r) ->
    v = snd (snd r) /\ (k = (fst (fst r)).(p_name) \/ (fst (fst r)).(p_alias) = Some k).
Proof. exact project_row_values. Qed.
Print Assumptions C08_spec_values.

(* non-vacuity: the hypotheses hold for an instance on which every projection acts *)
Definition ex_opts : opts :=
  {| o_call := Some {| n_on := U; n_od := T; n_ba := U |}; o_cfgd := Some {| n_on := F; n_od := F; n_ba := T |};
     o_cfg := {| n_on := T; n_od := U; n_ba := F |}; o_dd := None; o_sort := true;
     o_fon := true; o_fba := false; o_fdl := true; o_fcx := false; o_kon := Some true; o_kba := None |}.
Definition ex_fields : list fplan :=
  [ {| p_name := "z"; p_alias := Some "Z"; p_ty := TyPlain; p_trivial := false; p_default := DNo; p_omit := false |};
    {| p_name := "n"; p_alias := None; p_ty := TyOptional; p_trivial := false; p_default := DVal (PInt 3); p_omit := false |};
    {| p_name := "d"; p_alias := Some "D"; p_ty := TyPlain; p_trivial := true; p_default := DVal (PInt 1); p_omit := false |};
    {| p_name := "h"; p_alias := None; p_ty := TyPlain; p_trivial := true; p_default := DNo; p_omit := true |};
    {| p_name := "a"; p_alias := Some "A"; p_ty := TyOptional; p_trivial := true; p_default := DVal PNone; p_omit := false |} ].
Definition ex_vals : list fval :=
  [ (POpq 1, PStr "2020-01-01"); (PNone, PNone); (PBool true, PBool true); (PInt 7, PInt 7); (PInt 5, PInt 5) ].

Example C08_project_nonvacuous :
  kw_ok ex_opts = true /\ vals_ok ex_fields ex_vals = true /\ flag_defaults_ok ex_opts = true /\
  plain_out ex_fields ex_vals = [("z", PStr "2020-01-01"); ("n", PNone); ("d", PBool true); ("h", PInt 7); ("a", PInt 5)] /\
  to_dict_model ex_opts ex_fields ex_vals = Some [("A", PInt 5); ("Z", PStr "2020-01-01")].
Proof. repeat split; reflexivity. Qed.
