(* C03 / kernel K45c: Optional[...] and type variables on the unpack side (see C02_typevar.v). *)
From Coq Require Import List String ZArith Bool.
From Verif Require Import Core TyModel TyProofs TyConform StpCode TyTypeVar.
From VerifGen Require Import K45c.
Import ListNotations.

Theorem C03_optional_code_is_model : forall (cbn: bool) (t: sty),
  stp_pdec cbn code_unpack_optional (fun c => cu c t) = Some (cu cbn (SOpt t)).
Proof. exact cu_optional_is_code. Qed.
Print Assumptions C03_optional_code_is_model.

Theorem C03_typevar_code_is_model : forall (cbn: bool) (k: tvar),
  stp_pdec cbn (code_unpack_tvar k) (fun c => cu c (tv_inner k)) = Some (cu cbn (tv_sty k)).
Proof. exact cu_tvar_is_code. Qed.
Print Assumptions C03_typevar_code_is_model.

(* the property for a position annotated by a type variable, on every input *)
Theorem C03_typevar_unpack_ref : forall (E: senv) (P: prims) (k: tvar) (d: pv),
  uk E P d (cu true (tv_sty k)) = ref_dec_l E P d (tv_sty k).
Proof. intros E P k d. exact (decode_is_ref E P d (tv_sty k)). Qed.
Print Assumptions C03_typevar_unpack_ref.

Definition tvE : senv :=
  [ {| sc_kind := KData; sc_name := "G"; sc_fields :=
         [ {| sf_name := "x"; sf_ty := tv_sty TVAny; sf_default := None; sf_opt := false |};
           {| sf_name := "y"; sf_ty := tv_sty (TVBound SIntT); sf_default := None; sf_opt := false |};
           {| sf_name := "w"; sf_ty := SList (tv_sty (TVBound SIntT)); sf_default := None; sf_opt := false |} ] |} ].
Definition tvP : prims := {|
  p_render := fun k w => VStr w; p_parse := fun _ _ => None; p_enum_value := fun _ _ => None; p_enum_of := fun _ _ => None;
  p_b64enc := fun b => b; p_b64dec := fun _ => None;
  p_int := fun v => match v with VStr "5" => Some 5%Z | _ => None end; p_float := fun _ => None; p_str := fun _ => None |}.
(* observed on /repo e775114: {"x": "a", "y": "5", "w": ["5", None]} -> G(x='a', y=5, w=[5, None]); y missing -> MissingField *)
Example C03_typevar_nonvacuous :
  uk tvE tvP (VDict [(VStr "x", VStr "a"); (VStr "y", VStr "5"); (VStr "w", VList [VStr "5"; VNone])]) (cu true (SData "G")) =
    Ok (VObj "G" [("x", VStr "a"); ("y", VInt 5); ("w", VList [VInt 5; VNone])]) /\
  uk tvE tvP (VDict [(VStr "x", VNone); (VStr "y", VNone); (VStr "w", VList [])]) (cu true (SData "G")) =
    Ok (VObj "G" [("x", VNone); ("y", VNone); ("w", VList [])]) /\
  uk tvE tvP (VDict [(VStr "x", VNone); (VStr "w", VList [])]) (cu true (SData "G")) = Exn (XMissingField "y" "G").
Proof. repeat split; vm_compute; reflexivity. Qed.
