(* C05, kernel K16: the handlers the generator emits and the class hierarchy of exceptions.py are what the
   model Errs.v assumes.  K16.v is re-translated from /repo on every run; these proofs are re-checked against it. *)
From Coq Require Import List String Bool.
From Verif Require Import Core Errs ExcHier.
From VerifGen Require Import K16.
Import ListNotations.
Open Scope string_scope.
Open Scope list_scope.

Definition hier := builtin_bases ++ exc_bases.

(* the emitted handlers, in source order, are exactly the ones of the model *)
Theorem C05_k16_handlers_as_modelled :
  field_handlers = [[]] /\                                   (* per-field: bare `except:` (Errs.field_step) *)
  frame_handlers = [["AttributeError"]] /\                    (* Errs.outer_handler *)
  union_handlers = [["Exception"]; ["Exception"]] /\         (* Errs.try_pass in union_first / union_fallbacks *)
  discr_field_handlers =
    [["KeyError"];                                            (* tag lookup -> MissingDiscriminatorError *)
     ["TypeError"];                                           (* tag lookup on a non-mapping -> ValueError *)
     ["TypeError"];                                           (* hash(tag) -> SuitableVariantNotFoundError *)
     ["KeyError"; "AttributeError"];                          (* first call -> register and retry (Errs.discr_call) *)
     ["KeyError"];                                            (* registration loop: variant without own tag *)
     ["KeyError"]] /\                                         (* retry -> SuitableVariantNotFoundError *)
  discr_nofield_handlers = [["AttributeError"]; ["KeyError"; "AttributeError"]; ["Exception"]] /\
  discr_build_handlers = [["Exception"]; ["Exception"]].
Proof. repeat split; reflexivity. Qed.
Print Assumptions C05_k16_handlers_as_modelled.

Definition documented_classes : list string :=
  ["MissingField"; "InvalidFieldValue"; "ExtraKeysError"; "MissingDiscriminatorError"; "SuitableVariantNotFoundError"].

(* none of the class-specific handlers catches a documented exception of a nested decoder / chosen variant:
   it propagates; `except Exception` (union members, variants tried without a tag) catches all of them *)
Theorem C05_k16_documented_pass_through : forall c, In c documented_classes ->
  (forall h, In h (discr_field_handlers ++ frame_handlers) -> catches hier h c = false) /\
  catches hier ["Exception"] c = true.
Proof.
  intros c Hc.
  assert (H: forallb (fun c => forallb (fun h => negb (catches hier h c)) (discr_field_handlers ++ frame_handlers)
                               && catches hier ["Exception"] c) documented_classes = true) by (vm_compute; reflexivity).
  rewrite forallb_forall in H. specialize (H c Hc). apply andb_prop in H. destruct H as [H1 H2].
  split; [|exact H2]. intros h Hh. rewrite forallb_forall in H1. specialize (H1 h Hh).
  apply negb_true_iff. exact H1.
Qed.
Print Assumptions C05_k16_documented_pass_through.

(* the patterns the model matches on are Python's `except` matching for the translated handlers *)
Theorem C05_k16_model_patterns : forall e, named_exn e = true ->
  is_attribute_error e = catches hier (nth 0 frame_handlers []) (cls_of_exn e) /\
  (match e with XKeyError | XAttributeError => true | _ => false end)
    = catches hier (nth 3 discr_field_handlers []) (cls_of_exn e) /\
  is_key_error e = catches hier (nth 5 discr_field_handlers []) (cls_of_exn e) /\
  is_key_error e = catches hier (nth 0 discr_field_handlers []) (cls_of_exn e) /\
  is_exception e = catches hier (nth 0 union_handlers []) (cls_of_exn e).
Proof. intros e He. destruct e; try discriminate He; repeat split; vm_compute; reflexivity. Qed.
Print Assumptions C05_k16_model_patterns.
