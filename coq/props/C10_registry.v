(* C10 - the walk of the handler registry.  VerifGen.K110a: registration order of pack.py / unpack.py and the guards of
   the registered handlers (translated from /repo on every run); VerifGen.K5D: the two dispatch chains.
   - the first handler in registration order that does not decline answers (Registry.get's loop);
   - a dataclass type is answered by the dataclass handler, whatever the handlers registered later would say;
   - a type on which all other handlers registered before the collection handler decline reaches the chains and gets
     the tag K5D computes;
   - positions below a field with the site of every position decided by the walk of the WHOLE registry on the
     valuation of the library's own tests for the type at that position (compile_r): the reference of Positions.v. *)
From Coq Require Import List String ZArith Bool.
From Verif Require Import PyK PyK_strat OptProj Strategies StrategiesProofs Positions K5Kernel K5PKernel PositionsProofs Dispatch
                          PositionsV RegistryWalk.
From VerifGen Require Import K5D K110a.
Import ListNotations.
Open Scope nat_scope.
Open Scope string_scope.

Theorem C10_registry_first_answer : forall pre n h post p,
  Forall (declines p) pre -> h p <> "decline" -> walk (pre ++ (n, h) :: post) p = (n, h p).
Proof. exact walk_first_answer. Qed.
Print Assumptions C10_registry_first_answer.

Theorem C10_registry_dataclass : forall d p,
  quiet_dc d p -> snd (dataclass_handler d) p = "dataclass" ->
  walk_d d p = (fst (dataclass_handler d), "dataclass").
Proof. exact registry_dataclass. Qed.
Print Assumptions C10_registry_dataclass.

Theorem C10_registry_chains : forall d p,
  quiet_chain d p -> dispatch d p <> "decline" -> snd (walk_d d p) = dispatch d p.
Proof. exact registry_chains. Qed.
Print Assumptions C10_registry_chains.

Theorem C10_positions_registry : forall d P e vp path c,
  e <> KNone -> stands_for_r d vp path ->
  compile_r d P (x_S c) (spec_of P c) (x_holder c) e vp =
    Some (Ok (match ref_compile P d (ctxs P c path) 0 with Some (n, sw) => Some (n, emit d (Some sw) e) | None => None end)).
Proof. exact c10_positions_registry. Qed.
Print Assumptions C10_positions_registry.

(* non-vacuity: Outer.inner : Inner;  Inner.xs : Optional[List[date]] - valuations as the harness computes them with
   the library's predicates (the tests that hold are listed) *)
Definition mem (l: list string) (t: string) : bool := existsb (String.eqb t) l.
Definition pData := mem ["not issubclass(spec.origin_type, SerializableType)"; "is_dataclass(spec.origin_type)"; "spec.builder.is_nailed";
                         (* a dataclass that is also a collection: the chains are never asked *)
                         "ensure_generic_collection_subclass(spec, list, deque, Set)"].
Definition pOpt := mem ["_raises(lambda: (not issubclass(spec.origin_type, SerializableType)), TypeError)";
                        "_raises(lambda: (issubclass(spec.origin_type, GenericSerializableType)), TypeError)";
                        "is_special_typing_primitive(spec.origin_type)"; "is_union(spec.type)";
                        "is_optional(spec.type, resolved_type_params)"].
Definition pList := mem ["not issubclass(spec.origin_type, SerializableType)";
                         "ensure_generic_collection_subclass(spec, list, deque, Set)"; "ensure_generic_collection_subclass(spec, list)";
                         "ensure_generic_collection_subclass(spec, Sequence)"].
Definition pInt := mem ["not issubclass(spec.origin_type, SerializableType)"; "spec.origin_type in (int, float, bool, NoneType, None)";
                        "spec.origin_type in (int, float)"; "not issubclass(spec.origin_type, Collection)"].

Example C10_registry_walk_examples :
  walk_d Ser pData = ("pack_dataclass", "dataclass") /\ walk_d De pData = ("unpack_dataclass", "dataclass") /\
  walk_d Ser pOpt = ("pack_special_typing_primitive", "optional") /\ walk_d De pList = ("unpack_collection", "element") /\
  walk_d Ser pInt = ("pack_number_and_bool_and_none", "other") /\ walk_d De pInt = ("unpack_number", "other") /\
  walk_d Ser (mem []) = ("pack_serializable_type", "other").
Proof. repeat split; vm_compute; reflexivity. Qed.

Definition kOuter := KObj 31.  Definition kInner := KObj 32.  Definition kDate := KObj 12.
Definition kOpt := KObj 41.    Definition kList := KObj 42.   Definition kListO := KObj 43.
Definition dl (b: bool) : flags := {| g_on := false; g_ba := false; g_dl := b; g_cx := false |}.
Definition fn2 (m: nat) : sval := VDict (Some (FFn m)) (Some (FFn (100 + m))).
Definition P_ex : prims :=
  {| p_rt := fun v => v; p_org := fun v => if kv_eqb v kList then kListO else v; p_isann := fun _ => false;
     p_flags := fun v => if kv_eqb v kOuter then dl true else if kv_eqb v kInner then dl true else dl false;
     p_cfg := fun v => if kv_eqb v kInner then (None, [(kDate, fn2 5)]) else (None, []) |}.
Definition c_ex : pctx :=
  {| x_S := {| f_ser := None; f_de := None; f_strat := None; t_call := Some [(kDate, fn2 3)]; t_cfgd := None;
               t_cfg := []; t_dflt := None |};
     x_ann := KNone; x_decl := kInner; x_holder := kOuter |}.
Definition rpath_ex : list rnode := [RField pData no_fieldopts kOpt; RType pOpt kList; RType pList kDate].

Example C10_positions_registry_nonvacuous :
  (forall d, stands_for_r d rpath_ex [NField false no_fieldopts kOpt; NType TOptional kList; NType TElement kDate]) /\
  compile_r Ser P_ex (x_S c_ex) (spec_of P_ex c_ex) kOuter (KStr "value") rpath_ex
    = Some (Ok (Some (3, k_call_expr (KObj 4) (KStr "value")))) /\
  compile_r De P_ex (x_S c_ex) (spec_of P_ex c_ex) kOuter (KStr "value") rpath_ex
    = Some (Ok (Some (3, k_call_expr (KObj 104) (KStr "value")))).
Proof.
  split; [|split; vm_compute; reflexivity].
  intros d. apply sr_data; [apply quiet_dc_b; destruct d; vm_compute; reflexivity | destruct d; vm_compute; reflexivity |].
  apply sr_type; [apply quiet_chain_b; destruct d; vm_compute; reflexivity | cbn; repeat constructor |].
  apply sr_type; [apply quiet_chain_b; destruct d; vm_compute; reflexivity | left; cbn; repeat constructor |].
  apply sr_nil.
Qed.
