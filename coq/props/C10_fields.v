(* C10 - "the field's serialize/deserialize option, the field's serialization_strategy": which declaration
   of the field supplies them.  dataclass_fields is CodeBuilder.dataclass_fields translated from /repo on
   this run (VerifGen.K5); its result maps each field name to the Field object whose metadata feeds the
   resolution (metadata = the F1/F2 slots of C10_precedence). *)
From Coq Require Import List String ZArith.
From Verif Require Import PyK PyK_strat FieldDecl FieldDeclProofs.
From VerifGen Require Import K5.
Import ListNotations.
Open Scope string_scope.

(* for a class with MRO c0 :: rest: the translated function returns ref_fields, and for every name the class
   does not annotate itself the Field (hence the options) is the one of the nearest ancestor in MRO order
   that is a dataclass declaring it - never one that a nearer class re-declared *)
Theorem C10_field_decl : forall c0 rest own nsd ownf,
  sd_get nsd "__dataclass_fields__" = None -> ~ In "__dataclass_fields__" own ->
  exists d,
    dataclass_fields (KTuple (enc_class c0 :: map enc_class rest)) (KList (map KStr own)) (enc_namespace nsd ownf)
      = Ok (KDict (enc_sd d)) /\
    d = ref_fields rest own nsd ownf /\
    forall n, ~ In n own -> sd_get d n = option_map (mk_field n) (nearest rest n).
Proof. exact c10_field_decl. Qed.
Print Assumptions C10_field_decl.

(* non-vacuity: Base declares x (options 1) and y (options 3); Middle re-declares x (options 2) and y without
   options (0); Leaf inherits: Leaf uses Middle's declarations *)
Example C10_field_decl_nonvacuous :
  let leaf := Some [("x", KInt 2); ("y", KInt 0)] in
  let middle := Some [("x", KInt 2); ("y", KInt 0)] in
  let base := Some [("x", KInt 1); ("y", KInt 3)] in
  dataclass_fields (KTuple (map enc_class [leaf; middle; base; None])) (KList []) (enc_namespace [] (Some []))
  = Ok (KDict (enc_sd [("x", mk_field "x" (KInt 2)); ("y", mk_field "y" (KInt 0))])).
Proof. reflexivity. Qed.
