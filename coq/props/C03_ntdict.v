(* C03, NamedTuple in the as_dict form (see C02_ntdict.v for the domain).  Model: TyNtDict.v --
     C(u_a(value['a']), ...)                                    when no field has a default,
     fields = {}; fields['a'] = u_a(value['a']); if 'b' in value: fields['b'] = u_b(value['b']); C( **fields )
                                                                 otherwise (after fix 28df7ca),
   on EVERY input: dicts (lookup by ==), lists / tuples / sets / str ("in" works, value['a'] raises TypeError),
   anything else ("in" raises TypeError); constant unpacker expressions never read their key. *)
From Coq Require Import List String ZArith Bool.
From Verif Require Import Core TyModel TyProofs TyStrict TyConform TyNtDict TyNtDictProofs.
Import ListNotations.

(* the generated unpacker is the reference (items by the as-generated reading [ref_dec_l], as in C03_unpack_ref) *)
Theorem C03_ntdict_unpack_ref : forall (E: senv) (P: prims) (d: pv) (c: String.string),
  uk_nd E P d c = ref_dec_nd_l E P d c.
Proof. exact nd_unpack_is_ref. Qed.
Print Assumptions C03_ntdict_unpack_ref.

(* ... and the documented reference unless that one says "too few items" inside an item (tuples with an unpacked
   segment: known finding C03/unpacked-tuple-short-input) *)
Theorem C03_ntdict_strict_or_same : forall (E: senv) (P: prims) (d: pv) (c: String.string),
  ref_dec_nd E P d c = ref_dec_nd_l E P d c \/ ref_dec_nd E P d c = Exn XTooFew.
Proof. exact nd_strict_or_same. Qed.
Print Assumptions C03_ntdict_strict_or_same.

Theorem C03_ntdict_unpack_ref_partial : forall (E: senv) (P: prims) (d: pv) (c: String.string),
  ref_dec_nd E P d c <> Exn XTooFew -> uk_nd E P d c = ref_dec_nd E P d c.
Proof. exact nd_unpack_is_ref_strict. Qed.
Print Assumptions C03_ntdict_unpack_ref_partial.

(* results are instances of the very class, every item conforming to its annotation *)
Theorem C03_ntdict_well_typed : forall (E: senv) (P: prims),
  forallb (cls_wf false E) E = true ->
  forall (d: pv) (c: String.string) (r: pv), uk_nd E P d c = Ok r -> conf E r (SNamed c) = true.
Proof.
  intros E P HW d c r H. rewrite nd_unpack_is_ref in H. exact (nd_dec_conforms E P false HW d c r H).
Qed.
Print Assumptions C03_ntdict_well_typed.

(* a missing key is legal exactly for a field with a default; the guard of fix 28df7ca:
   before it the defaults were never applied in this form (KeyError) *)
Theorem C03_ntdict_missing_key : forall (E: senv) (P: prims) (c: String.string) (k: scls) (f: sfield) (kvs: list (pv * pv)),
  sfind E KNamed c = Some k -> look kvs f.(sf_name) = None -> konst_u E f = None ->
  nd_field (fun g (dx: pdec -> res pv) => dx (cu true g.(sf_ty))) (konst_u E) (nd_input_of (fun x => uk E P x) (VDict kvs)) f =
    match f.(sf_default) with Some dv => Ok dv | None => Exn XKeyError end.
Proof.
  intros E P c k f kvs _ Hl Hk. unfold nd_field, nd_has, nd_read. cbn [nd_input_of]. rewrite Hk, look_map, Hl. cbn [option_map].
  destruct (sf_default f); reflexivity.
Qed.
Print Assumptions C03_ntdict_missing_key.

Definition ndE : senv :=
  [ {| sc_kind := KNamed; sc_name := "NT"; sc_fields :=
         [ {| sf_name := "a"; sf_ty := SIntT; sf_default := None; sf_opt := false |};
           {| sf_name := "n"; sf_ty := SNoneT; sf_default := None; sf_opt := false |};
           {| sf_name := "i"; sf_ty := SNamed "In"; sf_default := None; sf_opt := false |};
           {| sf_name := "b"; sf_ty := STupleFix [SIntT; SIntT]; sf_default := Some (VTuple [VInt 0; VInt 0]); sf_opt := false |};
           {| sf_name := "c"; sf_ty := SNoneT; sf_default := Some VNone; sf_opt := false |} ] |};
    {| sc_kind := KNamed; sc_name := "In"; sc_fields :=
         [ {| sf_name := "p"; sf_ty := SIntT; sf_default := None; sf_opt := false |};
           {| sf_name := "q"; sf_ty := SStrT; sf_default := Some (VStr "z"); sf_opt := false |} ] |};
    {| sc_kind := KNamed; sc_name := "K2"; sc_fields :=
         [ {| sf_name := "n"; sf_ty := SNoneT; sf_default := Some VNone; sf_opt := false |};
           {| sf_name := "t"; sf_ty := STupleFix []; sf_default := Some (VTuple []); sf_opt := false |} ] |} ].
Definition ndP : prims := {|
  p_render := fun k w => VStr w; p_parse := fun _ _ => None; p_enum_value := fun _ _ => None; p_enum_of := fun _ _ => None;
  p_b64enc := fun b => b; p_b64dec := fun _ => None;
  p_int := fun v => match v with VStr "5" => Some 5%Z | _ => None end; p_float := fun _ => None; p_str := fun _ => None |}.
(* the behaviours observed on /repo e775114 (BasicDecoder(NT, default_dialect=D), D.serialization_strategy = {NT: as_dict}) *)
Example C03_ntdict_nonvacuous :
  let i := (VStr "i", VList [VInt 2; VStr "x"]) in
  uk_nd ndE ndP (VDict [(VStr "a", VStr "5"); i]) "NT" =
    Ok (VNT "NT" [VInt 5; VNone; VNT "In" [VInt 2; VStr "x"]; VTuple [VInt 0; VInt 0]; VNone]) /\          (* n: constant, b / c: defaults *)
  uk_nd ndE ndP (VDict [i]) "NT" = Exn XKeyError /\                                                          (* 'a' has no default *)
  uk_nd ndE ndP (VList [VStr "a"]) "NT" = Exn XTypeError /\
  uk_nd ndE ndP (VStr "xaix") "NT" = Exn XTypeError /\
  uk_nd ndE ndP (VInt 5) "NT" = Exn XTypeError /\
  uk_nd ndE ndP (VDict [(VStr "a", VInt 1); i; (VStr "c", VInt 7); (VStr "b", VList [VInt 1])]) "NT" = Exn XIndexError /\   (* an item's own error propagates *)
  uk_nd ndE ndP (VDict [(VStr "a", VInt 1); i; (VStr "c", VInt 7); (VStr "zz", VInt 1)]) "NT" =
    Ok (VNT "NT" [VInt 1; VNone; VNT "In" [VInt 2; VStr "x"]; VTuple [VInt 0; VInt 0]; VNone]) /\           (* unknown key ignored *)
  uk_nd ndE ndP (VInt 5) "K2" = Exn XTypeError /\                                                            (* 'n' in 5 *)
  uk_nd ndE ndP (VList [VStr "n"]) "K2" = Ok (VNT "K2" [VNone; VTuple []]) /\                                (* constant: value['n'] not evaluated *)
  uk_nd ndE ndP (VStr "n") "K2" = Ok (VNT "K2" [VNone; VTuple []]).
Proof. cbv zeta. repeat split; vm_compute; reflexivity. Qed.
