(* C13 - a call dialect is layered over the class's own default dialect, and Dialect.merge is that layering:
   `X.to_dict(dialect=D)` on a class whose Config.dialect is B  =  the twin class whose default dialect is
   B.merge(D), called without dialect (kernels K2, K3, K5; hand model merge_strategies). *)
From Coq Require Import List String ZArith Bool.
From Verif Require Import PyK PyK_strat PyK_dictops DialectMerge DialectTwin DialectLayer DialectLayerK5 DialectMergeK.
From VerifGen Require Import K2 K3 K5 K13 K113a.
Import ListNotations.
Open Scope nat_scope.
Open Scope string_scope.

(* ---- options: no `covers` hypothesis, every key of the merge loop ---- *)
Definition C13_layered_twin_full : Prop := layered_twin_full.

Theorem C13_layered_twin_partial :
  forall k a b n dd o dflt,
    k_cfgd k = KNs a -> has_keys merge_loop_keys a -> has_keys merge_loop_keys b ->
    In o merge_loop_keys -> flag_of k o = false ->
    exists r, merge_options (KNs a) (KNs b) (KNs n) = Ok (KNs r) /\
      call_effective k (KNs b) dd o dflt = twin_effective k (KNs r) dd o dflt.
Proof. exact layered_twin_partial. Qed.
Print Assumptions C13_layered_twin_partial.

Theorem C13_layered_twin_full_refuted : ~ C13_layered_twin_full.
Proof. exact layered_twin_full_refuted. Qed.
Print Assumptions C13_layered_twin_full_refuted.

(* ---- strategies: first hit over (D, B, lower sources) = first hit over (B.merge(D), lower sources) ---- *)
Definition C13_layered_strategy_full : Prop := layered_strategy_full.

Theorem C13_layered_strategy_partial :
  forall c o k dir rest,
    well_formed c o k -> layer_ok (sm_get c k) (sm_get o k) dir = true ->
    first_hit (layered_sources c o k rest) dir = first_hit (merged_sources c o k rest) dir.
Proof. exact layered_strategy_partial. Qed.
Print Assumptions C13_layered_strategy_partial.

Theorem C13_layered_strategy_full_refuted : ~ C13_layered_strategy_full.
Proof. exact layered_strategy_full_refuted. Qed.
Print Assumptions C13_layered_strategy_full_refuted.

Theorem C13_layered_call_dialect_wins :
  forall c o k dir rest,
    well_formed c o k -> effective (sm_get o k) dir <> ENone ->
    first_hit (layered_sources c o k rest) dir = effective (sm_get o k) dir /\
    first_hit (merged_sources c o k rest) dir = effective (sm_get o k) dir.
Proof. exact layered_call_dialect_wins. Qed.
Print Assumptions C13_layered_call_dialect_wins.

(* ---- the source order is the one the translated generator yields (K5) ---- *)
Theorem C13_layered_sources_are_code :
  forall d b cfg dd ft dmap bmap cmap ddmap,
    ns_get d "serialization_strategy" = Some (KDict dmap) ->
    ns_get cfg "dialect" = Some (KNs b) ->
    ns_get b "serialization_strategy" = Some (KDict bmap) ->
    ns_get cfg "serialization_strategy" = Some (KDict cmap) ->
    ns_get dd "serialization_strategy" = Some (KDict ddmap) ->
    let g := iter_serialization_strategies_inner (KNs d) (KNs cfg) (KNs dd) ft in
    gen_items g = [dget dmap ft; dget bmap ft; dget cmap ft; dget ddmap ft] /\ gen_tail g = None.
Proof. exact layered_sources_are_code. Qed.
Print Assumptions C13_layered_sources_are_code.

Theorem C13_merged_sources_are_code :
  forall m cfg dd ft mmap cmap ddmap,
    ns_get m "serialization_strategy" = Some (KDict mmap) ->
    ns_get cfg "serialization_strategy" = Some (KDict cmap) ->
    ns_get dd "serialization_strategy" = Some (KDict ddmap) ->
    let g := iter_serialization_strategies_inner KNone (KNs (ns_set cfg "dialect" (KNs m))) (KNs dd) ft in
    gen_items g = [dget mmap ft; dget cmap ft; dget ddmap ft] /\ gen_tail g = None.
Proof. exact merged_sources_are_code. Qed.
Print Assumptions C13_merged_sources_are_code.

(* ---- first_hit IS the translated consumer loop of pack.py / unpack.py (K5) ---- *)
Theorem C13_first_hit_is_code :
  forall dl cfg dd md ann ty orig ct typ srcs K,
    get_overridden_serialization_method_for_strategy dl cfg dd md ann ty orig ct typ K (gen_of (map emb srcs)) KNone =
      match first_hit srcs "serialize" with ENone => K KNone | e => Ok (eff_ser e) end /\
    get_overridden_deserialization_method_for_strategy dl cfg dd md ann ty orig ct typ K (gen_of (map emb srcs)) KNone =
      match first_hit srcs "deserialize" with ENone => K KNone | e => Ok (eff_de e) end.
Proof. intros. split; [apply first_hit_is_pack_code | apply first_hit_is_unpack_code]. Qed.
Print Assumptions C13_first_hit_is_code.

(* ---- end to end over translated generator + translated consumer: `dialect=D` on a class whose Config.dialect is B
        cannot be told from the twin whose Config.dialect is B.merge(D) (strategy map = merge_strategies) ---- *)
Theorem C13_layered_code_end_to_end :
  forall (d b m cfg dd: list (string * kv)) (c o cm dm: smap) (k: nat),
    ns_get d "serialization_strategy" = Some (KDict (emb_map o)) ->
    ns_get b "serialization_strategy" = Some (KDict (emb_map c)) ->
    ns_get m "serialization_strategy" = Some (KDict (emb_map (merge_strategies c o))) ->
    ns_get cfg "dialect" = Some (KNs b) ->
    ns_get cfg "serialization_strategy" = Some (KDict (emb_map cm)) ->
    ns_get dd "serialization_strategy" = Some (KDict (emb_map dm)) ->
    forall md ann ty orig ct typ K, well_formed c o k ->
    let twin_cfg := ns_set cfg "dialect" (KNs m) in
    (layer_ok (sm_get c k) (sm_get o k) "serialize" = true ->
     get_overridden_serialization_method_for_strategy (KNs d) (KNs cfg) (KNs dd) md ann ty orig ct typ K
       (iter_serialization_strategies_inner (KNs d) (KNs cfg) (KNs dd) (tkey k)) KNone =
     get_overridden_serialization_method_for_strategy KNone (KNs twin_cfg) (KNs dd) md ann ty orig ct typ K
       (iter_serialization_strategies_inner KNone (KNs twin_cfg) (KNs dd) (tkey k)) KNone) /\
    (layer_ok (sm_get c k) (sm_get o k) "deserialize" = true ->
     get_overridden_deserialization_method_for_strategy (KNs d) (KNs cfg) (KNs dd) md ann ty orig ct typ K
       (iter_serialization_strategies_inner (KNs d) (KNs cfg) (KNs dd) (tkey k)) KNone =
     get_overridden_deserialization_method_for_strategy KNone (KNs twin_cfg) (KNs dd) md ann ty orig ct typ K
       (iter_serialization_strategies_inner KNone (KNs twin_cfg) (KNs dd) (tkey k)) KNone).
Proof.
  intros d b m cfg dd c o cm dm k Hd Hb Hm Hcd Hcs Hdd md ann ty orig ct typ K W. cbn zeta. split; intros OK.
  - exact (layered_pack_end_to_end d b m cfg dd c o cm dm k Hd Hb Hm Hcd Hcs Hdd md ann ty orig ct typ K W OK).
  - exact (layered_unpack_end_to_end d b m cfg dd c o cm dm k Hd Hb Hm Hcd Hcs Hdd md ann ty orig ct typ K W OK).
Qed.
Print Assumptions C13_layered_code_end_to_end.

(* ---- the hand model merge_strategies IS the translated strategy part of Dialect.merge (K113a), for all maps ---- *)
Theorem C13_merge_strategies_is_code :
  forall c o, merge_strategy_maps (KDict (emb_map c)) (KDict (emb_map o)) = Ok (KDict (emb_map (merge_strategies c o))).
Proof. exact merge_strategies_is_code. Qed.
Print Assumptions C13_merge_strategies_is_code.

(* ---- ... so the end-to-end statement needs no hand model at all: the twin's dialect carries whatever the
        translated Dialect.merge loops compute from B's and D's maps ---- *)
Theorem C13_layered_code_end_to_end_K :
  forall (d b m cfg dd: list (string * kv)) (c o cm dm: smap) (k: nat),
    ns_get d "serialization_strategy" = Some (KDict (emb_map o)) ->
    ns_get b "serialization_strategy" = Some (KDict (emb_map c)) ->
    (forall mm, merge_strategy_maps (KDict (emb_map c)) (KDict (emb_map o)) = Ok mm ->
                ns_get m "serialization_strategy" = Some mm) ->
    ns_get cfg "dialect" = Some (KNs b) ->
    ns_get cfg "serialization_strategy" = Some (KDict (emb_map cm)) ->
    ns_get dd "serialization_strategy" = Some (KDict (emb_map dm)) ->
    forall md ann ty orig ct typ K, well_formed c o k ->
    let twin_cfg := ns_set cfg "dialect" (KNs m) in
    (layer_ok (sm_get c k) (sm_get o k) "serialize" = true ->
     get_overridden_serialization_method_for_strategy (KNs d) (KNs cfg) (KNs dd) md ann ty orig ct typ K
       (iter_serialization_strategies_inner (KNs d) (KNs cfg) (KNs dd) (tkey k)) KNone =
     get_overridden_serialization_method_for_strategy KNone (KNs twin_cfg) (KNs dd) md ann ty orig ct typ K
       (iter_serialization_strategies_inner KNone (KNs twin_cfg) (KNs dd) (tkey k)) KNone) /\
    (layer_ok (sm_get c k) (sm_get o k) "deserialize" = true ->
     get_overridden_deserialization_method_for_strategy (KNs d) (KNs cfg) (KNs dd) md ann ty orig ct typ K
       (iter_serialization_strategies_inner (KNs d) (KNs cfg) (KNs dd) (tkey k)) KNone =
     get_overridden_deserialization_method_for_strategy KNone (KNs twin_cfg) (KNs dd) md ann ty orig ct typ K
       (iter_serialization_strategies_inner KNone (KNs twin_cfg) (KNs dd) (tkey k)) KNone).
Proof.
  intros d b m cfg dd c o cm dm k Hd Hb Hm. apply (C13_layered_code_end_to_end d b m cfg dd c o cm dm k Hd Hb).
  apply Hm. apply merge_strategies_is_code.
Qed.
Print Assumptions C13_layered_code_end_to_end_K.

(* the translated loops on a concrete pair: D's dict is merged into B's dict per direction, D's dict replaces B's object *)
Example C13_merge_code_nonvacuous :
  merge_strategy_maps (KDict (emb_map [(1, SDict [("deserialize", 4)]); (2, SStrat 7)]))
                      (KDict (emb_map [(2, SDict [("serialize", 5)]); (1, SDict [("serialize", 3)])])) =
  Ok (KDict (emb_map [(1, SDict [("deserialize", 4); ("serialize", 3)]); (2, SDict [("serialize", 5)])])).
Proof. vm_compute. reflexivity. Qed.

(* where merge is not the layering the translated loop itself tells the two apart *)
Example C13_layered_differs_in_code :
  let c := [(1, SStrat 7)] in let o := [(1, SDict [("serialize", 3)])] in
  get_overridden_deserialization_method_for_strategy KNone KNone KNone KNone KNone KNone KNone KNone KNone (fun v => Ok v)
    (gen_of (map emb (layered_sources c o 1 []))) KNone = Ok (de_of 7) /\
  get_overridden_deserialization_method_for_strategy KNone KNone KNone KNone KNone KNone KNone KNone KNone (fun v => Ok v)
    (gen_of (map emb (merged_sources c o 1 []))) KNone = Ok KNone.
Proof. exact layered_differs_in_code. Qed.

(* the hypotheses of the end-to-end theorem are satisfiable, and the loops really return a callable of the lower source *)
Example C13_layered_code_nonvacuous :
  let o := [(1, SDict [("serialize", 3)])] in let c := [(1, SDict [("deserialize", 4)])] in
  let d := [("serialization_strategy", KDict (emb_map o))] in
  let b := [("serialization_strategy", KDict (emb_map c))] in
  let cfg := [("dialect", KNs b); ("serialization_strategy", KDict (emb_map []))] in
  let dd := [("serialization_strategy", KDict (emb_map []))] in
  get_overridden_deserialization_method_for_strategy (KNs d) (KNs cfg) (KNs dd) KNone KNone KNone KNone KNone KNone (fun v => Ok v)
    (iter_serialization_strategies_inner (KNs d) (KNs cfg) (KNs dd) (tkey 1)) KNone = Ok (fun_of 4) /\
  get_overridden_serialization_method_for_strategy (KNs d) (KNs cfg) (KNs dd) KNone KNone KNone KNone KNone KNone (fun v => Ok v)
    (iter_serialization_strategies_inner (KNs d) (KNs cfg) (KNs dd) (tkey 1)) KNone = Ok (fun_of 3).
Proof. split; vm_compute; reflexivity. Qed.

(* ---- non-vacuity ---- *)
(* B says omit_none=True and nothing about aliases, D says serialize_by_alias=True and nothing about None:
   D does not cover B, both options are in force, exactly as in the twin whose default dialect is B.merge(D) *)
Example C13_layered_nonvacuous :
  let B := ns_set blank_dialect "omit_none" (KBool true) in
  let D := ns_set blank_dialect "serialize_by_alias" (KBool true) in
  let k := mk_klass (KNs []) (KNs B) false false in
  ~ covers (KNs D) (k_cfgd k) "omit_none" /\
  call_effective k (KNs D) KNone "omit_none" (KBool false) = Ok (KBool true) /\
  call_effective k (KNs D) KNone "serialize_by_alias" (KBool false) = Ok (KBool true) /\
  exists r, merge_options (KNs B) (KNs D) (KNs []) = Ok (KNs r) /\
    twin_effective k (KNs r) KNone "omit_none" (KBool false) = Ok (KBool true) /\
    twin_effective k (KNs r) KNone "serialize_by_alias" (KBool false) = Ok (KBool true) /\
    twin_effective k (KNs D) KNone "omit_none" (KBool false) = Ok (KBool false).
Proof.
  cbn zeta. split; [|split; [|split]].
  - unfold covers. vm_compute. intros H. specialize (H eq_refl). discriminate.
  - vm_compute. reflexivity.
  - vm_compute. reflexivity.
  - eexists. split; [vm_compute; reflexivity|]. repeat split; vm_compute; reflexivity.
Qed.

(* B holds a strategy object for type 1, D a one-directional dict for type 2 and a dict for type 1 that has the
   direction asked for; the class's Config holds a dict for type 2 *)
Example C13_layered_strategy_nonvacuous :
  let B := [(1, SStrat 7)] in
  let D := [(2, SDict [("serialize", 3)]); (1, SDict [("deserialize", 4)])] in
  let cfg2 := Some (SDict [("deserialize", 9)]) in
  well_formed B D 1 /\ well_formed B D 2 /\
  layer_ok (sm_get B 1) (sm_get D 1) "deserialize" = true /\
  first_hit (layered_sources B D 1 []) "deserialize" = EFun 4 /\
  first_hit (merged_sources B D 1 []) "deserialize" = EFun 4 /\
  first_hit (layered_sources B D 2 [cfg2]) "deserialize" = EFun 9 /\
  first_hit (merged_sources B D 2 [cfg2]) "deserialize" = EFun 9 /\
  layer_ok (sm_get B 1) (sm_get D 1) "serialize" = false.
Proof.
  cbn zeta.
  assert (W: forall k, k = 1 \/ k = 2 ->
             well_formed [(1, SStrat 7)] [(2, SDict [("serialize", 3)]); (1, SDict [("deserialize", 4)])] k).
  { intros k Hk. split; [|split].
    - repeat constructor; cbn; tauto.
    - repeat constructor; cbn; intuition discriminate.
    - intros e H. destruct Hk; subst k; vm_compute in H; injection H as <-; repeat constructor; cbn; tauto. }
  split; [apply W; left; reflexivity|]. split; [apply W; right; reflexivity|]. repeat split; vm_compute; reflexivity.
Qed.
