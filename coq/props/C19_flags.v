(* C19, context forwarding tied to the source: the keyword list of the nested call  value.__mashumaro_to_dict__(<...>)
   is what CodeBuilder.get_pack_method_flags renders (kernel K8, translated from builder.py on every run; C08's
   K8_forward_lemma), and it is the pair (context keyword passed?, other keywords passed) that the model Hooks.pack
   hands to call_mixin at a dataclass position.  Proofs: theories/HookFlags.v. *)
From Coq Require Import List String Ascii ZArith Bool.
From Verif Require Import Regex PyK PyK_c08 OptProj K8Proofs Hooks HookFlags.
From VerifGen Require Import K8.
Import ListNotations.

(* a class with options (pc, px) packing a position declared with a class with options (sc, sx): the translated
   get_pack_method_flags names exactly the keywords enabled on BOTH - context included *)
Theorem C19_K8_call_keywords :
  forall pc px sc sx,
    get_pack_method_flags (enc_flags (hflags pc px)) (enc_flags (hflags sc sx))
    = Ok (KStr (String.concat ", " (flag_args (hflags (pc && sc) (xf_and px sx))))).
Proof. exact k8_call_keywords. Qed.
Print Assumptions C19_K8_call_keywords.

Theorem C19_K8_context_forwarded :
  forall pc px sc sx,
    In "context=context"%string (flag_args (hflags (pc && sc) (xf_and px sx))) <-> pc = true /\ sc = true.
Proof. exact k8_context_forwarded. Qed.
Print Assumptions C19_K8_context_forwarded.

(* the model passes exactly that pair *)
Theorem C19_K8_model_keywords :
  forall E stubs cr i j fs c pc px k,
    pack E stubs Mixin (VInst cr i j fs) (TDc c) pc px k
    = call_mixin E stubs (pc && c_ctx (cls E c)) (xf_and px (c_xf (cls E c))) k cr i j
                 (map (fun kx => match kx with (n, x) => (n, pack E stubs Mixin x) end) fs).
Proof. exact pack_dc_keywords. Qed.
Print Assumptions C19_K8_model_keywords.

(* non-vacuity: holder with context + omit_none, declared class with context + dialect: only context is passed *)
Example C19_K8_nonvacuous :
  get_pack_method_flags (enc_flags (hflags true (true, false, false))) (enc_flags (hflags true (false, false, true)))
  = Ok (KStr "context=context") /\
  get_pack_method_flags (enc_flags (hflags true (true, false, true))) (enc_flags (hflags false (true, false, true)))
  = Ok (KStr "omit_none=omit_none, dialect=dialect").
Proof. split; vm_compute; reflexivity. Qed.
