(* C01 / kernel K45c: round trip at positions annotated by a type variable (unconstrained: Any; bound / default B:
   Optional[B]; see C02_typevar.v / C03_typevar.v for the tie of [tv_sty] to the code). *)
From Coq Require Import List String ZArith Bool.
From Verif Require Import Core TupleIdx TyModel TyTuple TyProofs TyStrict TyRoundtrip StpCode TyTypeVar.
Import ListNotations.

Theorem C01_typevar_roundtrip_total : forall (E: senv) (P: prims),
  forallb cls_ok E = true ->
  forall (k: tvar) (v: pv),
    conf_ord E v (tv_sty k) = true -> lossless (tv_inner k) = true -> vals_ok P v = true ->
    exists w, pk E P v (cp true (tv_sty k)) = Ok w /\ uk E P w (cu true (tv_sty k)) = Ok v.
Proof.
  intros E P HE k v HC HL HV.
  assert (HL': lossless (tv_sty k) = true) by (destruct k; [reflexivity | exact HL]).
  destruct (ref_enc_total true E P v (tv_sty k) HC HV) as [w Hw].
  exists w. rewrite (encode_is_ref true E P v (tv_sty k) HC). split; [exact Hw|].
  pose proof (ref_roundtrip E P HE v (tv_sty k) w HC HL' HV Hw) as Hrt.
  rewrite (decode_is_ref_strict E P w (tv_sty k)); [exact Hrt | rewrite Hrt; discriminate].
Qed.
Print Assumptions C01_typevar_roundtrip_total.
