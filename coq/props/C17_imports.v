(* C17: which names the builder registers for an annotation (kernel K46: add_type_modules, ensure_module_imported,
   ensure_object_imported translated from the source) and that the root of every chain type_name renders for a class of a
   visited module is among them and resolves in the namespace assembled by setdefault. *)
From Coq Require Import List Bool String.
From VerifGen Require Import K46.
From Verif Require Import Render NsBind K46Proofs.
Import ListNotations.
Open Scope string_scope.

(* full strength: the module and the top-level package of every node of an annotation are registered *)
Definition C17_imports_cover_full : Prop :=
  forall t n m, In n (nodes t) -> node_module n = Some m -> In (OSet (package m) true) (add_type_modules t).

(* holds when every node of the annotation has a module (inspect.getmodule finds one) *)
Theorem C17_imports_cover_partial : forall t n m,
  all_loaded t = true -> In n (nodes t) -> node_module n = Some m ->
  In (OSet m true) (add_type_modules t) /\ In (OSet (package m) true) (add_type_modules t).
Proof. exact imports_cover. Qed.
Print Assumptions C17_imports_cover_partial.

(* without it: nothing below a node without module is registered (`continue`): known finding class-module-not-importable *)
Theorem C17_imports_cover_refuted : ~ C17_imports_cover_full.
Proof. exact imports_cover_refuted. Qed.
Print Assumptions C17_imports_cover_refuted.

(* what is visited is registered, whatever else is missing *)
Theorem C17_visited_imports : forall t n m,
  In n (visited t) -> node_module n = Some m ->
  In (OSet m true) (add_type_modules t) /\ In (OSet (package m) true) (add_type_modules t).
Proof. exact visited_imports. Qed.
Print Assumptions C17_visited_imports.

(* the root of the chain rendered for a class of module m is the package registered for m *)
Theorem C17_chain_root_is_package : forall nn m q, hd "" (split_dots (render nn (RNamed m q)) "") = package m.
Proof. exact chain_root_is_package. Qed.
Print Assumptions C17_chain_root_is_package.

(* end to end: that root resolves in the namespace built by setdefault from add_type_modules of the annotation,
   whatever the namespace held before (it may denote an earlier object: C17_prepopulated_refuted) *)
Theorem C17_chain_root_resolves : forall t n m nn q m0,
  all_loaded t = true -> In n (nodes t) -> node_module n = Some m ->
  lookup op (hd "" (split_dots (render nn (RNamed m q)) "")) (ns_setdefault op op_name (add_type_modules t) m0) <> None.
Proof. exact chain_root_resolves. Qed.
Print Assumptions C17_chain_root_resolves.

(* non-vacuity: Dict[str, Optional[pkg.mod.E]] and MappingProxyType[str, Literal[pkg.mod.E.A, 1]] *)
Definition ex_dict : mty :=
  MNode false (Some "typing") false []
    [MNode false (Some "builtins") false [] [] [] [];
     MNode false (Some "typing") false [] [MNode false (Some "pkg.mod") false [] [] [] []; MNode false (Some "builtins") false [] [] [] []] [] []] [] [].
Example C17_imports_example :
  all_loaded ex_dict = true /\
  add_type_modules ex_dict =
    [OSet "typing" true; OSet "typing" true; OSet "builtins" true; OSet "builtins" true; OSet "typing" true; OSet "typing" true;
     OSet "pkg.mod" true; OSet "pkg" true; OSet "builtins" true; OSet "builtins" true] /\
  lookup op "pkg" (ns_setdefault op op_name (add_type_modules ex_dict) []) = Some (OSet "pkg" true) /\
  add_type_modules (MNode true (Some "builtins") false [] [MNode false (Some "typing") true [MNode false (Some "pkg.mod") false [] [] [] []; MNode false None false [] [] [] []] [] [] []] [] [])
    = [OSet "mappingproxy" false; OSet "builtins" true; OSet "builtins" true; OSet "typing" true; OSet "typing" true; OSet "pkg.mod" true; OSet "pkg" true].
Proof. vm_compute. repeat split. Qed.
