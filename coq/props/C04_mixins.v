(* C04 ("through mixin methods and through Encoder/Decoder objects alike"), mixin side: from_<format> / to_<format>
   as programs read from /repo on this run - K104c (where the generated unpack method applies the decoder), K104b (the
   return statement of the generated pack method), K104a (builder params; exact bodies of the plain json / yaml
   methods) - are Fmt.decode / Fmt.encode under  F's dialect (+) the call-time dialect, and therefore the same
   functions as the Decoder / Encoder objects built with default_dialect = that dialect. *)
From Coq Require Import List String ZArith Bool.
From Verif Require Import Fmt FmtProofs FmtDialectSource FmtEntries CodecWrap FmtEntriesProofs EncKwargs MixinWrap.
From VerifGen Require Import K40 K104a K104b K104c.
Import ListNotations.
Open Scope string_scope.

Theorem C04_mixin_from_is_model_decode :
  forall (parse_leaf: lkind -> string -> option string) (uparse: nat -> lkind -> string -> option string)
         (E: env) (EN: enums) (doc: Type) (ser: fmt -> bv -> doc) (parse: fmt -> doc -> option bv) F m dg X t d,
    mixin_from parse_leaf uparse E EN doc ser parse F m dg X t (UDoc doc d)
    = res_opt doc (UObj doc) (decode parse_leaf uparse E EN doc parse (eff_lsem F (call_dialect dg X)) F t d).
Proof. exact mixin_from_is_decode. Qed.
Print Assumptions C04_mixin_from_is_model_decode.

Theorem C04_mixin_to_is_model_encode :
  forall (render: lkind -> string -> string) (urender: nat -> lkind -> string -> string)
         (E: env) (EN: enums) (doc: Type) (ser: fmt -> bv -> doc) (parse: fmt -> doc -> option bv) F m dg X t v,
    mixin_to render urender E EN doc ser parse F m dg X t (UObj doc v)
    = res_opt doc (UDoc doc) (encode render urender E EN doc ser (eff_lsem F (call_dialect dg X)) F t v).
Proof. exact mixin_to_is_encode. Qed.
Print Assumptions C04_mixin_to_is_model_encode.

(* from_<F>(d, dialect=X) = <F>Decoder(t, default_dialect=X).decode(d), to_<F>(dialect=X) = <F>Encoder(..).encode(v) *)
Theorem C04_mixin_methods_and_codec_objects_alike :
  forall (render: lkind -> string -> string) (parse_leaf: lkind -> string -> option string)
         (urender: nat -> lkind -> string -> string) (uparse: nat -> lkind -> string -> option string)
         (E: env) (EN: enums) (doc: Type) (ser: fmt -> bv -> doc) (parse: fmt -> doc -> option bv)
         F c m X t bmd bme Md Me,
    assoc_fmt F source_codecs = Some c ->
    (bmd = true -> forall x, unpack_expr parse_leaf uparse E EN doc (rule_lsem F (c_dec_rule c) X) t x = Md x) ->
    (bme = true -> forall x, pack_expr render urender E EN doc (rule_lsem F (c_enc_rule c) X) t x = Me x) ->
    (forall d, decoder_obj parse_leaf uparse E EN doc ser parse F c X t bmd Md (UDoc doc d)
               = mixin_from parse_leaf uparse E EN doc ser parse F m true X t (UDoc doc d)) /\
    (forall v, encoder_obj render urender E EN doc ser parse F c X t bme Me (UObj doc v)
               = mixin_to render urender E EN doc ser parse F m true X t (UObj doc v)).
Proof. exact mixin_and_codec_alike. Qed.
Print Assumptions C04_mixin_methods_and_codec_objects_alike.

(* non-vacuity: the programs of the msgpack (generated) and json (plain) mixins, with and without `dialect=` *)
Example C04_mixins_nonvacuous :
  exists mm mj mo,
    assoc_fmt FMsgpack source_mixins = Some mm /\ assoc_fmt FJson source_mixins = Some mj /\
    assoc_fmt FOrjson source_mixins = Some mo /\
    mixin_from_prog mm false = [IDef; IPre; IReturnExpr; IInstallDef] /\
    mixin_from_prog mm true = [IDef; IPre; IReturnExpr; IInstallDef] /\
    mixin_to_prog mm true = [IDef; IReturnPost; IInstallDef] /\
    mixin_to_prog mo false = [IDef; IReturnPost; IInstallDef] /\
    mixin_from_prog mj true = [IDef; IPre; IReturnExpr; IInstallDef] /\
    install (mixin_to_prog mj false) None NotInstalled = Def [IReturnPost].
Proof.
  eexists. eexists. eexists.
  split; [vm_compute; reflexivity|]. split; [vm_compute; reflexivity|]. split; [vm_compute; reflexivity|].
  repeat split; vm_compute; reflexivity.
Qed.
