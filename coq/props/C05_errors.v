(* C05: failures surface only as the documented exceptions and name the culprit.
   Model: Verif.Errs (field loop, union chain, discriminator dispatch; parametric in every decoder).
   Naming: X_full = the property at full strength as a Prop; X_partial = proved on the stated domain;
   X_refuted = the faithful model violates X_full (witness = a known finding reproduced on /repo). *)
From Coq Require Import List String ZArith Bool.
From Verif Require Import Core Errs ErrsProofs.
Import ListNotations.
Open Scope string_scope.
Open Scope list_scope.

(* ---------------------------------------------------------------- outcome set *)
(* holds for every class, field-less ones included (since fix abe4c99 they go through the same frame) *)
Theorem C05_outcomes : forall c d, plain c -> documented c d (from_dict c d).
Proof. exact outcomes. Qed.
Print Assumptions C05_outcomes.

Theorem C05_value_error_iff : forall c d, plain c ->
  (from_dict c d = Exn XValueError <-> is_dict d = false).
Proof. exact value_error_iff. Qed.
Print Assumptions C05_value_error_iff.

(* user hooks: whatever else escapes was raised by the user's own hook / __post_init__ *)
Theorem C05_hooks : forall c d0,
  let c0 := {| cs_name := cs_name c; cs_fields := cs_fields c; cs_forbid_extra := cs_forbid_extra c;
               cs_discr_keys := cs_discr_keys c; cs_pre := None; cs_post := None |} in
  match cs_pre c with
  | Some h => match h d0 with
              | Exn e => from_dict c d0 = Exn e
              | Ok d => match from_dict c0 d with
                        | Exn e => from_dict c d0 = Exn e
                        | Ok obj => from_dict c d0 = match cs_post c with Some p => p obj | None => Ok obj end
                        end
              end
  | None => match from_dict c0 d0 with
            | Exn e => from_dict c d0 = Exn e
            | Ok obj => from_dict c d0 = match cs_post c with Some p => p obj | None => Ok obj end
            end
  end.
Proof. exact outcomes_hooks. Qed.
Print Assumptions C05_hooks.

(* ---------------------------------------------------------------- first bad field decides *)
Theorem C05_first_bad : forall c kvs pre f post b,
  plain c -> cs_fields c = pre ++ f :: post ->
  (cs_forbid_extra c = true -> extra_keys c kvs = []) ->
  Forall (fun g => field_bad kvs g = None) pre -> field_bad kvs f = Some b ->
  from_dict c (VDict kvs) = Exn (exn_of_bad (cs_name c) f b).
Proof. exact first_bad_decides. Qed.
Print Assumptions C05_first_bad.

Theorem C05_all_good_ok : forall c kvs, plain c ->
  (cs_forbid_extra c = true -> extra_keys c kvs = []) ->
  Forall (fun g => field_bad kvs g = None) (cs_fields c) ->
  from_dict c (VDict kvs) = Ok (good_instance c kvs).
Proof. exact all_good_ok. Qed.
Print Assumptions C05_all_good_ok.

(* ---------------------------------------------------------------- extra keys *)
Theorem C05_extra_exact : forall c kvs, plain c ->
  cs_forbid_extra c = true -> extra_keys c kvs <> [] ->
  from_dict c (VDict kvs) = Exn (XExtraKeys (extra_keys c kvs) (cs_name c)) /\
  forall k, In k (extra_keys c kvs) <-> In k (map fst kvs) /\ key_allowed c k = false.
Proof. intros c kvs Hp Hf He. split; [exact (extra_exact c kvs Hp Hf He)|apply extra_keys_spec]. Qed.
Print Assumptions C05_extra_exact.

(* ---------------------------------------------------------------- never a silent None / default *)
(* "_partial": at this level the decoders are opaque; a decoder that itself maps garbage to None
   (union with a None member, see C05_union_rejects_garbage_refuted) is outside this statement *)
Theorem C05_no_silent_default_partial : forall c d r, plain c ->
  from_dict c d = Ok r ->
  exists kvs, d = VDict kvs /\ r = good_instance c kvs /\
    forall f, In f (cs_fields c) ->
      field_bad kvs f = None /\
      forall v, lookup_field kvs f = Some v ->
        good_value kvs f =
          (if fs_ident f then v
           else if fs_nullable f && is_none v then VNone
           else match fs_dec f v with Ok x => x | Exn _ => VNone end) /\
        (fs_ident f = false -> (fs_nullable f && is_none v) = false -> exists x, fs_dec f v = Ok x).
Proof. exact no_silent_default. Qed.
Print Assumptions C05_no_silent_default_partial.

(* ---------------------------------------------------------------- unions *)
Theorem C05_union_outcomes : forall ms final v, Forall (fun m => member_tame m v = true) ms ->
  (exists x, union_run ms final v = Ok x /\ from_member ms v x) \/ union_run ms final v = Exn final.
Proof. exact union_outcomes. Qed.
Print Assumptions C05_union_outcomes.

(* without any hypothesis on the members: besides [final] only a non-Exception BaseException
   raised by a member escapes (`except Exception: pass`) *)
Theorem C05_union_exceptions : forall ms final v e, union_run ms final v = Exn e ->
  e = final \/ is_exception e = false.
Proof. exact union_exceptions. Qed.
Print Assumptions C05_union_exceptions.

Definition C05_union_rejects_garbage_full : Prop := forall ms final v,
  Forall (fun m => member_accepts m v = false) ms ->
  Forall (fun m => member_tame m v = true) ms ->
  union_run ms final v = Exn final.

Theorem C05_union_rejects_garbage_partial : forall ms final v,
  Forall (fun m => is_none_member m = false) ms ->
  Forall (fun m => member_accepts m v = false) ms ->
  Forall (fun m => member_tame m v = true) ms ->
  union_run ms final v = Exn final.
Proof. exact union_rejects_garbage. Qed.
Print Assumptions C05_union_rejects_garbage_partial.

(* Union[int, None, date] <- "garbage": int("garbage") and date.fromisoformat("garbage") raise
   ValueError, the `None` fallback returns None (known finding union-none-fallback) *)
Definition u_int_none_date : list umember :=
  [UExact SInt (fun _ => Exn XValueError); none_member; UTry (fun _ => Exn XValueError)].

Theorem C05_union_rejects_garbage_refuted : ~ C05_union_rejects_garbage_full.
Proof.
  intro H. specialize (H u_int_none_date XValueError (VStr "garbage")).
  assert (A: Forall (fun m => member_accepts m (VStr "garbage") = false) u_int_none_date)
    by (repeat constructor).
  assert (T: Forall (fun m => member_tame m (VStr "garbage") = true) u_int_none_date)
    by (repeat constructor).
  specialize (H A T). discriminate H.
Qed.
Print Assumptions C05_union_rejects_garbage_refuted.

Example C05_union_none_witness :
  union_run u_int_none_date XValueError (VStr "garbage") = Ok VNone.
Proof. reflexivity. Qed.

(* ---------------------------------------------------------------- discriminators *)
Definition discr_documented (field: string) (reg: list (pv * (pv -> res pv))) (v: pv) (r: res pv) : Prop :=
  r = Exn XValueError /\ is_dict v = false \/
  r = Exn (XMissingDiscriminator field) \/
  r = Exn XNoVariant \/
  exists tag dec, reg_lookup reg tag = Some dec /\ r = dec v.

(* holds for every input since the dispatcher answers a non-mapping with ValueError and an unhashable tag with
   SuitableVariantNotFoundError (fixes C05-discriminator-nonmapping / C05-discriminator-unhashable-tag) *)
Theorem C05_discr : forall field reg v, discr_documented field reg v (discr_run field reg v).
Proof.
  intros field reg v. destruct v;
    try (left; split; reflexivity).
  unfold discr_run. cbn [py_getitem_str].
  destruct (d_lookup kvs (VStr field)) as [tag|] eqn:El; [|right; left; reflexivity].
  destruct (hashable tag) eqn:Eh; cbn [negb]; [|right; right; left; reflexivity].
  destruct (discr_outcomes field reg kvs) as [H|[H|[tag' [dec [Hl [Hr H]]]]]].
  - intros t Ht. rewrite El in Ht. inversion Ht; subst. exact Eh.
  - unfold discr_run in H. cbn [py_getitem_str] in H. rewrite El, Eh in H. cbn [negb] in H. right; left; exact H.
  - unfold discr_run in H. cbn [py_getitem_str] in H. rewrite El, Eh in H. cbn [negb] in H. right; right; left; exact H.
  - unfold discr_run in H. cbn [py_getitem_str] in H. rewrite El, Eh in H. cbn [negb] in H.
    right; right; right. exists tag', dec. auto.
Qed.
Print Assumptions C05_discr.

Example C05_discr_ex_nonmapping : discr_run "type" [] (VList [VInt 1]) = Exn XValueError.
Proof. reflexivity. Qed.
Example C05_discr_ex_unhashable : discr_run "type" [] (VDict [(VStr "type", VList [VInt 1])]) = Exn XNoVariant.
Proof. reflexivity. Qed.

Theorem C05_discr_nofield : forall variants v,
  Forall (fun dec => match dec v with Exn e => is_exception e = true | Ok _ => True end) variants ->
  discr_nofield variants v = Exn XNoVariant \/
  exists dec x, In dec variants /\ dec v = Ok x /\ discr_nofield variants v = Ok x.
Proof. exact discr_nofield_outcomes. Qed.
Print Assumptions C05_discr_nofield.

(* ---------------------------------------------------------------- discriminator registry (lazy fill) *)
(* one call in ANY registry state reachable from the empty one: outcome = history-free spec *)
Theorem C05_discr_call_history_free : forall field vs reg v, reg_inv vs reg ->
  fst (discr_call field vs reg v) = discr_spec field vs v /\ reg_inv vs (snd (discr_call field vs reg v)).
Proof. exact discr_call_spec. Qed.
Print Assumptions C05_discr_call_history_free.

(* every call history on a fresh hierarchy: the n-th outcome is the history-free one *)
Theorem C05_discr_history : forall field vs inputs,
  discr_history field vs [] inputs = map (discr_spec field vs) inputs.
Proof. intros field vs inputs. apply discr_history_spec. apply reg_inv_nil. Qed.
Print Assumptions C05_discr_history.

(* the chosen variant's own outcome -- an instance, MissingField, InvalidFieldValue, ExtraKeysError, and since
   fix 2eac3a7 also a KeyError / AttributeError raised by the variant itself -- propagates unchanged on the first
   call for a tag (register-and-look-up-again path) and on every later call: only the LOOKUP is guarded *)
Theorem C05_discr_variant_outcome_propagates : forall field vs reg kvs s dec,
  reg_inv vs reg ->
  d_lookup kvs (VStr field) = Some (VStr s) -> owner vs s = Some dec ->
  fst (discr_call field vs reg (VDict kvs)) = dec (VDict kvs).
Proof. exact discr_variant_outcome_propagates. Qed.
Print Assumptions C05_discr_variant_outcome_propagates.

(* Event(kind) / Click(x, y required): first call lacks y -> MissingField('y', Click), not SuitableVariantNotFound *)
Definition click_dec : pv -> res pv := fun v =>
  match py_get v "y" with Ok (Some _) => Ok (VObj "Click" []) | _ => Exn (XMissingField "y" "Click") end.
Example C05_ex_first_call_missing_field :
  discr_history "kind" [(Some "click", click_dec); (Some "key", fun _ => Ok VNone)] []
    [VDict [(VStr "kind", VStr "click"); (VStr "x", VInt 1)];
     VDict [(VStr "kind", VStr "click"); (VStr "x", VInt 1)];
     VDict [(VStr "kind", VStr "nope")]]
  = [Exn (XMissingField "y" "Click"); Exn (XMissingField "y" "Click"); Exn XNoVariant].
Proof. reflexivity. Qed.
(* a KeyError raised by the variant's own from_dict (a user hook) is not an unknown tag *)
Example C05_ex_variant_keyerror :
  discr_history "kind" [(Some "k", fun _ => Exn XKeyError)] []
    [VDict [(VStr "kind", VStr "k")]; VDict [(VStr "kind", VStr "k")]] = [Exn XKeyError; Exn XKeyError].
Proof. reflexivity. Qed.

(* ---------------------------------------------------------------- non-vacuity *)
(* class A(a: int, b: Optional[date] = None, c: Any = 7); int("x") raises ValueError,
   date.fromisoformat(5) raises TypeError: both become InvalidFieldValue; order decides *)
Definition dec_int : pv -> res pv := fun v => match v with VInt z => Ok (VInt z) | _ => Exn XValueError end.
Definition dec_date : pv -> res pv := fun v => match v with VStr s => Ok (VLeaf "date" s) | _ => Exn XTypeError end.
Definition A : cspec := mk_class "A"
  [ {| fs_name := "a"; fs_key := "a"; fs_key2 := None; fs_default := None; fs_nullable := false; fs_ident := false; fs_dec := dec_int |};
    {| fs_name := "b"; fs_key := "b"; fs_key2 := None; fs_default := Some VNone; fs_nullable := true; fs_ident := false; fs_dec := dec_date |};
    {| fs_name := "c"; fs_key := "c"; fs_key2 := None; fs_default := Some (VInt 7); fs_nullable := true; fs_ident := true; fs_dec := fun v => Ok v |} ]
  true [].

Example C05_nonvacuous_plain : plain A /\ cs_fields A <> [].
Proof. split; [split; reflexivity|discriminate]. Qed.
(* field-less classes: E0.from_dict(5) -> ValueError, E0F.from_dict({"a": 1}) -> ExtraKeysError({"a"}) *)
Definition E0 : cspec := mk_class "E0" [] false [].
Definition E0F : cspec := mk_class "E0F" [] true [].
Example C05_ex_fieldless_nonmapping : from_dict E0 (VInt 5) = Exn XValueError /\ from_dict E0F (VInt 5) = Exn XValueError.
Proof. split; reflexivity. Qed.
Example C05_ex_fieldless_ok : from_dict E0 (VDict [(VStr "a", VInt 1)]) = Ok (VObj "E0" []).
Proof. reflexivity. Qed.
Example C05_ex_fieldless_extra : from_dict E0F (VDict [(VStr "a", VInt 1)]) = Exn (XExtraKeys [VStr "a"] "E0F").
Proof. reflexivity. Qed.
Example C05_ex_ok : from_dict A (VDict [(VStr "a", VInt 1); (VStr "b", VStr "2020-01-01")])
  = Ok (VObj "A" [("a", VInt 1); ("b", VLeaf "date" "2020-01-01"); ("c", VInt 7)]).
Proof. reflexivity. Qed.
Example C05_ex_first_bad : from_dict A (VDict [(VStr "b", VInt 5); (VStr "a", VStr "x")])
  = Exn (XInvalidFieldValue "a" (VStr "x") "A").
Proof. reflexivity. Qed.
Example C05_ex_second_bad : from_dict A (VDict [(VStr "b", VInt 5); (VStr "a", VInt 3)])
  = Exn (XInvalidFieldValue "b" (VInt 5) "A").
Proof. reflexivity. Qed.
Example C05_ex_missing : from_dict A (VDict [(VStr "b", VInt 5)]) = Exn (XMissingField "a" "A").
Proof. reflexivity. Qed.
Example C05_ex_extra : from_dict A (VDict [(VStr "z", VInt 5); (VStr "a", VStr "x"); (VInt 3, VNone)])
  = Exn (XExtraKeys [VStr "z"; VInt 3] "A").
Proof. reflexivity. Qed.
Example C05_ex_nonmapping : from_dict A (VList [VInt 1]) = Exn XValueError.
Proof. reflexivity. Qed.
Example C05_ex_null_nullable : from_dict A (VDict [(VStr "a", VInt 1); (VStr "b", VNone); (VStr "c", VNone)])
  = Ok (VObj "A" [("a", VInt 1); ("b", VNone); ("c", VNone)]).
Proof. reflexivity. Qed.
