(* C04 (codec wrapper): Encoder/Decoder objects compose the shape (un)packer with the post-encoder / pre-decoder
   exactly once; the direct-call shortcut is extensionally the same function.  Over the skeleton of
   mashumaro/codecs/_builder.py as translated from /repo on this run (VerifGen.K40).  With  pre = parse_F  and
   E = unpack_ls  this is Fmt.decode, with post = ser_F and E = pack_ls it is Fmt.encode: the codec objects and the
   mixin methods are the same composition. *)
From Coq Require Import List Bool.
From Verif Require Import CodecWrap CodecWrapProofs.
From VerifGen Require Import K40.
Import ListNotations.

Theorem C04_codec_decode_is_unpack_after_predecoder :
  forall (b_codec b_m: bool) (In Out: Type) (pre: In -> In) (post: Out -> Out) (E M: In -> option Out),
  (b_m = true -> forall x, E x = M x) ->
  forall d, call In Out pre post E M (install (decode_prog b_codec b_m) None NotInstalled) d
            = E (if b_codec then pre d else d).
Proof. exact codec_decode_sem. Qed.
Print Assumptions C04_codec_decode_is_unpack_after_predecoder.

Theorem C04_codec_encode_is_postencoder_after_pack :
  forall (b_codec b_m: bool) (In Out: Type) (pre: In -> In) (post: Out -> Out) (E M: In -> option Out),
  (b_m = true -> forall x, E x = M x) ->
  forall v, call In Out pre post E M (install (encode_prog b_codec b_m) None NotInstalled) v
            = if b_codec then option_map post (E v) else E v.
Proof. exact codec_encode_sem. Qed.
Print Assumptions C04_codec_encode_is_postencoder_after_pack.

(* non-vacuity: the four programs are the expected ones *)
Example C04_codec_nonvacuous :
  decode_prog true true = [IDef; IPre; IReturnExpr; IInstallDef] /\
  decode_prog false true = [IInstallDirect] /\
  decode_prog false false = [IDef; IReturnExpr; IInstallDef] /\
  encode_prog true false = [IDef; IReturnPost; IInstallDef] /\
  install (decode_prog true true) None NotInstalled = Def [IPre; IReturnExpr].
Proof. repeat split; reflexivity. Qed.
