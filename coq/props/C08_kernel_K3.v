(* C08 - kernel K3 = CodeBuilder.get_dialect_or_config_option translated from /repo on this run:
   lookup order, and its link to OptProj.look. *)
From Coq Require Import List String ZArith Bool.
From Verif Require Import PyK OptProj OptEnc K3Proofs.
From VerifGen Require Import K3.
Import ListNotations.
Open Scope string_scope.

(* ---- K3: option lookup order ---- *)
Theorem K3_order : forall d cd c dd opt dflt,
  get_dialect_or_config_option d cd c dd (KStr opt) dflt
  = Ok (first_nonmissing [ns_opt d opt; ns_opt cd opt; ns_opt c opt; ns_opt dd opt] dflt).
Proof. exact K3_order_lemma. Qed.
Print Assumptions K3_order.

Theorem K3_look : forall d cd c dd x,
  get_dialect_or_config_option (enc_ons d) (enc_ons cd) (enc_ons c) (enc_ons dd) (KStr (opt_str x)) (KBool false)
  = Ok (KBool (look (opt_sel x) [d; cd; c; dd])).
Proof. exact K3_look_lemma. Qed.
Print Assumptions K3_look.

(* non-vacuity *)
Example K3_order_example :
  get_dialect_or_config_option KNone (KNs [("omit_none", KBool true)]) (KNs [("omit_none", KBool false)]) KNone
                               (KStr "omit_none") (KBool false) = Ok (KBool true).
Proof. reflexivity. Qed.
