(* C19: hooks run exactly once per instance, in order, through every entry point. *)
From Coq Require Import List Arith Bool.
From Verif Require Import Hooks.
Import ListNotations.
