(* C19: hooks run exactly once per instance, in order, through every entry point.
   Model: theories/Hooks.v (pack/unpack = the generated to_dict/from_dict restricted to hook
   events; trav/trav_de = pre/post-order traversal of the instance tree).
   Proofs: theories/HooksProofs.v.  The model is compared with /repo on every run. *)
From Coq Require Import List Arith Bool.
From Verif Require Import Hooks HooksProofs HooksDe.
Import ListNotations.

(* Full-strength statement: for every schema, every well-typed value and both paths the hook
   trace of serialization is the pre/post-order traversal (each hook once, pre before and post
   after the fields, post on the object the pre hook returned, context as specified). *)
Definition C19_trace_full : Prop := trace_full.

(* ... holds for schemas without unions, mixin and codec path alike, any depth.  [wt E a v t]: v is a value of type
   t; a = true (mixin path) also admits an instance of a subclass where the parent class is declared (fields typed
   with a base class, discriminated hierarchies), provided both classes agree on the context option. *)
Theorem C19_trace_partial :
  forall E stubs m v t pc px k,
    env_union_free E = true -> union_free t = true -> wt E (is_mixin m) v t = true -> (m = Codec -> k = CNone) ->
    pack E stubs m v t pc px k = (true, trav E pc k v).
Proof. exact trace_partial. Qed.
Print Assumptions C19_trace_partial.

(* ... and is false in general (D8) *)
Theorem C19_trace_refuted : ~ C19_trace_full.
Proof. exact trace_refuted. Qed.
Print Assumptions C19_trace_refuted.

(* D8 (known finding C19/codec-union-static-dispatch): through a codec, the second member of a
   union of dataclasses has its __pre_serialize__ run twice *)
Theorem C19_codec_union_refuted :
  exists E v t, wt E false v t = true /\
    count_occ (list_eq_dec Nat.eq_dec) (map (fun e => match e with Pre c i _ => [c; i] | _ => [] end)
                                            (snd (pack E true Codec v t false xf_none CNone))) [1; 7] = 2.
Proof. exact codec_union_refuted. Qed.
Print Assumptions C19_codec_union_refuted.

(* mixin path, unions of dataclasses allowed everywhere: serialization succeeds and, contexts
   aside, every hook runs exactly once and in traversal order *)
Theorem C19_mixin_once :
  forall E stubs v t pc px k, wt E true v t = true ->
    fst (pack E stubs Mixin v t pc px k) = true /\
    map erase (snd (pack E stubs Mixin v t pc px k)) = map erase (trav E pc k v).
Proof. exact mixin_once. Qed.
Print Assumptions C19_mixin_once.

(* context: every node reachable from the call through opted-in classes only receives the
   caller's token (union-free schemas) *)
Definition C19_context_full : Prop := context_full.
Theorem C19_context :
  forall E stubs v t px k c i j,
    env_union_free E = true -> union_free t = true -> wt E true v t = true -> onpath E true v c i j ->
    (c_pre (cls E c) = true -> In (Pre c i k) (snd (pack E stubs Mixin v t true px k))) /\
    (c_post (cls E c) = true -> In (Post c j k) (snd (pack E stubs Mixin v t true px k))).
Proof. exact context_partial. Qed.
Print Assumptions C19_context.

(* D8b (known finding C19/union-member-flags): Union[In2, In] holding In loses the context *)
Theorem C19_union_context_refuted : ~ C19_context_full.
Proof. exact union_context_refuted. Qed.
Print Assumptions C19_union_context_refuted.

(* deserialization, union-free schemas: whenever from_dict returns r, the hook trace is the
   pre/post-order traversal of r (pre before the fields are read, post once per instance) *)
Theorem C19_de_trace_partial :
  forall E w t n r tr n',
    env_union_free E = true -> union_free t = true ->
    unpack E w t n = (Some r, tr, n') -> tr = trav_de E r.
Proof. exact de_trace_partial. Qed.
Print Assumptions C19_de_trace_partial.

(* deserialization, any schema (unions included), any input: if from_dict returns r, then the
   __post_deserialize__ events that concern instances of r are exactly one per instance of r
   whose class declares the hook, in construction (post) order - regardless of what discarded
   union attempts did *)
Theorem C19_de_post_once :
  forall E w t n r tr n',
    unpack E w t n = (Some r, tr, n') -> post_events_of E r tr = expected_post E r.
Proof. exact de_post_once. Qed.
Print Assumptions C19_de_post_once.

(* codec path with an instance of a subclass at a parent-typed position (known finding
   C19/codec-subclass-static-dispatch): the parent's function is called statically, hooks the subclass adds never run *)
Definition C19_trace_subclass_full : Prop := trace_subclass_full.
Theorem C19_codec_subclass_refuted : ~ C19_trace_subclass_full.
Proof. exact codec_subclass_refuted. Qed.
Print Assumptions C19_codec_subclass_refuted.

(* mixin path (known finding C19/subclass-declared-class-flags): a field declared with a class that did not opt in
   holds an instance of a subclass that did - the context does not reach it *)
Definition C19_context_subclass_full : Prop := context_subclass_full.
Theorem C19_subclass_context_refuted : ~ C19_context_subclass_full.
Proof. exact subclass_context_refuted. Qed.
Print Assumptions C19_subclass_context_refuted.

(* Discriminators.  A class whose own Config has Discriminator(field, include_subtypes) is only a dispatcher:
   decoding a tagged dict through the base IS decoding it with the from_dict of the registered variant - same
   result, identities and events.  So the hooks that run are the variant's (declared or inherited), once, in the
   order given by C19_de_trace_partial / C19_de_post_once; the base's hooks are not run again around the dispatch. *)
Theorem C19_disc_config_dispatch :
  forall E c t v kvs n,
    c_disc (cls E c) = Some true -> lookup_tag E (c_tagger (cls E c)) (subclasses E c) t = Some v -> c_disc (cls E v) = None ->
    unpack E (WDict (Some t) kvs) (TDc c) n = unpack E (WDict (Some t) kvs) (TDc v) n.
Proof. exact disc_config_dispatch. Qed.
Print Assumptions C19_disc_config_dispatch.

(* the same for Annotated[P, Discriminator(field, include_subtypes[, include_supertypes])] on a field *)
Theorem C19_disc_annotated_dispatch :
  forall E p sup t v kvs n,
    lookup_tag E false (disc_variants E p sup) t = Some v -> c_disc (cls E v) = None ->
    unpack E (WDict (Some t) kvs) (TDisc p true sup) n = unpack E (WDict (Some t) kvs) (TDc v) n.
Proof. exact disc_annotated_dispatch. Qed.
Print Assumptions C19_disc_annotated_dispatch.

(* ... and for Annotated[Union[A, B, ...], Discriminator(field, include_subtypes?, include_supertypes?)] *)
Theorem C19_disc_union_dispatch :
  forall E cs sb sp t v kvs n,
    lookup_tag E false (discu_variants E cs sb sp) t = Some v -> c_disc (cls E v) = None ->
    unpack E (WDict (Some t) kvs) (TDiscU cs true sb sp) n = unpack E (WDict (Some t) kvs) (TDc v) n.
Proof. exact disc_union_dispatch. Qed.
Print Assumptions C19_disc_union_dispatch.

(* missing or unknown tag: the call fails and no hook has run *)
Theorem C19_disc_no_variant :
  forall E c kvs n,
    c_disc (cls E c) = Some true ->
    unpack E (WDict None kvs) (TDc c) n = (None, [], n) /\
    (forall t, lookup_tag E (c_tagger (cls E c)) (subclasses E c) t = None -> unpack E (WDict (Some t) kvs) (TDc c) n = (None, [], n)).
Proof. exact disc_no_variant. Qed.
Print Assumptions C19_disc_no_variant.

(* ---- non-vacuity: a nested schema with a list, an Optional, hooks on every class, a pre hook
   that returns another object (6 -> 9), mixed context options *)
Definition E_ex : env :=
  [ mk_cinfo [Build_field 0 TInt false] true true true true true;
    mk_cinfo [Build_field 1 (TList (TDc 0)) false; Build_field 2 (TOpt (TDc 0)) true] true true true true true ].
Definition v_ex : val :=
  VInst 1 6 9 [(1, VList [VInst 0 2 2 [(0, VInt)]; VInst 0 3 3 [(0, VInt)]]); (2, VInst 0 4 4 [(0, VInt)])].
Example C19_nonvacuous :
  env_union_free E_ex = true /\ wt E_ex true v_ex (TDc 1) = true /\ onpath E_ex true v_ex 0 3 3 /\
  pack E_ex true Mixin v_ex (TDc 1) true xf_none CTok
  = (true, [Pre 1 6 CTok; Pre 0 2 CTok; Post 0 2 CTok; Pre 0 3 CTok; Post 0 3 CTok;
            Pre 0 4 CTok; Post 0 4 CTok; Post 1 9 CTok]) /\
  unpack E_ex (WDict None [(1, WList [WDict None [(0, WInt)]]); (2, WNone)]) (TDc 1) 0
  = (Some (VInst 1 1 1 [(1, VList [VInst 0 0 0 [(0, VInt)]]); (2, VNone)]),
     [PreDe 1; PreDe 0; PostDe 0 0; PostDe 1 1], 2).
Proof.
  repeat split; try (vm_compute; reflexivity).
  eapply onpath_field with (n := 1); [reflexivity|left; reflexivity|].
  eapply onpath_list with (x := VInst 0 3 3 [(0, VInt)]); [right; left; reflexivity|].
  apply onpath_here. reflexivity.
Qed.

(* a look-alike union: the first member is tried, decodes an inner instance (identity 0, post hook runs),
   then fails; the result comes from the second member; the theorem's filter keeps exactly its events *)
Definition E_ex2 : env :=
  [ mk_cinfo [Build_field 0 TInt false] false false true true false;
    mk_cinfo [Build_field 1 (TDc 0) false; Build_field 2 TInt false] false false true true false;
    mk_cinfo [Build_field 1 (TDc 0) false; Build_field 3 TInt false] false false true true false ].
Example C19_de_nonvacuous :
  unpack E_ex2 (WDict None [(1, WDict None [(0, WInt)]); (3, WInt)]) (TUnion [1; 2]) 0
  = (Some (VInst 2 2 2 [(1, VInst 0 1 1 [(0, VInt)]); (3, VInt)]),
     [PreDe 1; PreDe 0; PostDe 0 0; PreDe 2; PreDe 0; PostDe 0 1; PostDe 2 2], 3)
  /\ post_events_of E_ex2 (VInst 2 2 2 [(1, VInst 0 1 1 [(0, VInt)]); (3, VInt)])
       [PreDe 1; PreDe 0; PostDe 0 0; PreDe 2; PreDe 0; PostDe 0 1; PostDe 2 2]
     = [PostDe 0 1; PostDe 2 2].
Proof. split; vm_compute; reflexivity. Qed.

(* a transit class: Root (2, hooks) -> List[Mid] (1, opted in, *no* hooks) -> Optional[Leaf] (0, hooks).
   C19_context applies to the Leaf: its hooks receive the caller's token although the class in between
   declares no hook of its own (onpath does not ask for hooks on the way) *)
Definition E_ex3 : env :=
  [ mk_cinfo [Build_field 0 TInt false] true true false false true;
    mk_cinfo [Build_field 1 (TOpt (TDc 0)) true] false false false false true;
    mk_cinfo [Build_field 2 (TList (TDc 1)) false] true true false false true ].
Definition v_ex3 : val := VInst 2 1 1 [(2, VList [VInst 1 2 2 [(1, VInst 0 3 3 [(0, VInt)])]])].
Example C19_context_transit_nonvacuous :
  env_union_free E_ex3 = true /\ wt E_ex3 true v_ex3 (TDc 2) = true /\ onpath E_ex3 true v_ex3 0 3 3 /\
  pack E_ex3 true Mixin v_ex3 (TDc 2) true xf_none CTok = (true, [Pre 2 1 CTok; Pre 0 3 CTok; Post 0 3 CTok; Post 2 1 CTok]).
Proof.
  repeat split; try (vm_compute; reflexivity).
  eapply onpath_field with (n := 2); [reflexivity|left; reflexivity|].
  eapply onpath_list with (x := VInst 1 2 2 [(1, VInst 0 3 3 [(0, VInt)])]); [left; reflexivity|].
  eapply onpath_field with (n := 1); [reflexivity|left; reflexivity|].
  apply onpath_here. reflexivity.
Qed.

(* a self-recursive class (however the recursion is spelled: class name, forward reference or typing.Self, the
   model has one type for it): Node(nxt: Optional[Node], kids: List[Node]), opted in, with hooks.  C19_trace_partial
   and C19_context cover it without any depth bound; the token reaches the innermost node. *)
Definition E_ex4 : env :=
  [ mk_cinfo [Build_field 0 (TOpt (TDc 0)) true; Build_field 1 (TList (TDc 0)) false] true true false false true ].
Definition v_ex4 : val :=
  VInst 0 1 1 [(0, VInst 0 2 2 [(0, VNone); (1, VList [VInst 0 3 3 [(0, VNone); (1, VList [])]])]); (1, VList [])].
Example C19_context_recursive_nonvacuous :
  env_union_free E_ex4 = true /\ wt E_ex4 true v_ex4 (TDc 0) = true /\ onpath E_ex4 true v_ex4 0 3 3 /\
  pack E_ex4 true Mixin v_ex4 (TDc 0) true xf_none CTok
  = (true, [Pre 0 1 CTok; Pre 0 2 CTok; Pre 0 3 CTok; Post 0 3 CTok; Post 0 2 CTok; Post 0 1 CTok]).
Proof.
  repeat split; try (vm_compute; reflexivity).
  eapply onpath_field with (n := 0); [reflexivity|left; reflexivity|].
  eapply onpath_field with (n := 1); [reflexivity|right; left; reflexivity|].
  eapply onpath_list with (x := VInst 0 3 3 [(0, VNone); (1, VList [])]); [left; reflexivity|].
  apply onpath_here. reflexivity.
Qed.

(* discriminators: Base (0: pre/post_deserialize, Config discriminator with field) <- S1 (1, tag 1) <- S11 (2, tag 2),
   Base <- S2 (3, tag 3, a required extra field); holder 4 with  a: Base,  b: List[Annotated[Base, Discriminator(
   include_subtypes=True)]] (no field: every subclass is tried in order S1, S11, S2). *)
Definition E_ex5 : env :=
  [ mk_cinfo_h [Build_field 0 TInt false] false false true true false None None (Some true);
    mk_cinfo_h [Build_field 0 TInt false] false false true true false (Some 0) (Some 1) None;
    mk_cinfo_h [Build_field 0 TInt false; Build_field 1 TInt false] false false true true false (Some 1) (Some 2) None;
    mk_cinfo_h [Build_field 0 TInt false; Build_field 2 TInt false] false false true true false (Some 0) (Some 3) None;
    mk_cinfo [Build_field 3 (TDc 0) false; Build_field 4 (TList (TDisc 0 false false)) false] false false false false false ].
Example C19_disc_nonvacuous :
  subclasses E_ex5 0 = [1; 2; 3] /\ lookup_tag E_ex5 false (subclasses E_ex5 0) 3 = Some 3 /\
  (* through the base: only the variant S2's hooks, once *)
  unpack E_ex5 (WDict (Some 3) [(0, WInt); (2, WInt)]) (TDc 0) 0
  = (Some (VInst 3 0 0 [(0, VInt); (2, VInt)]), [PreDe 3; PostDe 3 0], 1) /\
  (* holder: a = tagged S11; b = one untagged item {f0, f2}: S1 accepts it first (f2 is an extra key) *)
  unpack E_ex5 (WDict None [(3, WDict (Some 2) [(0, WInt); (1, WInt)]); (4, WList [WDict None [(0, WInt); (2, WInt)]])]) (TDc 4) 0
  = (Some (VInst 4 2 2 [(3, VInst 2 0 0 [(0, VInt); (1, VInt)]); (4, VList [VInst 1 1 1 [(0, VInt)]])]),
     [PreDe 2; PostDe 2 0; PreDe 1; PostDe 1 1], 3) /\
  (* an item without f0 fails in all three variants,
     each attempt having run its pre hook *)
  unpack E_ex5 (WList [WDict None [(2, WInt)]]) (TList (TDisc 0 false false)) 0
  = (None, [PreDe 1; PreDe 2; PreDe 3], 0) /\
  (* serialization of the holder through the mixin: subclass instances under a base-typed field are well typed and
     C19_trace_partial applies *)
  wt E_ex5 true (VInst 4 9 9 [(3, VInst 2 7 7 [(0, VInt); (1, VInt)]); (4, VList [VInst 3 8 8 [(0, VInt); (2, VInt)]])]) (TDc 4) = true.
Proof. repeat split; vm_compute; reflexivity. Qed.

(* other keyword-adding options in a mixin union: holder 2 (context + dialect) with u: Union[A, B]; A = 0 (dialect, no
   context), B = 1 (context, no dialect).  For an instance of B the first call expression
   value.__mashumaro_to_dict__(dialect=dialect) raises TypeError, the second one passes the context: B's hooks get the
   token (with equal dialect options the first expression would have succeeded and lost it, cf. C19_union_context_refuted) *)
Definition E_ex6 : env :=
  [ Build_cinfo [Build_field 0 TInt false] true true false false false None None None (false, false, true) false;
    Build_cinfo [Build_field 1 TInt false] true true false false true None None None (false, false, false) false;
    Build_cinfo [Build_field 2 (TUnion [0; 1]) false] true true false false true None None None (false, false, true) false ].
Example C19_union_flags_nonvacuous :
  wt E_ex6 true (VInst 2 1 1 [(2, VInst 1 2 2 [(1, VInt)])]) (TDc 2) = true /\
  pack E_ex6 true Mixin (VInst 2 1 1 [(2, VInst 1 2 2 [(1, VInt)])]) (TDc 2) true (false, false, true) CTok
  = (true, [Pre 2 1 CTok; Pre 1 2 CTok; Post 1 2 CTok; Post 2 1 CTok]).
Proof. split; vm_compute; reflexivity. Qed.

(* nested class-level discriminators: Base (0, dispatches on the tag) <- Mid (1, tag 1, itself a dispatcher without a
   field) <- Leaf (2, tag 2, one required field) and Leaf2 (3, tag 3).  The tag of Mid selects Mid, whose from_dict tries
   Mid's subclasses in order; only the class finally constructed runs its hooks (here inherited from Base), once. *)
Definition E_ex7 : env :=
  [ mk_cinfo_h [Build_field 0 TInt false] false false true true false None None (Some true);
    mk_cinfo_h [Build_field 0 TInt false] false false true true false (Some 0) (Some 1) (Some false);
    mk_cinfo_h [Build_field 0 TInt false; Build_field 1 TInt false] false false true true false (Some 1) (Some 2) None;
    mk_cinfo_h [Build_field 0 TInt false] false false true true false (Some 1) (Some 3) None ].
Example C19_disc_nested_nonvacuous :
  unpack E_ex7 (WDict (Some 1) [(0, WInt)]) (TDc 0) 0
  = (Some (VInst 3 0 0 [(0, VInt)]), [PreDe 2; PreDe 3; PostDe 3 0], 1) /\
  unpack E_ex7 (WDict (Some 2) [(0, WInt); (1, WInt)]) (TDc 0) 0
  = (Some (VInst 2 0 0 [(0, VInt); (1, VInt)]), [PreDe 2; PostDe 2 0], 1) /\
  post_events_of E_ex7 (VInst 3 0 0 [(0, VInt)]) [PreDe 2; PreDe 3; PostDe 3 0] = [PostDe 3 0].
Proof. repeat split; vm_compute; reflexivity. Qed.

(* variant_tagger_fn: Base (0, class-level discriminator with a tagger) <- S (1, binds no discriminator attribute).
   With the tagger every variant is registered under its own name, without it S could not be selected at all. *)
Definition E_ex8 (tagger: bool) : env :=
  [ Build_cinfo [Build_field 0 TInt false] false false true true false None None (Some true) xf_none tagger;
    mk_cinfo_h [Build_field 0 TInt false] false false true true false (Some 0) None None ].
Example C19_tagger_nonvacuous :
  unpack (E_ex8 true) (WDict (Some 1) [(0, WInt)]) (TDc 0) 0 = (Some (VInst 1 0 0 [(0, VInt)]), [PreDe 1; PostDe 1 0], 1) /\
  unpack (E_ex8 false) (WDict (Some 1) [(0, WInt)]) (TDc 0) 0 = (None, [], 0).
Proof. split; vm_compute; reflexivity. Qed.

(* a discriminated Union: Annotated[Union[Leaf(0), Base(1)], Discriminator("kind", include_subtypes, include_supertypes)],
   Base <- S (2, tag 2); Leaf has tag 0.  Variants = subclasses of the members, then the members themselves. *)
Definition E_ex9 : env :=
  [ mk_cinfo_h [Build_field 0 TInt false] false false true true false None (Some 0) None;
    mk_cinfo_h [Build_field 1 TInt false] false false true true false None None None;
    mk_cinfo_h [Build_field 1 TInt false; Build_field 2 TInt false] false false true true false (Some 1) (Some 2) None ].
Example C19_disc_union_nonvacuous :
  discu_variants E_ex9 [0; 1] true true = [2; 0; 1] /\
  unpack E_ex9 (WDict (Some 2) [(1, WInt); (2, WInt)]) (TDiscU [0; 1] true true true) 0
  = (Some (VInst 2 0 0 [(1, VInt); (2, VInt)]), [PreDe 2; PostDe 2 0], 1) /\
  unpack E_ex9 (WDict (Some 0) [(0, WInt)]) (TDiscU [0; 1] true true true) 5
  = (Some (VInst 0 5 5 [(0, VInt)]), [PreDe 0; PostDe 0 5], 6) /\
  (* without a field every variant is tried: S rejects (f2 missing) after its pre hook, Leaf rejects, Base accepts *)
  unpack E_ex9 (WDict None [(1, WInt)]) (TDiscU [0; 1] false true true) 0
  = (Some (VInst 1 0 0 [(1, VInt)]), [PreDe 2; PreDe 0; PreDe 1; PostDe 1 0], 1).
Proof. repeat split; vm_compute; reflexivity. Qed.
