(* C03 / kernel K45a: the TypedDict unpacker of the model is the helper unpack_typed_dict emits.
   [k45a_unpack_lines] is translated from /repo on every run (coq/gen/K45a.v); [run_td_lines] (TdEmit.v) is the
   semantics of the emitted statements: required keys first (value[key]: KeyError when missing), then the optional
   keys (value.get(key, MISSING): skipped when missing), each group in declaration order. *)
From Coq Require Import List String ZArith Bool.
From Verif Require Import Core TyModel TyProofs TdEmit K45aProofs.
From VerifGen Require Import K45a.
Import ListNotations.

(* `key in __required_keys__` / `key in __optional_keys__` of the class *)
Definition has_key_with (p: sfield -> bool) (fds: list sfield) (n: String.string) : bool :=
  existsb (fun f => String.eqb f.(sf_name) n && p f) fds.

Lemma has_key_with_nodup (p: sfield -> bool) fds : names_nodup fds = true ->
  forall f, In f fds -> has_key_with p fds f.(sf_name) = p f.
Proof.
  unfold has_key_with. induction fds as [|g rest IH]; intros Hnd f Hf; [destruct Hf|].
  cbn [names_nodup] in Hnd. apply andb_prop in Hnd. destruct Hnd as [Hng Hnd]. apply negb_true_iff in Hng.
  cbn [existsb]. destruct Hf as [Hf|Hf].
  - subst g. rewrite String.eqb_refl. cbn [andb]. destruct (p f); [reflexivity|]. cbn [orb].
    apply not_true_is_false. intros Hx. apply existsb_exists in Hx. destruct Hx as [h [Hh Hx]].
    apply andb_prop in Hx. destruct Hx as [Hx _]. rewrite String.eqb_sym in Hx.
    rewrite (names_nodup_notin f rest h Hng Hh) in Hx. discriminate Hx.
  - rewrite (names_nodup_notin g rest f Hng Hf). cbn [andb orb]. apply (IH Hnd f Hf).
Qed.

Theorem C03_typed_code_is_model : forall (E: senv) (P: prims) (c: String.string) (k: scls) (kvs: list (pv * pv)),
  sfind E KTyped c = Some k -> names_nodup k.(sc_fields) = true ->
  uk E P (VDict kvs) (cu true (STyped c)) =
    (r <- run_td_lines (fun f (dx: pdec -> res pv) => dx (cu true f.(sf_ty))) (konst_u E) XKeyError (find_field k.(sc_fields))
                       (map (fun p => match p with (key, x) => (key, uk E P x) end) kvs)
                       (k45a_unpack_lines (map sf_name k.(sc_fields))
                                          (has_key_with (fun f => negb f.(sf_opt)) k.(sc_fields))
                                          (has_key_with (fun f => f.(sf_opt)) k.(sc_fields))) ;;
     Ok (VDict r)).
Proof.
  intros E P c k kvs Ef Hnd. cbn [cu]. rewrite uk_unfold. rewrite Ef.
  rewrite k45a_unpack_is_td_go; [reflexivity | exact Hnd | |]; apply has_key_with_nodup; exact Hnd.
Qed.
Print Assumptions C03_typed_code_is_model.

Example C03_k45a_emitted :
  k45a_unpack_lines ["o"; "r"; "p"; "s"] (fun n => orb (String.eqb n "r") (String.eqb n "s")) (fun n => orb (String.eqb n "o") (String.eqb n "p"))
    = [TLReq "r"; TLReq "s"; TLOpt "o"; TLOpt "p"].
Proof. vm_compute. reflexivity. Qed.
