(* C04 (merge clause): the effective dialect of a format method under a caller's dialect is
   Dialect.merge(format dialect, caller's dialect).  Strategy part: DialectMerge.merge_strategies (hand model of
   dialect.py, compared with /repo by C13's correspondence) gives exactly Fmt.eff_id, the clause the format
   model uses.  Option part: over Dialect.merge's option loop as translated from /repo on this run (K2). *)
From Coq Require Import List String ZArith Bool.
From Verif Require Import Regex PyK Fmt DialectMerge FmtDialects FmtDialectSource.
From VerifGen Require Import K2 K13 K41.
Import ListNotations.
Open Scope string_scope.

Theorem C04_merge_strategies_is_model_clause : forall c o k ser,
  NoDup (map fst c) -> NoDup (map fst o) ->
  id_of_eff (effective (sm_get (merge_strategies (enc_map c) (enc_map o)) k) (dir_name ser))
  = eff_id (nlookup c k) (nlookup o k) ser.
Proof. exact merge_strategies_is_eff_id. Qed.
Print Assumptions C04_merge_strategies_is_model_clause.

Theorem C04_merge_keeps_format_omit_none : forall a b n,
  has_keys merge_loop_keys a -> has_keys merge_loop_keys b ->
  option_of b "omit_none" = KMissing ->
  exists r, merge_options (KNs a) (KNs b) (KNs n) = PyK.Ok (KNs r)
            /\ option_of r "omit_none" = option_of a "omit_none".
Proof. exact merge_keeps_format_omit_none. Qed.
Print Assumptions C04_merge_keeps_format_omit_none.

(* the model's table of the three format dialects is what mashumaro/mixins/{orjson,msgpack,toml}.py declare
   (strategies per native type and direction, omit_none), as read from the source on this run (K41) *)
Theorem C04_format_dialect_tables_match_source : forall F k,
  source_entry F k = fmt_entry F k /\ source_omit F = fmt_omit F.
Proof. exact format_dialect_tables_match_source. Qed.
Print Assumptions C04_format_dialect_tables_match_source.

(* non-vacuity: TOMLDialect.merge(X) with X silent on omit_none still omits None; the msgpack entry for
   bytearray merged with a caller's {"serialize": f} keeps the format's deserialize = bytearray *)
Example C04_merge_nonvacuous :
  (exists r, merge_options (KNs (map (fun k => (k, if String.eqb k "omit_none" then KBool true else KMissing)) merge_loop_keys))
                           (KNs (map (fun k => (k, KMissing)) merge_loop_keys)) (KNs [])
             = PyK.Ok (KNs r) /\ option_of r "omit_none" = KBool true)
  /\ eff_id (fmt_entry FMsgpack KBytearray) (Some (EDict (Some 5%nat) None)) true = Some 5%nat
  /\ eff_id (fmt_entry FMsgpack KBytearray) (Some (EDict (Some 5%nat) None)) false = Some 1%nat.
Proof. split; [eexists; split; vm_compute; reflexivity | split; reflexivity]. Qed.
