(* C05 over kernel K105a (FieldUnpackerCodeBlockBuilder.build / _try_set_value / _set_value, builder.py, translated
   from /repo to coq/gen/K105a.v on every run): the block of statements the generator EMITS for one field, executed with
   exception classes (d.get on a non-mapping raises AttributeError, the handler around the unpacker expression is
   a bare `except:`), computes the field step of the C05 model; so does the sequence of blocks, and the generated
   from_dict built from the emitted blocks IS Errs.from_dict.  Every theorem of C05_errors.v is therefore a theorem
   about the emitted program; an edit of `build` (a dropped MISSING test, a narrower handler, a swapped None test,
   a default written for a null) changes K105a.v and these proofs are re-checked against it. *)
From Coq Require Import List String ZArith Bool.
From Verif Require Import Core Errs ErrsProofs FieldEmit K105aProofs.
From VerifGen Require Import K105a.
Import ListNotations.
Open Scope string_scope.
Open Scope list_scope.

(* for every field spec (any key / second key / default / nullability / identity flag / decoder raising any class),
   every class name and every input: the emitted block raises the exception of Errs.field_step, or hands the
   constructor the same value (block_agrees: equal results, except that for a null input on a field whose default is
   None the block leaves kwargs alone where the model says `Some None`) *)
Theorem C05_field_block_emitted : forall cls f d,
  block_agrees f (run_block cls f d (in_kwargs (has_default f)) (block_of f)) (field_step cls d f).
Proof. exact fblock_field_step. Qed.
Print Assumptions C05_field_block_emitted.

(* all blocks in declaration order: the first exception of the model's loop, or the constructor call receives exactly
   the model's instance fields (recv_all: a positional local that was never bound would be an UnboundLocalError) *)
Theorem C05_field_blocks_emitted : forall cls d fs, loop_agrees fs (run_blocks cls d fs) (field_loop cls d fs).
Proof. exact fblocks_field_loop. Qed.
Print Assumptions C05_field_blocks_emitted.

Theorem C05_from_dict_emitted : forall c d, from_dict_e c d = from_dict c d.
Proof. exact from_dict_emitted. Qed.
Print Assumptions C05_from_dict_emitted.

(* the property's outcome theorem, stated on the program built from the emitted blocks *)
Theorem C05_emitted_outcomes : forall c d, plain c -> documented c d (from_dict_e c d).
Proof. intros c d Hp. rewrite from_dict_emitted. apply outcomes. exact Hp. Qed.
Print Assumptions C05_emitted_outcomes.

(* the first bad field in declaration order decides, on the emitted program *)
Theorem C05_emitted_first_bad : forall c kvs pre f post b,
  plain c -> cs_fields c = pre ++ f :: post ->
  (cs_forbid_extra c = true -> extra_keys c kvs = []) ->
  Forall (fun g => field_bad kvs g = None) pre -> field_bad kvs f = Some b ->
  from_dict_e c (VDict kvs) = Exn (exn_of_bad (cs_name c) f b).
Proof.
  intros c kvs pre f post b Hp Hs Hx Hpre Hb. rewrite from_dict_emitted.
  exact (first_bad_decides c kvs pre f post b Hp Hs Hx Hpre Hb).
Qed.
Print Assumptions C05_emitted_first_bad.

(* ---------------------------------------------------------------- non-vacuity *)
(* e: Optional[int] = 5 with an alias "ee" under allow_deserialization_not_by_alias *)
Definition f_ex : fspec :=
  {| fs_name := "e"; fs_key := "ee"; fs_key2 := Some "e"; fs_default := Some (VInt 5); fs_nullable := true; fs_ident := false;
     fs_dec := fun v => match v with VStr "7" => Ok (VInt 7) | _ => Exn (XOther "BaseKeyboardInterrupt") end |}.
Example C05_fblock_ex_lines :
  block_of f_ex =
  [SGet TValue KAlias; SIfMissing TValue [SGet TValue KName];
   SIfNotMissing TValue [SIfNotNone TValue [STry [SSetKw EUnpack]]; SElse [SSetKw ENone]]].
Proof. reflexivity. Qed.
Example C05_fblock_ex_runs :
  run_block "K" f_ex (VDict [(VStr "e", VStr "7")]) true (block_of f_ex) = Ok (Some (VInt 7))          (* read by name *)
  /\ run_block "K" f_ex (VDict [(VStr "ee", VNone)]) true (block_of f_ex) = Ok (Some VNone)             (* null stays null *)
  /\ run_block "K" f_ex (VDict []) true (block_of f_ex) = Ok None                                       (* default applies *)
  (* bare except: even a BaseException-only class becomes InvalidFieldValue naming field, value, class *)
  /\ run_block "K" f_ex (VDict [(VStr "ee", VStr "x")]) true (block_of f_ex) = Exn (XInvalidFieldValue "e" (VStr "x") "K")
  /\ run_block "K" f_ex (VList []) true (block_of f_ex) = Exn XAttributeError.
Proof. repeat split; reflexivity. Qed.
(* a required field: x: int *)
Definition f_req : fspec :=
  {| fs_name := "x"; fs_key := "x"; fs_key2 := None; fs_default := None; fs_nullable := false; fs_ident := false;
     fs_dec := fun v => match v with VInt z => Ok (VInt z) | _ => Exn XValueError end |}.
Example C05_fblock_req :
  block_of f_req = [SGet TValue KKey; SIfMissing TValue [SRaiseMissing]; STry [SSetField EUnpack]]
  /\ run_block "K" f_req (VDict []) false (block_of f_req) = Exn (XMissingField "x" "K")
  /\ from_dict_e {| cs_name := "K"; cs_fields := [f_req; f_ex]; cs_forbid_extra := false; cs_discr_keys := []; cs_pre := None; cs_post := None |}
       (VDict [(VStr "x", VInt 1); (VStr "ee", VStr "7")]) = Ok (VObj "K" [("x", VInt 1); ("e", VInt 7)])
  /\ from_dict_e {| cs_name := "K"; cs_fields := [f_req; f_ex]; cs_forbid_extra := false; cs_discr_keys := []; cs_pre := None; cs_post := None |}
       (VStr "abc") = Exn XValueError.
Proof. repeat split; reflexivity. Qed.

(* ---------------------------------------------------------------- the frame around the blocks (kernel K105b) *)
From Verif Require Import FrameEmit K105bProofs.
From VerifGen Require Import K105b.

(* the emitted try frame (extra-keys check / d.keys touch / blocks) with the emitted handler is the body of the model *)
Theorem C05_frame_emitted : forall c d,
  run_frame (cs_name c) d (allowed_keys c) (run_blocks (cs_name c) d (cs_fields c))
            (frame_try (cs_forbid_extra c) (is_nil (cs_fields c))) frame_handler
  = body_e c d.
Proof. exact frame_body_e. Qed.
Print Assumptions C05_frame_emitted.

(* the allowed keys the generator computes from (name, alias) of the init fields, the discriminator field and
   allow_deserialization_not_by_alias are exactly the keys the model allows *)
Theorem C05_allowed_keys_emitted : forall nba ff discr c,
  keys_agree nba ff (cs_fields c) -> cs_discr_keys c = olist discr ->
  forall k, In k (allowed_keys_k ff discr nba) <-> In k (allowed_keys c).
Proof. exact allowed_keys_k_members. Qed.
Print Assumptions C05_allowed_keys_emitted.

(* the generated from_dict assembled from the three translated pieces is Errs.from_dict *)
Theorem C05_program_emitted : forall nba ff discr c d,
  keys_agree nba ff (cs_fields c) -> cs_discr_keys c = olist discr ->
  from_dict_k nba ff discr c d = from_dict c d.
Proof. exact from_dict_k_from_dict. Qed.
Print Assumptions C05_program_emitted.

(* ExtraKeysError carries exactly the unexpected keys, on the emitted program *)
Theorem C05_program_extra_exact : forall nba ff discr c kvs,
  keys_agree nba ff (cs_fields c) -> cs_discr_keys c = olist discr ->
  plain c -> cs_forbid_extra c = true -> extra_keys c kvs <> [] ->
  from_dict_k nba ff discr c (VDict kvs) = Exn (XExtraKeys (extra_keys c kvs) (cs_name c)).
Proof.
  intros nba ff discr c kvs Hk Hd Hp Hf Hx. rewrite (from_dict_k_from_dict nba ff discr c _ Hk Hd).
  exact (extra_exact c kvs Hp Hf Hx).
Qed.
Print Assumptions C05_program_extra_exact.

Example C05_frame_ex :
  frame_try true false = [RKeys; RForbidden; RIfForbiddenRaise; RBlocks]
  /\ frame_try false true = [RTouch; RBlocks]
  /\ allowed_keys_k [("x", None); ("e", Some "ee")] (Some "type") true = ["x"; "ee"; "type"; "x"; "e"]
  /\ from_dict_k true [("x", None); ("e", Some "ee")] None
       {| cs_name := "K"; cs_fields := [f_req; f_ex]; cs_forbid_extra := true; cs_discr_keys := []; cs_pre := None; cs_post := None |}
       (VDict [(VStr "x", VInt 1); (VStr "zz", VInt 2); (VStr "e", VNone)]) = Exn (XExtraKeys [VStr "zz"] "K")
  /\ from_dict_k true [] None
       {| cs_name := "K0"; cs_fields := []; cs_forbid_extra := false; cs_discr_keys := []; cs_pre := None; cs_post := None |}
       (VInt 5) = Exn XValueError.
Proof. repeat split; reflexivity. Qed.
