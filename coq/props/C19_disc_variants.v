(* C19, discriminator dispatch tied to the source: the list of variants the generated dispatcher tries (whose hooks can
   run), in order, is what kernel K12 of C12 reads from helpers.iter_all_subclasses, _get_variant_names and the
   class-level rebuild of the Discriminator in builder.py.  Premise of C19_disc_* (props/C19_hooks.v).
   Proofs: theories/HookDisc.v. *)
From Coq Require Import List Bool Arith.
From Verif Require Import PyK_discr Hooks HookDisc.
From VerifGen Require Import K12.
Import ListNotations.

Theorem C19_K12_subclasses :
  forall E fuel p, iter_all_subclasses fuel (children E) p = subclasses_f E fuel p.
Proof. exact k12_iter_all_subclasses. Qed.
Print Assumptions C19_K12_subclasses.

Theorem C19_K12_union_variants :
  forall E cs sb sp, eval_names (subclasses E) (get_variant_names sb sp cs) = discu_variants E cs sb sp.
Proof. exact k12_discu_variants. Qed.
Print Assumptions C19_K12_union_variants.

Theorem C19_K12_annotated_variants :
  forall E p sup, eval_names (subclasses E) (get_variant_names true sup [p]) = disc_variants E p sup.
Proof. exact k12_disc_variants. Qed.
Print Assumptions C19_K12_annotated_variants.

Theorem C19_K12_config_variants :
  forall E c sup,
    eval_names (subclasses E) (get_variant_names true (sup && config_keeps_supertypes) [c]) = subclasses E c.
Proof. exact k12_config_variants. Qed.
Print Assumptions C19_K12_config_variants.

(* non-vacuity: Base(0) <- A(1) <- A1(2), Base <- B(3) *)
Definition E_d : env :=
  [ mk_cinfo_h [] false false true true false None None None;
    mk_cinfo_h [] false false true true false (Some 0) (Some 1) None;
    mk_cinfo_h [] false false true true false (Some 1) (Some 2) None;
    mk_cinfo_h [] false false true true false (Some 0) (Some 3) None ].
Example C19_K12_nonvacuous :
  iter_all_subclasses (length E_d) (children E_d) 0 = [1; 2; 3] /\
  eval_names (subclasses E_d) (get_variant_names true true [1; 3]) = [2; 1; 3] /\
  disc_variants E_d 0 true = [1; 2; 3; 0].
Proof. repeat split; vm_compute; reflexivity. Qed.
