(* C08 - kernel K14 = arguments of the CodeBuilder that pack_dataclass creates for a nested
   dataclass that was not compiled before, translated from /repo on this run. *)
From Coq Require Import List String ZArith Bool.
From Verif Require Import PyK OptProj OptNested OptEnc K14Proofs.
From VerifGen Require Import K14.
Import ListNotations.
Open Scope string_scope.

(* whatever the owner's Config.dialect (cd) and type arguments are, the nested builder gets the
   compiling builder's default dialect and dialect *)
Theorem K14_passdown : forall dd d cd ta : kv,
  nested_default_dialect dd d cd ta = Ok dd /\ nested_dialect dd d cd ta = Ok d.
Proof. exact K14_passdown_lemma. Qed.
Print Assumptions K14_passdown.

Theorem K14_pass_dd : forall (dd d cd: option ns) (ta: kv),
  nested_default_dialect (enc_ons dd) (enc_ons d) (enc_ons cd) ta = Ok (enc_ons (pass_dd dd d cd)).
Proof. exact K14_pass_dd_lemma. Qed.
Print Assumptions K14_pass_dd.

(* non-vacuity: an owner with Config.dialect = {omit_none: True} and no default dialect *)
Example K14_passdown_example :
  nested_default_dialect KNone KNone (KNs [("omit_none", KBool true)]) (KTuple []) = Ok KNone.
Proof. reflexivity. Qed.
