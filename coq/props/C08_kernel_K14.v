(* C08 - kernel K14 = arguments of the CodeBuilder that pack_dataclass creates for a nested
   dataclass that was not compiled before, translated from /repo on this run. *)
From Coq Require Import List String ZArith Bool.
From Verif Require Import PyK OptProj OptNested OptEnc K14Proofs.
From VerifGen Require Import K14.
Import ListNotations.
Open Scope string_scope.

(* whatever the owner's Config.dialect (cd) and type arguments are, the nested builder gets the
   compiling builder's default dialect; its dialect is None under a mixin (nailed) builder -- the
   nested class is given its default method -- and the builder's dialect under a codec builder *)
Theorem K14_passdown : forall dd d cd ta nailed : kv,
  nested_default_dialect dd d cd ta nailed = Ok dd /\
  nested_dialect dd d cd ta nailed = Ok (if k_truthy nailed then KNone else d).
Proof. exact K14_passdown_lemma. Qed.
Print Assumptions K14_passdown.

Theorem K14_pass_dd : forall (dd d cd: option ns) (ta: kv) (nailed: bool),
  nested_default_dialect (enc_ons dd) (enc_ons d) (enc_ons cd) ta (KBool nailed) = Ok (enc_ons (pass_dd dd d cd)) /\
  nested_dialect (enc_ons dd) (enc_ons d) (enc_ons cd) ta (KBool nailed) = Ok (enc_ons (pass_dialect nailed d)).
Proof. exact K14_pass_dd_lemma. Qed.
Print Assumptions K14_pass_dd.

(* non-vacuity: a mixin owner with Config.dialect = {omit_none: True}, compiling under a call dialect *)
Example K14_passdown_example :
  nested_default_dialect KNone (KNs [("omit_none", KBool true)]) (KNs [("omit_none", KBool true)]) (KTuple []) (KBool true) = Ok KNone /\
  nested_dialect KNone (KNs [("omit_none", KBool true)]) (KNs [("omit_none", KBool true)]) (KTuple []) (KBool true) = Ok KNone.
Proof. split; reflexivity. Qed.
