(* C05 over kernel K19 (the emission loop of UnionUnpackerBuilder._add_body, unpack.py:176-242, translated from
   /repo to coq/gen/K19.v on every run): the union method the generator EMITS, executed with exception classes
   (`try: ... except Exception: pass` swallows exactly the classes deriving from Exception), is the union chain of
   the C05 model.  So the union theorems of C05_errors.v / C05_xtyped.v are theorems about the emitted program; an
   edit of the loop (order of members, a dropped final raise, a fallback outside its try, `except BaseException`
   would need K16) changes K19.v and these proofs are re-checked against it. *)
From Coq Require Import List String ZArith Bool.
From Verif Require Import Core TupleIdx TyModel Errs ErrsProofs ErrsTy ErrsX UnionModel UnionEmit K19Proofs ErrsEmit.
From VerifGen Require Import K19.
Import ListNotations.
Open Scope string_scope.
Open Scope list_scope.
Notation XValueError := Core.XValueError (only parsing).

(* for every member list, every behaviour of the member expressions (raising any class) and every input *)
Theorem C05_union_emitted : forall sc de final ms v, isval_by_key ms ->
  lines_c sc de final (emit ms) v = Errs.union_run (map (um sc de) ms) final v.
Proof. exact emit_c_correct. Qed.
Print Assumptions C05_union_emitted.

(* no hypothesis on the members: the emitted method is left with a value, with its own final exception, or with
   a BaseException-only class raised by a member expression -- never with another class *)
Theorem C05_union_emitted_exceptions : forall sc de final ms v e, isval_by_key ms ->
  lines_c sc de final (emit ms) v = Exn e -> e = final \/ is_exception e = false.
Proof.
  intros sc de final ms v e Hk H. rewrite (emit_c_correct sc de final ms v Hk) in H.
  exact (union_exceptions _ _ _ _ H).
Qed.
Print Assumptions C05_union_emitted_exceptions.

(* garbage that no member accepts (no None member, members raise Exception classes only) makes the EMITTED method
   raise its final exception *)
Theorem C05_union_emitted_rejects_partial : forall sc de final ms v, isval_by_key ms ->
  Forall (fun m => is_none_member m = false) (map (um sc de) ms) ->
  Forall (fun m => member_accepts m v = false) (map (um sc de) ms) ->
  Forall (fun m => member_tame m v = true) (map (um sc de) ms) ->
  lines_c sc de final (emit ms) v = Exn final.
Proof.
  intros sc de final ms v Hk Hn Ha Ht. rewrite (emit_c_correct sc de final ms v Hk).
  exact (union_rejects_garbage _ _ v Hn Ha Ht).
Qed.
Print Assumptions C05_union_emitted_rejects_partial.

(* the union positions of the typed model (ErrsX.xrun) ARE the emitted program of their member types *)
Theorem C05_x_union_emitted : forall E Q CF final ms v,
  xrun E Q CF final (XUnion ms) v = lines_c (x_sc E Q CF) (x_de E Q CF ms) (final v) (emit (xmspecs ms)) v.
Proof. exact xunion_emitted. Qed.
Print Assumptions C05_x_union_emitted.

(* ---------------------------------------------------------------- non-vacuity *)
(* Union[int, date, None, <date again: same expression text>]: what the translated loop emits *)
Definition ms_ex : list mspec := [SM KInt; NM 1 false (fun _ => None); SM KNone; NM 1 false (fun _ => None)].
Example C05_emit_ex_lines :
  emit ms_ex = [LValueType; LPlain (BIfRet (CVt (SM KInt))); LTry [BRet (NM 1 false (fun _ => None))];
                LPlain (BIfRet (CVt (SM KNone))); LTryRet (SM KInt); LTryRet (SM KNone); LRaise].
Proof. reflexivity. Qed.

Definition sc_ex (k: skind) (v: pv) : res pv :=
  match k with KNone => Ok VNone | _ => match v with VStr "12" => Ok (VInt 12) | _ => Exn XValueError end end.
Definition de_ex (raise: exn) (e: nat) (v: pv) : res pv :=
  match v with VStr "2020-01-02" => Ok (VLeaf "date" "2020-01-02") | _ => Exn raise end.
Definition ms_nonone : list mspec := [SM KInt; NM 1 false (fun _ => None)].

Example C05_emit_ex_runs :
  (* exact type *)
  lines_c sc_ex (de_ex XValueError) XValueError (emit ms_nonone) (VInt 5) = Ok (VInt 5)
  (* try member *)
  /\ lines_c sc_ex (de_ex XValueError) XValueError (emit ms_nonone) (VStr "2020-01-02") = Ok (VLeaf "date" "2020-01-02")
  (* fallback coercion *)
  /\ lines_c sc_ex (de_ex XValueError) XValueError (emit ms_nonone) (VStr "12") = Ok (VInt 12)
  (* final raise, mixin flavour *)
  /\ lines_c sc_ex (de_ex XTypeError) (XInvalidFieldValue "u" (VStr "zz") "K") (emit ms_nonone) (VStr "zz")
     = Exn (XInvalidFieldValue "u" (VStr "zz") "K")
  (* a BaseException-only class raised by a member is not swallowed by `except Exception` *)
  /\ lines_c sc_ex (de_ex (XOther "BaseKeyboardInterrupt")) XValueError (emit ms_nonone) (VStr "zz")
     = Exn (XOther "BaseKeyboardInterrupt")
  (* known finding union-none-fallback, on the emitted program *)
  /\ lines_c sc_ex (de_ex XValueError) XValueError (emit ms_ex) (VStr "garbage") = Ok VNone.
Proof. repeat split; reflexivity. Qed.

Definition Qe : eprims :=
  {| q_parse := fun k v => match v with VStr "2020-01-02" => Ok "2020-01-02" | VStr _ => Exn XValueError | _ => Exn XTypeError end;
     q_enum_of := fun _ _ => Exn XValueError;
     q_b64dec := fun _ => Exn XAttributeError;
     q_int := fun v => match v with VStr "12" => Ok 12%Z | VStr _ => Exn XValueError | _ => Exn XTypeError end;
     q_float := fun _ => Exn XTypeError;
     q_str := fun _ => Ok "s" |}.
Example C05_x_emit_ex :
  emit (xmspecs [SIntT; SLeaf "date"; SAny])
    = [LPlain (BIfRet (CTy (SM KInt))); LTry [BRet (NM 1 false (fun _ => None))]; LPlain (BRet (NM 2 true (fun _ => None)));
       LTryRet (SM KInt); LRaise]
  /\ lines_c (x_sc [] Qe (fun _ => no_cfg)) (x_de [] Qe (fun _ => no_cfg) [SIntT; SLeaf "date"]) XValueError
       (emit (xmspecs [SIntT; SLeaf "date"])) (VStr "2020-01-02") = Ok (VLeaf "date" "2020-01-02")
  /\ lines_c (x_sc [] Qe (fun _ => no_cfg)) (x_de [] Qe (fun _ => no_cfg) [SIntT; SLeaf "date"]) XValueError
       (emit (xmspecs [SIntT; SLeaf "date"])) (VList []) = Exn XValueError.
Proof. repeat split; reflexivity. Qed.
