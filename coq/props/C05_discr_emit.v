(* C05 over kernel K105c (the prologue of the dispatcher emitted by DiscriminatedUnionUnpackerBuilder._add_body for a
   discriminator with a field, unpack.py:395-469, translated from /repo to coq/gen/K105c.v on every run): reading the tag
   and testing that it is hashable, executed with exception classes, raises exactly what the model's dispatcher
   (Errs.discr_run) raises before its registry lookup -- MissingDiscriminatorError for a missing key, ValueError
   for a non-mapping input, SuitableVariantNotFoundError for an unhashable tag -- and otherwise hands on the tag. *)
From Coq Require Import List String ZArith Bool.
From Verif Require Import Core Errs ErrsDiscrEmit K105cProofs.
From VerifGen Require Import K105c.
Import ListNotations.
Open Scope string_scope.

Theorem C05_discr_prologue_exn : forall field reg v e,
  run_prologue field v prologue = Exn e -> discr_run field reg v = Exn e.
Proof. exact prologue_exn. Qed.
Print Assumptions C05_discr_prologue_exn.

Theorem C05_discr_prologue_ok : forall field reg v t,
  run_prologue field v prologue = Ok t ->
  exists tag, t = Some tag /\ py_getitem_str v field = Ok tag /\ hashable tag = true /\
              discr_run field reg v = match reg_lookup reg tag with None => Exn XNoVariant | Some dec => dec v end.
Proof. exact prologue_ok. Qed.
Print Assumptions C05_discr_prologue_ok.

(* the classes that can leave the emitted prologue *)
Theorem C05_discr_prologue_classes : forall field v e,
  run_prologue field v prologue = Exn e ->
  e = XMissingDiscriminator field \/ e = XValueError \/ e = XNoVariant.
Proof.
  intros field v e H. rewrite prologue_tag_read in H. unfold tag_read in H.
  unfold py_getitem_str in H. destruct v; try (cbn in H; inversion H; auto; fail).
  destruct (d_lookup kvs (VStr field)) as [t|]; cbn in H.
  - destruct (hashable t); cbn in H; inversion H; auto.
  - inversion H; auto.
Qed.
Print Assumptions C05_discr_prologue_classes.

Example C05_discr_prologue_ex :
  prologue = [DTry [DReadTag] [(DKeyError, [DRaiseMissing]); (DTypeError, [DIfNotDict [DRaiseValueError] [DReraise]])];
              DTry [DHash] [(DTypeError, [DRaiseNoVariant])]]
  /\ run_prologue "type" (VDict [(VStr "type", VStr "circle")]) prologue = Ok (Some (VStr "circle"))
  /\ run_prologue "type" (VDict [(VStr "r", VInt 1)]) prologue = Exn (XMissingDiscriminator "type")
  /\ run_prologue "type" (VList [VInt 1]) prologue = Exn XValueError
  /\ run_prologue "type" (VDict [(VStr "type", VList [VInt 1])]) prologue = Exn XNoVariant.
Proof. repeat split; reflexivity. Qed.
