(* C12 - discriminated unions pick exactly the tagged class in any definition order.
   Model: Verif.Discr (state machine), reference notions: Verif.DiscrSpec. *)
From Coq Require Import List Arith Bool.
From Verif Require Import Discr DiscrSpec DiscrProofs DiscrRef.
Import ListNotations.

(* invariant over arbitrary histories: every registry of every site holds only true bindings
   (an eligible class defined so far that carries the tag) - a stale entry is never wrong *)
Theorem C12_registry_invariant : forall acc sites ops i s t c,
  nth_error sites i = Some s ->
  In (t, c) (get_reg (i, 0) (regs (final acc sites ops))) -> carries (defs ops) s c t.
Proof. exact registry_invariant'. Qed.
Print Assumptions C12_registry_invariant.

(* after ANY history [pre] (decodes through any sites interleaved with definitions), decoding an input tagged t
   through a field site SELECTS exactly the eligible class defined so far that carries t (which then accepts the input
   -> instance, or rejects it -> its own error), SuitableVariantNotFound iff there is none, never anything else *)
Theorem C12_registry : forall acc sites pre i s inp t present,
  nth_error sites i = Some s -> s_field s = true -> site_ok s (length (defs pre)) = true ->
  assoc (s_fid s) inp = Some (Hashable t) ->          (* the site's key is present in the input and its value is t *)
  tag_unique (defs pre) s t -> plain_carriers sites (defs pre) s t ->
  exists o, snd (step acc sites (final acc sites pre) (Decode i inp present)) = Some o
            /\ field_spec acc (defs pre) s t present o.
Proof. intros acc sites pre i s inp t present Hs Hf OK. exact (decode_field_correct acc sites pre i s inp t present Hs Hf OK eq_refl). Qed.
Print Assumptions C12_registry.

(* the selected class's own KeyError surfaces as such (fix C12-variant-keyerror-misreported: only the registry lookup is
   guarded): carrier with a raising hook -> OKeyErr, not "no suitable variant" *)
Definition s_ke : site := Site [0] true false true false false false 0 0 false.
Definition h_ke : list op := [Define [] [] [] [] false; Define [0] [(0, 1)] [] [] true].
(* ... and so does its AttributeError (the other exception class the lookup handler names) *)
Example C12_variant_attributeerror_surfaces :
  snd (step acc_req [s_ke] (final acc_req [s_ke] h_ke) (Decode 0 [(0, Hashable 1)] [aerr_marker])) = Some (OAttrErr 1)
  /\ field_spec acc_req (defs h_ke) s_ke 1 [aerr_marker] (OAttrErr 1).
Proof.
  split; [reflexivity|].
  assert (U: tag_unique (defs h_ke) s_ke 1).
  { apply (proj1 (tag_uniqueb_iff (defs h_ke) s_ke 1 (wf_defs h_ke) eq_refl)). reflexivity. }
  destruct (C12_registry acc_req [s_ke] h_ke 0 s_ke [(0, Hashable 1)] 1 [aerr_marker] eq_refl eq_refl eq_refl eq_refl U
              (fun c _ => eq_refl)) as [o [E S]].
  vm_compute in E. injection E as <-. exact S.
Qed.

Example C12_variant_keyerror_surfaces :
  snd (step acc_req [s_ke] (final acc_req [s_ke] h_ke) (Decode 0 [(0, Hashable 1)] [kerr_marker])) = Some (OKeyErr 1)
  /\ snd (step acc_req [s_ke] (final acc_req [s_ke] h_ke) (Decode 0 [(0, Hashable 1)] [])) = Some (OInst 1).
Proof. vm_compute. split; reflexivity. Qed.

(* FULL STRENGTH, no hypothesis about nested dispatchers: after ANY history the stateful dispatcher (registries, refills,
   retries, nested class-level dispatchers of either mode, rejecting classes) answers exactly what the registry-free
   reference semantics [ref_decode] says for the classes defined so far - provided only that every tag the input carries
   is carried by at most one eligible class at the dispatcher that reads it (uniq_all; computable: uniq_allb) *)
Theorem C12_dispatch_ref : forall acc sites pre i inp present,
  uniq_all sites (defs pre) inp ->
  snd (step acc sites (final acc sites pre) (Decode i inp present)) = Some (ref_decode acc sites (defs pre) i inp present).
Proof. intros acc sites pre i inp present UA. exact (decode_ref acc sites pre i inp present UA (no_crash_always sites)). Qed.
Print Assumptions C12_dispatch_ref.

Theorem C12_history_independent_full : forall acc sites pre1 pre2 i inp present,
  defs pre1 = defs pre2 -> uniq_all sites (defs pre1) inp ->
  snd (step acc sites (final acc sites pre1) (Decode i inp present))
  = snd (step acc sites (final acc sites pre2) (Decode i inp present)).
Proof.
  intros acc sites pre1 pre2 i inp present E UA.
  exact (history_independent_ref acc sites pre1 pre2 i inp present E UA (no_crash_always sites)).
Qed.
Print Assumptions C12_history_independent_full.

(* the relational theorems WITHOUT plain_carriers / no_nested (corollaries of C12_dispatch_ref): the unique class that
   carries the tag is ENTERED - a plain class gives an instance or its own error, a class with its own class-level
   discriminator answers through that dispatcher on the same input; nobody carries it -> SuitableVariantNotFound *)
Theorem C12_registry_nested : forall acc sites pre i s inp t present o,
  nth_error sites i = Some s -> s_field s = true -> site_ok s (length (defs pre)) = true ->
  assoc (s_fid s) inp = Some (Hashable t) -> uniq_all sites (defs pre) inp ->
  snd (step acc sites (final acc sites pre) (Decode i inp present)) = Some o ->
  (forall c, carries (defs pre) s c t -> o = ref_enter acc sites (defs pre) (S (length (defs pre))) inp present c)
  /\ ((forall c, ~ carries (defs pre) s c t) -> o = ONotFound).
Proof. exact registry_nested. Qed.
Print Assumptions C12_registry_nested.

(* no-field mode with nested dispatchers of either mode among the variants: the first class in walk order (subclasses
   before supertypes) whose entering yields an instance *)
Theorem C12_nofield_nested : forall acc sites pre i s inp present,
  nth_error sites i = Some s -> s_field s = false -> site_ok s (length (defs pre)) = true ->
  uniq_all sites (defs pre) inp ->
  snd (step acc sites (final acc sites pre) (Decode i inp present))
  = Some (ref_loop (ref_enter acc sites (defs pre) (S (length (defs pre))) inp present) (variants (defs pre) s)).
Proof. exact nofield_nested. Qed.
Print Assumptions C12_nofield_nested.

(* FORMATS.  A class whose mixins provide from_msgpack / orjson's from_json / ... gets one dispatcher per format; the
   dispatchers of a class-level discriminator share ONE registry attribute (__mashumaro_subtype_variants__), but every
   variant needs its OWN method of that format (__mashumaro_from_dict_<format>__), which only a refill (or a no-field
   loop) compiles: a registered variant without it is a miss (raise AttributeError -> refill -> retry).  State: [comp]
   (class, format) pairs, [cur] the format of the running call.  After ANY history - calls in any formats interleaved
   with definitions - a call in ANY format answers the registry-free reference, under the same single hypothesis. *)
Theorem C12_dispatch_ref_fmt : forall acc sites pre f i inp present,
  uniq_all sites (defs pre) inp ->
  snd (step acc sites (final acc sites pre) (DecodeF f i inp present)) = Some (ref_decode acc sites (defs pre) i inp present).
Proof. intros acc sites pre f i inp present UA. exact (decode_ref_fmt acc sites pre f i inp present UA (no_crash_always sites)). Qed.
Print Assumptions C12_dispatch_ref_fmt.

(* the format of the call and the formats of all earlier calls are irrelevant *)
Theorem C12_format_independent : forall acc sites pre1 pre2 f1 f2 i inp present,
  defs pre1 = defs pre2 -> uniq_all sites (defs pre1) inp ->
  snd (step acc sites (final acc sites pre1) (DecodeF f1 i inp present))
  = snd (step acc sites (final acc sites pre2) (DecodeF f2 i inp present))
  /\ snd (step acc sites (final acc sites pre1) (DecodeF f1 i inp present))
     = snd (step acc sites (final acc sites pre2) (Decode i inp present)).
Proof.
  intros acc sites pre1 pre2 f1 f2 i inp present E UA.
  exact (format_independent acc sites pre1 pre2 f1 f2 i inp present E UA (no_crash_always sites)).
Qed.
Print Assumptions C12_format_independent.

(* between two calls the "format of the running call" is 0: a plain Decode always runs the format-0 dispatcher *)
Theorem C12_format_reset : forall acc sites ops, cur (final acc sites ops) = 0.
Proof. exact final_cur. Qed.
Print Assumptions C12_format_reset.

(* non-vacuity (and the reason [comp] is part of the state): class-level root 0, subclass 1 tagged 1, from_dict fills
   the shared registry; subclass 2 arrives with the SAME tag (outside the property: not unique).  from_dict keeps
   answering the stale class 1; from_msgpack finds class 1 registered but WITHOUT its own msgpack method -> miss ->
   refill -> class 2; and from then on from_dict answers class 2 as well.  (Observed on the real library.)
   With a unique tag (class 3, tag 7) every format gives class 3, and class 3 then has its msgpack method. *)
Definition s_cfg : site := Site [0] true false true false true false 0 0 false.
Definition h_fmt : list op :=
  [Define [] [] [] [] false; Define [0] [(0, 1)] [] [] false; Decode 0 [(0, Hashable 1)] [];
   Define [0] [(0, 1)] [] [] false; Define [0] [(0, 7)] [] [] false].
Example C12_format_nonvacuous :
  snd (step acc_req [s_cfg] (final acc_req [s_cfg] h_fmt) (Decode 0 [(0, Hashable 1)] [])) = Some (OInst 1)
  /\ snd (step acc_req [s_cfg] (final acc_req [s_cfg] h_fmt) (DecodeF 1 0 [(0, Hashable 1)] [])) = Some (OInst 2)
  /\ snd (step acc_req [s_cfg] (final acc_req [s_cfg] (h_fmt ++ [DecodeF 1 0 [(0, Hashable 1)] []])) (Decode 0 [(0, Hashable 1)] [])) = Some (OInst 2)
  /\ uniq_allb [s_cfg] (defs h_fmt) [(0, Hashable 7)] = true
  /\ snd (step acc_req [s_cfg] (final acc_req [s_cfg] h_fmt) (DecodeF 2 0 [(0, Hashable 7)] [])) = Some (OInst 3)
  /\ ref_decode acc_req [s_cfg] (defs h_fmt) 0 [(0, Hashable 7)] [] = OInst 3
  /\ comp (final acc_req [s_cfg] (h_fmt ++ [DecodeF 2 0 [(0, Hashable 7)] []])) = [(1, 2); (2, 2); (3, 2)]
  /\ has_method false (set_cur 2 (final acc_req [s_cfg] h_fmt)) 1 = false.
Proof. vm_compute. repeat split. Qed.

Theorem C12_uniq_all_decidable : forall sites ops inp, uniq_allb sites (defs ops) inp = true -> uniq_all sites (defs ops) inp.
Proof. intros sites ops inp. apply uniq_allb_sound, wf_defs. Qed.
Print Assumptions C12_uniq_all_decidable.

(* ONE from_dict call of a holder with several discriminated fields = the list of its (site, sub-input) pairs: every
   field is decided by its OWN site - own registry, own key, own tagger function (seq_spec: each field satisfies the
   field_spec of its own site; the first failing field decides the error).  The sites do not interfere: this is what
   /repo fix 79143aa (one tagger name per dispatcher) repaired. *)
Theorem C12_multi_field : forall acc sites pre l,
  (forall e, In e l -> entry_ok sites (defs pre) e) ->
  exists o, snd (step acc sites (final acc sites pre) (DecodeSeq l)) = Some o
            /\ seq_spec acc (defs pre) sites l [] o.
Proof. exact multi_field_correct. Qed.
Print Assumptions C12_multi_field.

(* the site's key is absent  =>  MissingDiscriminator, state untouched (the converse for the selected class is the
   `o <> OMissing` of field_spec; the hypothesis-free converse is the next theorem) *)
Theorem C12_missing_tag : forall acc sites pre i s inp present,
  nth_error sites i = Some s -> s_field s = true -> site_ok s (length (defs pre)) = true ->
  assoc (s_fid s) inp = None ->
  step acc sites (final acc sites pre) (Decode i inp present) = (final acc sites pre, Some OMissing).
Proof. exact missing_tag. Qed.
Print Assumptions C12_missing_tag.

(* a value under the key that is not hashable (a list, a dict) cannot be anybody's tag: SuitableVariantNotFound, without
   lookup or refill (/repo db5b89f) *)
Theorem C12_unhashable_tag : forall acc sites pre i s inp present,
  nth_error sites i = Some s -> s_field s = true -> site_ok s (length (defs pre)) = true ->
  assoc (s_fid s) inp = Some Unhashable ->
  step acc sites (final acc sites pre) (Decode i inp present) = (final acc sites pre, Some ONotFound).
Proof. exact unhashable_tag. Qed.
Print Assumptions C12_unhashable_tag.

(* an input that is not a mapping: a field dispatcher answers ValueError "should be a dict instance" (/repo 60866ea),
   in no-field mode no class accepts it; state untouched *)
Theorem C12_non_mapping : forall acc sites pre i s,
  nth_error sites i = Some s -> site_ok s (length (defs pre)) = true ->
  step acc sites (final acc sites pre) (DecodeBad i)
  = (final acc sites pre, Some (if s_field s then ONotDict else ONotFound)).
Proof. exact non_mapping. Qed.
Print Assumptions C12_non_mapping.

(* ... and only then: if the keys of all field dispatchers are present in the input - whatever their values (falsy ones,
   None as a value) - nothing is reported missing: every state, every site, any depth and mix of nested dispatchers, no
   other hypothesis. *)
Theorem C12_present_keys_not_missing : forall acc sites x i inp present,
  keys_present sites inp -> snd (step acc sites x (Decode i inp present)) <> Some OMissing.
Proof. exact present_keys_not_missing. Qed.
Print Assumptions C12_present_keys_not_missing.

(* two histories (even over different site lists, different other keys in the input) that defined the same classes
   give the same answer *)
Theorem C12_history_independent : forall acc sites1 sites2 pre1 pre2 i1 i2 s inp1 inp2 t present,
  nth_error sites1 i1 = Some s -> nth_error sites2 i2 = Some s -> s_field s = true ->
  assoc (s_fid s) inp1 = Some (Hashable t) -> assoc (s_fid s) inp2 = Some (Hashable t) ->
  defs pre1 = defs pre2 -> site_ok s (length (defs pre1)) = true -> tag_unique (defs pre1) s t ->
  plain_carriers sites1 (defs pre1) s t -> plain_carriers sites2 (defs pre1) s t ->
  snd (step acc sites1 (final acc sites1 pre1) (Decode i1 inp1 present))
  = snd (step acc sites2 (final acc sites2 pre2) (Decode i2 inp2 present)).
Proof.
  intros acc sites1 sites2 pre1 pre2 i1 i2 s inp1 inp2 t present H1 H2 Hf T1 T2 E OK.
  exact (history_independent acc sites1 sites2 pre1 pre2 i1 i2 s inp1 inp2 t present H1 H2 Hf T1 T2 E OK eq_refl).
Qed.
Print Assumptions C12_history_independent.

(* include_subtypes / include_supertypes bound exactly the classes that are tried: the walk
   (iter_all_subclasses of every base, then the bases) = transitive subclasses / the bases *)
Theorem C12_eligible_exact : forall ops s c,
  In c (variants (defs ops) s) <-> eligible (defs ops) s c.
Proof. intros ops s c. apply variants_spec, wf_defs. Qed.
Print Assumptions C12_eligible_exact.

(* no-field mode: stateless; the answer is the first class in (subclasses in walk order, then
   supertypes) that accepts; a supertype only if no eligible subclass accepts; NotFound iff nobody accepts *)
Theorem C12_nofield : forall acc sites pre i s t present,
  nth_error sites i = Some s -> s_field s = false -> site_ok s (length (defs pre)) = true ->
  no_nested sites (defs pre) s ->
  exists o, step acc sites (final acc sites pre) (Decode i t present) = (final acc sites pre, Some o)
            /\ nofield_spec acc (defs pre) s present o.
Proof. exact nofield_correct. Qed.
Print Assumptions C12_nofield.

(* the statements above speak about the k-th output of a run *)
Theorem C12_trace_event : forall acc sites pre o post,
  nth_error (run acc sites (pre ++ o :: post)) (length pre) = Some (snd (step acc sites (final acc sites pre) o)).
Proof. exact trace_event. Qed.
Print Assumptions C12_trace_event.

(* the domain predicate evaluated by the harness is the hypothesis of C12_registry *)
Theorem C12_tag_unique_decidable : forall ops s t, site_ok s (length (defs ops)) = true ->
  (tag_uniqueb (defs ops) s t = true <-> tag_unique (defs ops) s t).
Proof. intros ops s t. apply tag_uniqueb_iff, wf_defs. Qed.
Print Assumptions C12_tag_unique_decidable.

(* Remark (not a violation: the property is silent when two eligible classes share a tag): without
   uniqueness the answer depends on the history - a registry filled before the second class was
   defined keeps the first class, a fresh one answers with the last class of the walk. *)
Definition s_demo : site := Site [0] true false true false false false 0 0 false.
Definition h_stale : list op :=
  [Define [] [] [] [] false; Define [0] [(0, 1)] [] [] false; Decode 0 [(0, Hashable 1)] []; Define [0] [(0, 1)] [] [] false].
Definition h_fresh : list op :=
  [Define [] [] [] [] false; Define [0] [(0, 1)] [] [] false; Define [0] [(0, 1)] [] [] false].

Theorem C12_nonunique_order_dependent :
  defs h_stale = defs h_fresh
  /\ snd (step acc_req [s_demo] (final acc_req [s_demo] h_stale) (Decode 0 [(0, Hashable 1)] [])) = Some (OInst 1)
  /\ snd (step acc_req [s_demo] (final acc_req [s_demo] h_fresh) (Decode 0 [(0, Hashable 1)] [])) = Some (OInst 2).
Proof. vm_compute. repeat split. Qed.
Print Assumptions C12_nonunique_order_dependent.

(* Remark (documented: "you can't use include_supertypes=True" for the class-level form): a class that declares
   its own class-level discriminator is a dispatcher over its strict subclasses, so a tag carried by such a
   class is answered by SuitableVariantNotFound - this is what the hypothesis plain_carriers excludes. *)
Definition sites_nested : list site :=
  [Site [0] true false true false true false 0 0 false; Site [1] true false true false true false 0 0 false].
Definition h_nested : list op := [Define [] [] [] [] false; Define [0] [(0, 1)] [] [] false; Define [1] [(0, 2)] [] [] false].
Theorem C12_class_level_self_excluded :
  carries (defs h_nested) (Site [0] true false true false true false 0 0 false) 1 1
  /\ snd (step acc_req sites_nested (final acc_req sites_nested h_nested) (Decode 0 [(0, Hashable 1)] [])) = Some ONotFound
  /\ snd (step acc_req sites_nested (final acc_req sites_nested h_nested) (Decode 0 [(0, Hashable 2)] [])) = Some (OInst 2).
Proof.
  split; [|vm_compute; split; reflexivity].
  split; [|exists (Cls [0] [(0, 1)] [] [] false); split; [reflexivity | left; reflexivity]].
  left. split; [reflexivity|]. exists 0. split; [left; reflexivity|].
  apply desc_child. exists (Cls [0] [(0, 1)] [] [] false). split; [reflexivity | left; reflexivity].
Qed.
Print Assumptions C12_class_level_self_excluded.

(* Former known finding C12/nofield-inherited-unpacker (repaired by /repo 233f7d4: an unpacker that is only INHERITED
   counts as not compiled): no-field mode has no state at all - the answer through site 1 is C1 whether or not C0's
   unpacker was compiled by an earlier decode through another site (instance of C12_nofield). *)
Definition pl_sites : list site :=
  [Site [0] false true false false false false 0 0 false; Site [1] false true false false false false 0 0 false].
Definition pl_pre : list op := [Define [] [] [] [0] false; Define [0] [] [] [1] false; Decode 0 [] [0]].
Theorem C12_nofield_plain_holder :
  snd (step acc_req pl_sites (final acc_req pl_sites pl_pre) (Decode 1 [] [0; 1])) = Some (OInst 1)
  /\ snd (step acc_req pl_sites (final acc_req pl_sites [Define [] [] [] [0] false; Define [0] [] [] [1] false]) (Decode 1 [] [0; 1])) = Some (OInst 1)
  /\ nofield_spec acc_req (defs pl_pre) (Site [1] false true false false false false 0 0 false) [0; 1] (OInst 1).
Proof.
  split; [reflexivity|]. split; [reflexivity|].
  destruct (C12_nofield acc_req pl_sites pl_pre 1 (Site [1] false true false false false false 0 0 false) [] [0; 1]
              eq_refl eq_refl eq_refl (fun c _ => eq_refl)) as [o [E S]].
  vm_compute in E. injection E as <-. exact S.
Qed.
Print Assumptions C12_nofield_plain_holder.

(* Two levels of class-level dispatchers with DIFFERENT keys (outer key 0, inner key 1): outer tag valid, inner key
   absent -> MissingDiscriminator (the inner error is not a KeyError, the outer dispatcher lets it through); inner key
   present -> the inner subclass; the stale/fresh state of either registry is irrelevant. *)
Definition sites_2key : list site :=
  [Site [0] true false true false true false 0 0 false; Site [1] true false true false true false 1 0 false].
Definition h_2key : list op := [Define [] [] [] [] false; Define [0] [(0, 5)] [] [] false; Define [1] [(1, 7)] [] [] false].
Theorem C12_nested_missing_key :
  snd (step acc_req sites_2key (final acc_req sites_2key h_2key) (Decode 0 [(0, Hashable 5)] [])) = Some OMissing
  /\ snd (step acc_req sites_2key (final acc_req sites_2key h_2key) (Decode 0 [(0, Hashable 5); (1, Hashable 7)] [])) = Some (OInst 2)
  /\ snd (step acc_req sites_2key (final acc_req sites_2key h_2key) (Decode 0 [(0, Hashable 5); (1, Hashable 8)] [])) = Some ONotFound
  /\ snd (step acc_req sites_2key (final acc_req sites_2key h_2key) (Decode 0 [(1, Hashable 7)] [])) = Some OMissing.
Proof. vm_compute. repeat split. Qed.
Print Assumptions C12_nested_missing_key.

(* ---- non-vacuity: the hypotheses of C12_registry hold on a history with a stale registry, a class
   without own tag, a class defined after the first call, and the conclusion pins the late class *)
Definition h_late : list op :=
  [Define [] [] [] [] false; Define [0] [(0, 1)] [] [] false; Decode 0 [(0, Hashable 1)] []; Decode 0 [(0, Hashable 3)] [];
   Define [1] [] [] [] false; Define [2] [(0, 3)] [] [] false].

Example C12_registry_nonvacuous :
  site_ok s_demo (length (defs h_late)) = true
  /\ tag_unique (defs h_late) s_demo 3
  /\ snd (step acc_req [s_demo] (final acc_req [s_demo] h_late) (Decode 0 [(0, Hashable 3)] [])) = Some (OInst 3)
  /\ carries (defs h_late) s_demo 3 3
  /\ nth_error (run acc_req [s_demo] h_late) 3 = Some (Some ONotFound).
Proof.
  split; [reflexivity|]. split.
  - apply (proj1 (C12_tag_unique_decidable h_late s_demo 3 eq_refl)). reflexivity.
  - split; [reflexivity|]. split; [|reflexivity].
    destruct (C12_registry acc_req [s_demo] h_late 0 s_demo [(0, Hashable 3)] 3 [] eq_refl eq_refl eq_refl eq_refl
                (proj1 (C12_tag_unique_decidable h_late s_demo 3 eq_refl) eq_refl)
                (fun c _ => eq_refl)) as [o [E S]].
    vm_compute in E. injection E as <-. apply (proj1 (proj1 S 3) eq_refl).
Qed.

(* non-vacuity of C12_multi_field: a holder with two discriminated fields over two hierarchies with different tagger
   functions (ids 0 and 1) and different keys; the same tag value means different classes at the two sites *)
Definition sites_mf : list site :=
  [Site [0] true false true true false false 0 0 false; Site [1] true false true true false false 1 1 false].
Definition h_mf : list op :=
  [Define [] [] [] [] false; Define [] [] [] [] false;
   Define [0] [] [(0, [5]); (1, [6])] [] false; Define [1] [] [(0, [6]); (1, [5])] [] false].
Example C12_multi_field_nonvacuous :
  snd (step acc_req sites_mf (final acc_req sites_mf h_mf) (DecodeSeq [(0, [(0, Hashable 5)], []); (1, [(1, Hashable 5)], [])])) = Some (OMany [2; 3])
  /\ snd (step acc_req sites_mf (final acc_req sites_mf h_mf) (DecodeSeq [(0, [(0, Hashable 5)], []); (1, [(1, Hashable 6)], [])])) = Some ONotFound
  /\ snd (step acc_req sites_mf (final acc_req sites_mf h_mf) (DecodeSeq [(0, [(0, Hashable 6)], []); (1, [], [])])) = Some ONotFound
  /\ snd (step acc_req sites_mf (final acc_req sites_mf h_mf) (DecodeSeq [(0, [(0, Hashable 5)], []); (1, [], [])])) = Some OMissing.
Proof. vm_compute. repeat split. Qed.

(* mixed nesting, in the model: a no-field class-level dispatcher below a field one and a field one below a no-field
   one (class 1 dispatches its subclasses by acceptance, class 4 by key 0) *)
Definition sites_mix : list site :=
  [Site [0] true false true false true false 0 0 false; Site [1] true false false false true false 0 0 false;
   Site [4] true false true false true false 0 0 false].
Definition h_mix : list op :=
  [Define [] [] [] [] false; Define [0] [(0, 1)] [] [] false; Define [1] [] [] [7] false; Define [1] [] [] [8] false;
   Define [1] [] [] [9] false; Define [4] [(0, 2)] [] [] false].
Example C12_mixed_nesting :
  snd (step acc_req sites_mix (final acc_req sites_mix h_mix) (Decode 0 [(0, Hashable 1)] [8])) = Some (OInst 3)
  /\ snd (step acc_req sites_mix (final acc_req sites_mix h_mix) (Decode 0 [(0, Hashable 1)] [])) = Some ONotFound
  /\ snd (step acc_req sites_mix (final acc_req sites_mix h_mix) (Decode 1 [(0, Hashable 2)] [9])) = Some (OInst 5)
  /\ snd (step acc_req sites_mix (final acc_req sites_mix h_mix) (Decode 1 [] [9])) = Some (OInst 5)
  /\ snd (step acc_req sites_mix (final acc_req sites_mix h_mix) (Decode 0 [(0, Hashable 2)] [])) = Some (ORej 5).
Proof. vm_compute. repeat split. Qed.

(* no-field mode: subclass wins over the base although the base accepts too; base only as a last resort *)
Definition s_nf : site := Site [0] true true false false false false 0 0 false.
Definition h_nf : list op := [Define [] [] [] [0] false; Define [0] [] [] [1] false; Define [0] [] [] [2] false].
Example C12_nofield_nonvacuous :
  snd (step acc_req [s_nf] (final acc_req [s_nf] h_nf) (Decode 0 [] [0; 2])) = Some (OInst 2)
  /\ snd (step acc_req [s_nf] (final acc_req [s_nf] h_nf) (Decode 0 [] [0])) = Some (OInst 0)
  /\ snd (step acc_req [s_nf] (final acc_req [s_nf] h_nf) (Decode 0 [] [1])) = Some ONotFound.
Proof. vm_compute. repeat split. Qed.

(* non-vacuity of C12_dispatch_ref: the mixed nesting above (field -> no-field -> field) satisfies uniq_allb, and the
   reference semantics gives the nested answers *)
Example C12_dispatch_ref_nonvacuous :
  uniq_allb sites_mix (defs h_mix) [(0, Hashable 1)] = true
  /\ ref_decode acc_req sites_mix (defs h_mix) 0 [(0, Hashable 1)] [8] = OInst 3
  /\ ref_decode acc_req sites_mix (defs h_mix) 1 [(0, Hashable 2)] [9] = OInst 5
  /\ ref_decode acc_req sites_mix (defs h_mix) 0 [(0, Hashable 2)] [] = ORej 5.
Proof. vm_compute. repeat split. Qed.

(* non-vacuity of C12_registry_nested: in h_mix the class carrying tag 1 at the root (class 1) is a NO-FIELD dispatcher;
   the theorem pins the answer to that dispatcher's answer (class 3 for fields {8}) *)
Example C12_registry_nested_nonvacuous :
  carries (defs h_mix) (Site [0] true false true false true false 0 0 false) 1 1
  /\ ref_enter acc_req sites_mix (defs h_mix) (S (length (defs h_mix))) [(0, Hashable 1)] [8] 1 = OInst 3
  /\ snd (step acc_req sites_mix (final acc_req sites_mix h_mix) (Decode 0 [(0, Hashable 1)] [8])) = Some (OInst 3).
Proof.
  split; [|vm_compute; split; reflexivity].
  split; [|exists (Cls [0] [(0, 1)] [] [] false); split; [reflexivity | left; reflexivity]].
  left. split; [reflexivity|]. exists 0. split; [left; reflexivity|].
  apply desc_child. exists (Cls [0] [(0, 1)] [] [] false). split; [reflexivity | left; reflexivity].
Qed.
