(* C17: a reused specialised method is bound to the classes of the specialisation that first produced its key; the key
   (model: md5 of the ","-joined Render.render of the type arguments; real: hash_type_args, form checked by the K11 plugin and
   value compared per run) identifies the ordered list of argument CLASSES whenever their renderings do. *)
From Coq Require Import List String Bool.
From Verif Require Import Render SpecKey C17SpecKey.
Import ListNotations.
Open Scope string_scope.

Theorem C17_spec_key_identity : forall (md5 : string -> string),
  (forall a b, md5 a = md5 b -> a = b) ->
  forall args1 args2,
    args1 <> [] -> args2 <> [] ->
    forallb comma_free (key_names args1) = true -> forallb comma_free (key_names args2) = true ->
    (forall a b, In a args1 -> In b args2 -> render false a = render false b -> a = b) ->
    spec_key md5 args1 = spec_key md5 args2 -> args1 = args2.
Proof. exact spec_key_identity. Qed.
Print Assumptions C17_spec_key_identity.

(* a key made of short names (module dropped) does not have the property: api_v1.Item / api_v2.Item *)
Theorem C17_short_key_refuted : ~ short_key_identity.
Proof. exact short_key_refuted. Qed.
Print Assumptions C17_short_key_refuted.

Theorem C17_spec_key_modules : forall md5, (forall a b, md5 a = md5 b -> a = b) ->
  spec_key md5 [RNamed "api_v1" "Item"] <> spec_key md5 [RNamed "api_v2" "Item"].
Proof. exact spec_key_modules. Qed.
Print Assumptions C17_spec_key_modules.
