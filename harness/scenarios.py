"""Hand-structured, randomised schema families that the tree generator (gen.py) does not
reach: generic dataclasses with several specialisations (permuted, nested and same-named
type arguments coming from different modules), inheritance with overriding, first-use
order.  Each scenario is self-contained source text (aux modules + main) plus expressions
for the root type and values, so replays can rebuild it."""
from __future__ import annotations

import itertools
import sys

from harness import gen

_ctr = itertools.count()

AUX_A = """import enum
from dataclasses import dataclass
class Status(enum.Enum):
    OPEN = "open"
    DONE = "done"
@dataclass
class Item:
    v: int
    w: str = "a"
"""
AUX_B = """import enum
from dataclasses import dataclass
class Status(enum.Enum):
    OPEN = 1
    DONE = 2
@dataclass
class Item:
    v: str
    w: int = 0
"""


def generic_scenario(rng):
    """returns dict(mods={name: src}, main=src, type=expr, values=[expr...], name=...)"""
    i = next(_ctr)
    ma, mb = f"verif_sc{i}_orders", f"verif_sc{i}_payments"
    mixin = rng.random() < 0.5
    base = "(DataClassDictMixin)" if mixin else ""
    gbase_page = "(Generic[T], DataClassDictMixin)" if mixin and rng.random() < 0.5 else "(Generic[T])"
    gbase_pair = "(Generic[T, U])"
    fields = [
        ("p1", f"Page[{ma}.Status]", f"Page({ma}.Status.OPEN, [{ma}.Status.DONE, {ma}.Status.OPEN])"),
        ("p2", f"Page[{mb}.Status]", f"Page({mb}.Status.DONE, [{mb}.Status.OPEN])"),
        ("i1", f"Page[{ma}.Item]", f"Page({ma}.Item(1, 'x'), [{ma}.Item(2)])"),
        ("i2", f"Page[{mb}.Item]", f"Page({mb}.Item('1', 5), [{mb}.Item('2')])"),
        ("q1", "Pair[int, str]", "Pair(1, '2')"),
        ("q2", "Pair[str, int]", "Pair('1', 2)"),
        ("q3", "Pair[datetime.date, int]", "Pair(datetime.date(2020, 1, 2), 3)"),
        ("q4", "Pair[int, datetime.date]", "Pair(4, datetime.date(2021, 3, 4))"),
        ("n1", "Page[Pair[int, str]]", "Page(Pair(1, 'a'), [])"),
        ("n2", "Page[Pair[str, int]]", "Page(Pair('b', 2), [Pair('c', 3)])"),
        ("l1", "List[Page[int]]", "[Page(1, [2, 3])]"),
        ("l2", "Dict[str, Page[str]]", "{'k': Page('1', ['2'])}"),
        ("o1", f"Optional[Pair[{ma}.Status, {mb}.Status]]", f"Pair({ma}.Status.OPEN, {mb}.Status.OPEN)"),
    ]
    k = rng.randrange(2, 7)
    chosen = rng.sample(fields, k)
    rng.shuffle(chosen)
    main = gen.PRELUDE + f"import {ma}, {mb}\nT = TypeVar('T')\nU = TypeVar('U')\n"
    main += f"@dataclass\nclass Page{gbase_page}:\n    item: T\n    items: List[T]\n"
    main += f"@dataclass\nclass Pair{gbase_pair}:\n    a: T\n    b: U\n"
    main += f"@dataclass\nclass Holder{base}:\n" + "".join(f"    {n}: {t}\n" for n, t, _ in chosen)
    value = "Holder(" + ", ".join(f"{n}={v}" for n, _, v in chosen) + ")"
    out = dict(mods={ma: AUX_A, mb: AUX_B}, main=main, type="Holder", values=[value], mixin=mixin,
               name="generic-specialisations", shape=",".join(n for n, _, _ in chosen))
    # also a direct specialisation as the root (no holder)
    if rng.random() < 0.4:
        n, t, v = rng.choice(chosen)
        out["type"], out["values"] = t, [v]
        out["mixin"] = False
    return out


def inheritance_scenario(rng):
    """chains of 3-4 dataclasses in which fields are re-declared at random levels with other defaults /
    kw_only flags (every field has a default, so any declaration order is a legal dataclass)"""
    i = next(_ctr)
    mixin = rng.random() < 0.6
    base = "(DataClassDictMixin)" if mixin else ""
    pool = {
        "a": ("int", ["0", "1", "5", "-3"], ["7", "0", "42"]),
        "b": ("str", ["''", "'x'", "'dflt'"], ["'q'", "''", "'zz'"]),
        "c": ("Optional[Decimal]", ["None", "Decimal('1.5')"], ["None", "Decimal('2')", "Decimal('0')"]),
        "d": ("List[datetime.date]", None, ["[]", "[datetime.date(2020, 1, 1)]"]),
        "e": ("Optional[int]", ["None", "5", "0"], ["None", "3", "0"]),
    }
    depth = rng.choice([3, 4, 4])
    names = [f"L{k}" for k in range(depth)]
    main = gen.PRELUDE
    declared = set()
    for k, cn in enumerate(names):
        parent = base if k == 0 else f"({names[k - 1]})"
        decl = rng.sample(sorted(pool), rng.randrange(1, 4)) if k else rng.sample(sorted(pool), rng.randrange(2, 5))
        deco = "@dataclass(kw_only=True)" if (k and rng.random() < 0.25) else "@dataclass"
        main += f"{deco}\nclass {cn}{parent}:\n"
        for fn in decl:
            ty, defaults, _ = pool[fn]
            # a field declared again further down flips its kw_only flag more often than not (the builder must
            # follow the NEAREST declaration for defaults and for positional / keyword passing)
            again = fn in declared
            kw = ", kw_only=True" if rng.random() < (0.5 if again else 0.3) else ""
            declared.add(fn)
            if defaults is None:
                main += f"    {fn}: {ty} = field(default_factory=list{kw})\n"
            else:
                main += f"    {fn}: {ty} = field(default={rng.choice(defaults)}{kw})\n"
    main += f"@dataclass\nclass Box{base}:\n" + "".join(f"    f{k}: {cn}\n" for k, cn in enumerate(names)) + f"    fl: List[{names[-1]}] = field(default_factory=list)\n"

    def inst(cn):
        # keyword construction with a random subset of the fields (the others take their defaults)
        kws = []
        for fn in sorted(pool):
            if rng.random() < 0.6:
                kws.append(f"{fn}={rng.choice(pool[fn][2])}")
        return cn, kws

    def src(cn, kws):
        return f"_mk({cn}, dict(" + ", ".join(kws) + "))"
    # _mk drops keyword arguments the class does not declare
    main += "def _mk(cls, kw):\n    names = {f.name for f in dataclasses.fields(cls)}\n    return cls(**{k: v for k, v in kw.items() if k in names})\n"
    root = rng.choice(["Box"] + names)
    values = []
    for _ in range(3):
        if root == "Box":
            values.append("Box(" + ", ".join(src(*inst(cn)) for cn in names) + ", [" + src(*inst(names[-1])) + "])")
        else:
            values.append(src(*inst(root)))
    return dict(mods={}, main=main, type=root, values=values, mixin=mixin, name="inheritance", shape=f"{root}/depth{depth}")


def inheritance_grid(rng):
    """systematic part: one field `a` over a 3-level chain; every level leaves it alone (-), declares it positional with a
    default (p), kw_only with a default (k), positional required (P) or kw_only required (K): all 124 patterns in which
    somebody declares it.  Around it a required positional `z` of the root and a kw_only defaulted `m` of the middle class;
    mixin / plain and omit_default (information preserving: the dropped value is the default that comes back) alternate.
    The builder must follow the NEAREST declaration for the default, for required-ness and for positional / keyword passing."""
    out = []
    idx = 0
    opts = ("-", "p", "k", "P", "K")
    for p0 in opts:
        for p1 in opts:
            for p2 in opts:
                if p0 == p1 == p2 == "-":
                    continue
                idx += 1
                i = next(_ctr)
                mixin = idx % 2 == 0
                omit = idx % 3 == 0
                base = "(DataClassDictMixin)" if mixin else ""
                main = gen.PRELUDE
                eff = None            # effective declaration seen by each class
                effs = []
                for k, pat in enumerate((p0, p1, p2)):
                    parent = base if k == 0 else f"(G{k - 1})"
                    main += f"@dataclass\nclass G{k}{parent}:\n"
                    body = ""
                    if k == 0:
                        body += "    z: str\n"
                    if k == 1:
                        body += "    m: Optional[int] = field(default=None, kw_only=True)\n"
                    if pat != "-":
                        eff = (pat, 10 * (k + 1))
                        args = []
                        if pat in "pk":
                            args.append(f"default={10 * (k + 1)}")
                        if pat in "kK":
                            args.append("kw_only=True")
                        body += "    a: int" + (f" = field({', '.join(args)})" if args else "") + "\n"
                    if k == 0 and omit:
                        body += "    class Config(BaseConfig):\n        omit_default = True\n"
                    main += body or "    pass\n"
                    effs.append(eff)
                for k in (2, 1):
                    e = effs[k]
                    if e is None:
                        continue
                    root = f"G{k}"
                    more = ", m=3" if k >= 1 else ""
                    vs = [f"{root}(z='w', a=-1{more})", f"{root}(z='', a={e[1]})"]
                    for anc in range(k):
                        if effs[anc] is not None:
                            vs.append(f"{root}(z='q', a={effs[anc][1]})")      # equals an ANCESTOR's default
                    if e[0] in "pk":
                        vs.append(f"{root}(z='d')")
                    out.append(dict(mods={}, main=main, type=root, values=vs, mixin=mixin, name="inheritance-grid",
                                    shape=f"{p0}{p1}{p2}/{root}" + ("/omit_default" if omit else "")))
    return out


SCENARIOS = [generic_scenario, inheritance_scenario]


def build(sc: dict) -> dict:
    for name, src in sc["mods"].items():
        gen.build_module(src, name)
    return gen.build_module(sc["main"])


def dispose(sc: dict):
    for name in sc["mods"]:
        sys.modules.pop(name, None)


def replay(rep: dict) -> int:
    """re-run a scenario round trip; 1 = reproduces"""
    from mashumaro.codecs.basic import BasicDecoder, BasicEncoder
    sc = rep["scenario"]
    ns = build(sc)
    ty = eval(sc["type"], dict(ns))
    v = eval(rep["input_src"], dict(ns))
    try:
        if rep["entry"] == "scenario_mixin_roundtrip":
            back = type(v).from_dict(v.to_dict())
        else:
            back = BasicDecoder(ty).decode(BasicEncoder(ty).encode(v))
        ok = gen.same(back, v)
        obs = "ok:" + repr(back)
    except Exception as e:
        ok = False
        obs = f"exc:{type(e).__name__}: {e}"
    print("observed:", obs[:600])
    print("expected:", repr(v)[:600])
    if not ok:
        print("REPRODUCED")
        return 1
    print("not reproduced")
    return 0
