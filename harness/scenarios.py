"""Hand-structured, randomised schema families that the tree generator (gen.py) does not
reach: generic dataclasses with several specialisations (permuted, nested and same-named
type arguments coming from different modules), inheritance with overriding, first-use
order.  Each scenario is self-contained source text (aux modules + main) plus expressions
for the root type and values, so replays can rebuild it."""
from __future__ import annotations

import itertools
import sys

from harness import gen

_ctr = itertools.count()

AUX_A = """import enum
from dataclasses import dataclass
class Status(enum.Enum):
    OPEN = "open"
    DONE = "done"
@dataclass
class Item:
    v: int
    w: str = "a"
"""
AUX_B = """import enum
from dataclasses import dataclass
class Status(enum.Enum):
    OPEN = 1
    DONE = 2
@dataclass
class Item:
    v: str
    w: int = 0
"""


def generic_scenario(rng):
    """returns dict(mods={name: src}, main=src, type=expr, values=[expr...], name=...)"""
    i = next(_ctr)
    ma, mb = f"verif_sc{i}_orders", f"verif_sc{i}_payments"
    mixin = rng.random() < 0.5
    base = "(DataClassDictMixin)" if mixin else ""
    gbase_page = "(Generic[T], DataClassDictMixin)" if mixin and rng.random() < 0.5 else "(Generic[T])"
    gbase_pair = "(Generic[T, U])"
    fields = [
        ("p1", f"Page[{ma}.Status]", f"Page({ma}.Status.OPEN, [{ma}.Status.DONE, {ma}.Status.OPEN])"),
        ("p2", f"Page[{mb}.Status]", f"Page({mb}.Status.DONE, [{mb}.Status.OPEN])"),
        ("i1", f"Page[{ma}.Item]", f"Page({ma}.Item(1, 'x'), [{ma}.Item(2)])"),
        ("i2", f"Page[{mb}.Item]", f"Page({mb}.Item('1', 5), [{mb}.Item('2')])"),
        ("q1", "Pair[int, str]", "Pair(1, '2')"),
        ("q2", "Pair[str, int]", "Pair('1', 2)"),
        ("q3", "Pair[datetime.date, int]", "Pair(datetime.date(2020, 1, 2), 3)"),
        ("q4", "Pair[int, datetime.date]", "Pair(4, datetime.date(2021, 3, 4))"),
        ("n1", "Page[Pair[int, str]]", "Page(Pair(1, 'a'), [])"),
        ("n2", "Page[Pair[str, int]]", "Page(Pair('b', 2), [Pair('c', 3)])"),
        ("l1", "List[Page[int]]", "[Page(1, [2, 3])]"),
        ("l2", "Dict[str, Page[str]]", "{'k': Page('1', ['2'])}"),
        ("o1", f"Optional[Pair[{ma}.Status, {mb}.Status]]", f"Pair({ma}.Status.OPEN, {mb}.Status.OPEN)"),
    ]
    k = rng.randrange(2, 7)
    chosen = rng.sample(fields, k)
    rng.shuffle(chosen)
    main = gen.PRELUDE + f"import {ma}, {mb}\nT = TypeVar('T')\nU = TypeVar('U')\n"
    main += f"@dataclass\nclass Page{gbase_page}:\n    item: T\n    items: List[T]\n"
    main += f"@dataclass\nclass Pair{gbase_pair}:\n    a: T\n    b: U\n"
    main += f"@dataclass\nclass Holder{base}:\n" + "".join(f"    {n}: {t}\n" for n, t, _ in chosen)
    value = "Holder(" + ", ".join(f"{n}={v}" for n, _, v in chosen) + ")"
    out = dict(mods={ma: AUX_A, mb: AUX_B}, main=main, type="Holder", values=[value], mixin=mixin,
               name="generic-specialisations", shape=",".join(n for n, _, _ in chosen))
    # also a direct specialisation as the root (no holder)
    if rng.random() < 0.4:
        n, t, v = rng.choice(chosen)
        out["type"], out["values"] = t, [v]
        out["mixin"] = False
    return out


def inheritance_scenario(rng):
    i = next(_ctr)
    mixin = rng.random() < 0.6
    base = "(DataClassDictMixin)" if mixin else ""
    kw = rng.random() < 0.4
    main = gen.PRELUDE
    main += f"@dataclass\nclass Base{base}:\n    x: int\n    tag: str = 'b'\n"
    main += "@dataclass\nclass Mid(Base):\n    y: List[datetime.date] = field(default_factory=list)\n    tag: str = 'm'\n"
    main += f"@dataclass{'(kw_only=True)' if kw else ''}\nclass Leaf(Mid):\n    z: Optional[Decimal] = None\n    x: int = 7\n"
    main += f"@dataclass\nclass Box{base}:\n    b: Base\n    m: Mid\n    l: Leaf\n    ls: List[Leaf]\n"
    leaf = "Leaf(x=1, tag='q', y=[datetime.date(2020,1,1)], z=Decimal('1.5'))" if kw else "Leaf(1, 'q', [datetime.date(2020,1,1)], Decimal('1.5'))"
    value = f"Box(Base(1), Mid(2, 'mm', [datetime.date(2022, 2, 2)]), {leaf}, [{leaf}, Leaf(x=3)])"
    root = rng.choice([("Box", value), ("Leaf", leaf), ("Mid", "Mid(5)")])
    return dict(mods={}, main=main, type=root[0], values=[root[1]], mixin=mixin and root[0] in ("Box", "Leaf", "Mid"),
                name="inheritance", shape=root[0] + ("/kw" if kw else ""))


SCENARIOS = [generic_scenario, generic_scenario, inheritance_scenario]


def build(sc: dict) -> dict:
    for name, src in sc["mods"].items():
        gen.build_module(src, name)
    return gen.build_module(sc["main"])


def dispose(sc: dict):
    for name in sc["mods"]:
        sys.modules.pop(name, None)


def replay(rep: dict) -> int:
    """re-run a scenario round trip; 1 = reproduces"""
    from mashumaro.codecs.basic import BasicDecoder, BasicEncoder
    sc = rep["scenario"]
    ns = build(sc)
    ty = eval(sc["type"], dict(ns))
    v = eval(rep["input_src"], dict(ns))
    try:
        if rep["entry"] == "scenario_mixin_roundtrip":
            back = type(v).from_dict(v.to_dict())
        else:
            back = BasicDecoder(ty).decode(BasicEncoder(ty).encode(v))
        ok = gen.same(back, v)
        obs = "ok:" + repr(back)
    except Exception as e:
        ok = False
        obs = f"exc:{type(e).__name__}: {e}"
    print("observed:", obs[:600])
    print("expected:", repr(v)[:600])
    if not ok:
        print("REPRODUCED")
        return 1
    print("not reproduced")
    return 0
