"""C17: generator of schemas (as self-contained Python module source) covering the type grammar
of mashumaro's pack.py / unpack.py registries, Config options, code-generation flags, dialects,
mixins and codecs.  A schema is a dict:
  {"src": module source, "module": module name, "entries": [...], "tags": [...], "defloc": ...}
The module source defines
  ROOTS   = [class, ...]                 dataclasses with a mixin (entry points to_*/from_*)
  MAKE    = {class name: callable -> instance}
  CODECS  = [(kind, type expression object), ...]   built by the harness inside the capture window
  CLASSES = [every schema class object, ...]        for the identity checks
  IDENT   = [(holder class, field name, class)]     positions whose annotation is exactly a schema class
             or a one-level container of it, without user code in between
"""
from __future__ import annotations

import random

PRELUDE = '''import collections, collections.abc, dataclasses, datetime, decimal, enum, fractions, ipaddress, os, pathlib, re, sys, types, typing, uuid, zoneinfo
from dataclasses import dataclass, field, make_dataclass
from typing import *
from typing_extensions import Self, NotRequired, Required, Unpack, ReadOnly
from mashumaro import DataClassDictMixin, field_options, pass_through
from mashumaro.mixins.json import DataClassJSONMixin
from mashumaro.mixins.orjson import DataClassORJSONMixin
from mashumaro.mixins.msgpack import DataClassMessagePackMixin
from mashumaro.mixins.yaml import DataClassYAMLMixin
from mashumaro.mixins.toml import DataClassTOMLMixin
from mashumaro.config import BaseConfig, TO_DICT_ADD_BY_ALIAS_FLAG, TO_DICT_ADD_OMIT_NONE_FLAG, ADD_DIALECT_SUPPORT, ADD_SERIALIZATION_CONTEXT
from mashumaro.dialect import Dialect
from mashumaro.types import SerializableType, GenericSerializableType, SerializationStrategy, RoundedDecimal, Discriminator, Alias
ROOTS = []; MAKE = {}; CODECS = []; CLASSES = []; IDENT = []; DIALECTS = []; ROUNDTRIP = []
'''

MIXINS = ["DataClassDictMixin", "DataClassJSONMixin", "DataClassORJSONMixin", "DataClassMessagePackMixin",
          "DataClassYAMLMixin", "DataClassTOMLMixin"]

# (type expression, value expression, hashable-as-key, toml-safe)
LEAVES = [
    ("int", "7", True), ("float", "1.5", True), ("bool", "True", True), ("str", "'s'", True),
    ("bytes", "b'ab'", False), ("bytearray", "bytearray(b'ab')", False), ("Any", "3", False),
    ("datetime.datetime", "datetime.datetime(2020, 1, 2, 3, 4, 5)", True),
    ("datetime.date", "datetime.date(2020, 1, 2)", True),
    ("datetime.time", "datetime.time(3, 4, 5)", True),
    ("datetime.timedelta", "datetime.timedelta(seconds=90)", True),
    ("datetime.timezone", "datetime.timezone(datetime.timedelta(hours=2))", False),
    ("zoneinfo.ZoneInfo", "zoneinfo.ZoneInfo('UTC')", False),
    ("uuid.UUID", "uuid.UUID(int=5)", True),
    ("decimal.Decimal", "decimal.Decimal('1.25')", True),
    ("fractions.Fraction", "fractions.Fraction(1, 3)", True),
    ("ipaddress.IPv4Address", "ipaddress.IPv4Address('1.2.3.4')", True),
    ("ipaddress.IPv6Address", "ipaddress.IPv6Address('::1')", True),
    ("ipaddress.IPv4Network", "ipaddress.IPv4Network('10.0.0.0/30')", True),
    ("ipaddress.IPv6Network", "ipaddress.IPv6Network('::/127')", True),
    ("ipaddress.IPv4Interface", "ipaddress.IPv4Interface('1.2.3.4/8')", True),
    ("ipaddress.IPv6Interface", "ipaddress.IPv6Interface('::1/64')", True),
    ("pathlib.Path", "pathlib.Path('/a/b')", True),
    ("pathlib.PurePosixPath", "pathlib.PurePosixPath('/a')", True),
    ("pathlib.PurePath", "pathlib.PurePath('/a')", True),
    ("pathlib.PosixPath", "pathlib.PosixPath('/a')", True),
    ("os.PathLike", "pathlib.PurePath('/a')", False),
    ("re.Pattern", "re.compile('a+')", False),
    ("typing.Pattern", "re.compile('b+')", False),
    ("None", "None", False),
]
KEY_LEAVES = [l for l in LEAVES if l[2]]


class G:
    """One schema under construction."""

    def __init__(self, rng: random.Random, module: str, defloc: str = "module", features: dict | None = None):
        self.r = rng
        self.module = module
        self.defloc = defloc            # module | local | functional
        self.decls: list[str] = []      # top-level (or function-local) declarations
        self.n = 0
        self.tags: set[str] = set()
        self.f = features or {}
        self.classes: list[str] = []
        self.dialects: list[str] = []
        self.dc_names: list[str] = []   # plain + mixin dataclasses usable as field types
        self.ident: list[tuple[str, str, str]] = []

    def fresh(self, p: str) -> str:
        self.n += 1
        return f"{p}{self.n}"

    # -- class-like leaves ------------------------------------------------
    def enum_cls(self):
        kind = self.r.choice(["enum.Enum", "enum.IntEnum", "enum.StrEnum", "enum.Flag", "enum.IntFlag", "str, enum.Enum"])
        n = self.fresh("E")
        self.tags.add("enum:" + kind)
        if self.defloc == "functional" and kind in ("enum.Enum", "enum.IntEnum", "enum.Flag", "enum.IntFlag"):
            self.decls.append(f"{n} = {kind}({n!r}, 'A B')\n{n}.__module__ = __name__")
        elif kind in ("enum.StrEnum", "str, enum.Enum"):
            self.decls.append(f"class {n}({kind}):\n    A = 'a'\n    B = 'b'")
        else:
            self.decls.append(f"class {n}({kind}):\n    A = 1\n    B = 2")
        self.classes.append(n)
        return n, f"{n}.A", True

    def namedtuple_cls(self, depth):
        n = self.fresh("N")
        t1, v1, _ = self.ty(depth + 1)
        form = self.r.choice(["class", "class-default", "functional", "collections"])
        self.tags.add("namedtuple:" + form)
        if form == "collections":
            self.decls.append(f"{n} = collections.namedtuple({n!r}, ['a', 'b'])")
            val = f"{n}(1, 's')"
        elif form == "functional":
            self.decls.append(f"{n} = NamedTuple({n!r}, [('a', {t1}), ('b', int)])")
            val = f"{n}({v1}, 2)"
        elif form == "class-default":
            self.decls.append(f"class {n}(NamedTuple):\n    a: {t1}\n    b: int = 3")
            val = f"{n}({v1})"
        else:
            self.decls.append(f"class {n}(NamedTuple):\n    a: {t1}\n    b: int")
            val = f"{n}({v1}, 2)"
        self.classes.append(n)
        return n, val, False

    def typeddict_cls(self, depth):
        n = self.fresh("T")
        t1, v1, _ = self.ty(depth + 1)
        form = self.r.choice(["total", "nontotal", "required", "functional"])
        self.tags.add("typeddict:" + form)
        if form == "functional":
            self.decls.append(f"{n} = TypedDict({n!r}, {{'a': {t1}, 'b': int}})")
        elif form == "nontotal":
            self.decls.append(f"class {n}(TypedDict, total=False):\n    a: {t1}\n    b: int")
        elif form == "required":
            self.decls.append(f"class {n}(TypedDict, total=False):\n    a: Required[{t1}]\n    b: NotRequired[int]")
        else:
            self.decls.append(f"class {n}(TypedDict):\n    a: {t1}\n    b: int")
        self.classes.append(n)
        return n, f"{{'a': {v1}, 'b': 2}}", False

    def newtype(self):
        n = self.fresh("NT")
        t, v, h = self.r.choice(KEY_LEAVES)
        self.decls.append(f"{n} = NewType({n!r}, {t})")
        self.classes.append(n)
        self.tags.add("newtype")
        return n, v, h

    def serializable_cls(self):
        n = self.fresh("S")
        form = self.r.choice(["plain", "annotations", "generic"])
        self.tags.add("serializable:" + form)
        if form == "plain":
            self.decls.append(
                f"class {n}(SerializableType):\n    def __init__(self, v=1): self.v = v\n"
                f"    def _serialize(self): return self.v\n    @classmethod\n    def _deserialize(cls, value): return cls(value)")
            return n, f"{n}(2)", False
        if form == "annotations":
            self.decls.append(
                f"class {n}(SerializableType, use_annotations=True):\n    def __init__(self, v=None): self.v = v\n"
                f"    def _serialize(self) -> datetime.date: return self.v\n    @classmethod\n"
                f"    def _deserialize(cls, value: datetime.date) -> '{n}': return cls(value)")
            return n, f"{n}(datetime.date(2020, 1, 1))", False
        tv = self.fresh("TV")
        self.decls.append(
            f"{tv} = TypeVar({tv!r})\nclass {n}(Generic[{tv}], GenericSerializableType):\n    def __init__(self, v=1): self.v = v\n"
            f"    def _serialize(self, types): return self.v\n    @classmethod\n    def _deserialize(cls, value, types): return cls(value)")
        return f"{n}[int]", f"{n}(2)", False

    def strategy_decl(self):
        n = self.fresh("St")
        form = self.r.choice(["plain", "annotations"])
        if form == "plain":
            self.decls.append(f"class {n}(SerializationStrategy):\n    def serialize(self, value): return str(value)\n"
                              f"    def deserialize(self, value): return int(value)")
        else:
            self.decls.append(f"class {n}(SerializationStrategy, use_annotations=True):\n"
                              f"    def serialize(self, value) -> List[datetime.date]: return [datetime.date(2020, 1, int(value) % 27 + 1)]\n"
                              f"    def deserialize(self, value: List[datetime.date]) -> int: return value[0].day")
        self.tags.add("strategy:" + form)
        return n

    # -- the type grammar -------------------------------------------------
    def key_ty(self):
        c = self.r.random()
        if c < 0.75:
            t, v, _ = self.r.choice(KEY_LEAVES)
            return t, v
        if c < 0.9:
            t, v, _ = self.enum_cls()
            return t, v
        t, v, _ = self.newtype()
        return t, v

    def ty(self, depth=0):
        """-> (type expr, value expr, hashable)"""
        r = self.r
        if depth >= 3 or r.random() < 0.3:
            c = r.random()
            if c < 0.6:
                return r.choice(LEAVES)
            if c < 0.8:
                return self.enum_cls()
            if c < 0.87:
                return self.newtype()
            if c < 0.94:
                return self.literal()
            return self.serializable_cls()
        k = r.choice(["list", "List", "Sequence", "MutableSequence", "deque", "set", "frozenset", "AbstractSet", "tuplevar", "tuplefix",
                      "tupleempty", "tupleunpack", "namedtuple", "dict", "Dict", "Mapping", "MutableMapping", "OrderedDict", "defaultdict",
                      "MappingProxyType", "Counter", "ChainMap", "typeddict", "optional", "union", "union", "final", "annotated",
                      "dataclass", "dataclass", "dataclass", "generic", "pep604", "bareList", "bareDict", "Collection", "literal", "pep695", "pep695"])
        self.tags.add("k:" + k)
        if k in ("list", "List", "Sequence", "MutableSequence", "Collection"):
            t, v, _ = self.ty(depth + 1)
            tt = {"list": "list", "List": "List", "Sequence": "Sequence", "MutableSequence": "MutableSequence",
                  "Collection": "collections.abc.Sequence"}[k]
            return f"{tt}[{t}]", f"[{v}]", False
        if k == "bareList":
            return r.choice(["List", "list", "Tuple", "tuple", "Set", "FrozenSet", "Deque", "Sequence"]), "[1]" if False else "()", False
        if k == "bareDict":
            return r.choice(["Dict", "dict", "Mapping", "OrderedDict", "DefaultDict", "ChainMap", "Counter"]), "{}", False
        if k == "deque":
            t, v, _ = self.ty(depth + 1)
            return f"Deque[{t}]", f"collections.deque([{v}])", False
        if k in ("set", "frozenset", "AbstractSet"):
            t, v = self.key_ty()
            if k == "frozenset":
                return f"FrozenSet[{t}]", f"frozenset([{v}])", True
            return f"{'Set' if k == 'set' else 'AbstractSet'}[{t}]", f"{{{v}}}", False
        if k == "tuplevar":
            t, v, h = self.ty(depth + 1)
            return f"Tuple[{t}, ...]", f"({v},)", False
        if k == "tuplefix":
            t1, v1, _ = self.ty(depth + 1)
            t2, v2, _ = self.ty(depth + 1)
            return f"Tuple[{t1}, {t2}]", f"({v1}, {v2})", False
        if k == "tupleempty":
            return "Tuple[()]", "()", False
        if k == "tupleunpack":
            t1, v1, _ = self.ty(depth + 1)
            return f"Tuple[int, Unpack[Tuple[{t1}, ...]], str]", f"(1, {v1}, 's')", False
        if k == "namedtuple":
            return self.namedtuple_cls(depth)
        if k in ("dict", "Dict", "Mapping", "MutableMapping", "OrderedDict", "defaultdict", "MappingProxyType"):
            kt, kv = self.key_ty()
            t, v, _ = self.ty(depth + 1)
            if k == "defaultdict":
                # the factory is rendered from the value type: keep it callable
                t, v, _ = r.choice([("int", "1", 1), ("str", "'s'", 1), ("List[int]", "[1]", 0), ("Dict[str, int]", "{'a': 1}", 0),
                                    ("float", "1.5", 1), ("list", "[]", 0),
                                    ("types.MappingProxyType[str, int]", "types.MappingProxyType({'a': 1})", 0), ("ENUMCLS", "", 0), ("ENUMCLS", "", 0)])
                if t == "ENUMCLS":
                    # the factory is a reference to a schema class: it must denote that class, at module scope (module.qualname chain)
                    # and inside a function (clean_id alias; since /repo d8ae0ee the factory goes through get_type_name_identifier)
                    t, v, _ = self.enum_cls()
                    return f"DefaultDict[{kt}, {t}]", f"collections.defaultdict({t}, {{{kv}: {v}}})", False
                fac = "list" if t.startswith(("List", "list")) else "dict" if t.startswith(("Dict", "types.")) else t
                return f"DefaultDict[{kt}, {t}]", f"collections.defaultdict({fac}, {{{kv}: {v}}})", False
            if k == "OrderedDict":
                return f"OrderedDict[{kt}, {t}]", f"collections.OrderedDict({{{kv}: {v}}})", False
            if k == "MappingProxyType":
                return f"types.MappingProxyType[{kt}, {t}]", f"types.MappingProxyType({{{kv}: {v}}})", False
            tt = {"dict": "dict", "Dict": "Dict", "Mapping": "Mapping", "MutableMapping": "MutableMapping"}[k]
            return f"{tt}[{kt}, {t}]", f"{{{kv}: {v}}}", False
        if k == "Counter":
            kt, kv = self.key_ty()
            return f"Counter[{kt}]", f"collections.Counter({{{kv}: 2}})", False
        if k == "ChainMap":
            kt, kv = self.key_ty()
            t, v, _ = self.ty(depth + 1)
            return f"ChainMap[{kt}, {t}]", f"collections.ChainMap({{{kv}: {v}}})", False
        if k == "typeddict":
            return self.typeddict_cls(depth)
        if k == "optional":
            t, v, h = self.ty(depth + 1)
            return f"Optional[{t}]", r.choice([v, "None"]), False
        if k == "pep604":
            t, v, h = self.ty(depth + 1)
            if t in ("None", "Any") or t.startswith("'"):
                return f"Optional[{t}]", v, False
            return f"({t}) | None", v, False
        if k == "union":
            n = r.choice([2, 2, 3, 4])
            ms = [self.ty(depth + 1) for _ in range(n)]
            if r.random() < 0.3:
                ms.append(("None", "None", False))
            t = ", ".join(m[0] for m in ms)
            return f"Union[{t}]", r.choice(ms)[1], False
        if k == "final":
            t, v, h = self.ty(depth + 1)
            if depth != 1 or t == "None":
                return t, v, h
            return f"Final[{t}]", v, False
        if k == "annotated":
            t, v, h = self.ty(depth + 1)
            return f"Annotated[{t}, 'meta']", v, h
        if k == "pep695":
            t, v, h = self.ty(depth + 1)
            if self.defloc != "module" or t == "None":
                return t, v, h
            n = self.fresh("PA")
            self.decls.append(f"type {n} = {t}")
            self.tags.add("pep695-alias")
            return n, v, False
        if k == "literal":
            return self.literal()
        if k == "dataclass":
            n = self.dataclass(depth + 1, root=False)
            return n, f"MAKE[{n!r}]()", False
        if k == "generic":
            return self.generic_dc(depth + 1)
        raise AssertionError(k)

    def literal(self):
        r = self.r
        items = r.sample(["1", "'a'", "b'x'", "True", "None", "ENUM", "2", "'b'", "NESTED"], r.choice([1, 2, 3]))
        vals = []
        out = []
        for it in items:
            if it == "ENUM":
                e, v, _ = self.enum_cls()
                out.append(v)
                vals.append(v)
            elif it == "NESTED":
                out.append("Literal[5, 'q']")
                vals.append("5")
            else:
                out.append(it)
                vals.append(it)
        self.tags.add("literal")
        return f"Literal[{', '.join(out)}]", r.choice(vals), False

    def generic_dc(self, depth):
        n = self.fresh("GD")
        tv = self.fresh("TV")
        bound = self.r.choice(["", ", bound=int", ", int, str"])
        mixin = self.r.choice(["", "DataClassDictMixin, "])
        self.decls.append(f"{tv} = TypeVar({tv!r}{bound})\n@dataclass\nclass {n}({mixin}Generic[{tv}]):\n    g: {tv}\n    gs: List[{tv}] = field(default_factory=list)")
        self.classes.append(n)
        self.tags.add("generic-dataclass")
        arg, v = self.r.choice([("int", "1"), ("str", "'s'")]) if bound else self.r.choice([("int", "1"), ("datetime.date", "datetime.date(2020, 1, 1)"), ("str", "'s'")])
        if self.r.random() < 0.2:
            return n, f"{n}({v})", False
        return f"{n}[{arg}]", f"{n}({v}, [{v}])", False

    def config_lines(self, root: bool, fields: list[str]) -> list[str]:
        r = self.r
        out = []
        opts = []
        if r.random() < 0.45:
            flags = [f for f in ["TO_DICT_ADD_BY_ALIAS_FLAG", "TO_DICT_ADD_OMIT_NONE_FLAG", "ADD_DIALECT_SUPPORT", "ADD_SERIALIZATION_CONTEXT"] if r.random() < 0.5]
            opts.append(f"code_generation_options = [{', '.join(flags)}]")
            for f in flags:
                self.tags.add("flag:" + f)
        for name, p in [("serialize_by_alias", .2), ("namedtuple_as_dict", .2), ("omit_none", .2), ("omit_default", .2),
                        ("lazy_compilation", .15), ("sort_keys", .15), ("allow_deserialization_not_by_alias", .15),
                        ("forbid_extra_keys", .15)]:
            if r.random() < p:
                opts.append(f"{name} = True")
                self.tags.add("cfg:" + name)
        if r.random() < 0.2 and fields:
            al = {f: f + "_al" for f in r.sample(fields, min(len(fields), 2))}
            opts.append(f"aliases = {al!r}")
            self.tags.add("cfg:aliases")
        if r.random() < 0.25:
            st = self.strategy_decl()
            form = r.choice(["obj", "dict", "pass", "engine"])
            if form == "obj":
                opts.append(f"serialization_strategy = {{int: {st}()}}")
            elif form == "dict":
                opts.append("serialization_strategy = {datetime.date: {'serialize': lambda v: v.isoformat(), 'deserialize': datetime.date.fromisoformat}, bytes: pass_through}")
            elif form == "pass":
                opts.append("serialization_strategy = {datetime.datetime: pass_through, uuid.UUID: {'serialize': pass_through}}")
            else:
                opts.append("serialization_strategy = {datetime.datetime: {'deserialize': 'pendulum'}, datetime.date: {'deserialize': 'ciso8601', 'serialize': str}}")
            self.tags.add("cfg:serialization_strategy:" + form)
        if r.random() < 0.2 and self.dialects:
            opts.append(f"dialect = {r.choice(self.dialects)}")
            self.tags.add("cfg:dialect")
        if r.random() < 0.05:
            opts.append("orjson_options = 1")
        if r.random() < 0.05:
            opts.append("allow_postponed_evaluation = False")
        if opts:
            out.append("    class Config(BaseConfig):")
            out += ["        " + o for o in opts]
        return out

    def dialect_decl(self):
        n = self.fresh("D")
        r = self.r
        opts = []
        if r.random() < 0.6:
            st = self.strategy_decl()
            opts.append(f"serialization_strategy = {{int: {st}(), datetime.date: {{'serialize': lambda v: v.toordinal(), 'deserialize': datetime.date.fromordinal}}}}")
        for name in ("omit_none", "omit_default", "serialize_by_alias", "namedtuple_as_dict", "no_copy_collections"):
            if r.random() < 0.3:
                opts.append(f"{name} = True" if name != "no_copy_collections" else "no_copy_collections = (list, dict)")
        if not opts:
            opts.append("omit_none = True")
        self.decls.append(f"class {n}(Dialect):\n" + "\n".join("    " + o for o in opts))
        self.dialects.append(n)
        self.tags.add("dialect")
        return n

    def dataclass(self, depth=0, root=True, nfields=None, mixin=None, forced_fields=None, deco=None) -> str:
        r = self.r
        n = self.fresh("R" if root else "C")
        if mixin is None:
            mixin = r.choice(MIXINS) if root else r.choice(["", "", "DataClassDictMixin", r.choice(MIXINS)])
        nf = nfields if nfields is not None else (r.choice([2, 3, 4, 5]) if root else r.choice([1, 2, 3]))
        fields = []     # (name, type, value, default_src)
        lines = []
        mk = []
        names = []
        for i in range(nf):
            fn = f"f{i}"
            if forced_fields and i < len(forced_fields):
                t, v = forced_fields[i]
            else:
                t, v, _ = self.ty(depth + 1)
            names.append(fn)
            fields.append((fn, t, v))
        # required first, then defaulted
        ndef = r.randrange(0, nf + 1)
        body = []
        user_code_fields = set()
        seen_default = False
        for i, (fn, t, v) in enumerate(fields):
            has_default = i >= nf - ndef or seen_default
            meta = ""
            c = r.random()
            if c < 0.08:
                meta = "metadata=field_options(alias=%r)" % (fn + "_alias")
                self.tags.add("field:alias")
            elif c < 0.13:
                meta = "metadata=field_options(serialize=lambda v: v, deserialize=lambda v: v)"
                self.tags.add("field:serialize-callable")
            elif c < 0.17:
                meta = "metadata=field_options(serialization_strategy=pass_through)"
                self.tags.add("field:pass_through")
            elif c < 0.2 and t == "datetime.datetime":
                meta = "metadata=field_options(deserialize=%r)" % r.choice(["pendulum", "ciso8601"])
                self.tags.add("field:engine")
            elif c < 0.23 and t == "int":
                st = self.strategy_decl()
                meta = f"metadata=field_options(serialization_strategy={st}())"
                self.tags.add("field:strategy")
            elif c < 0.26 and t == "bytes":
                meta = "metadata=field_options(serialize='omit')"
            if meta:
                user_code_fields.add(fn)
            if t.startswith("Final["):
                has_default = True
            seen_default = seen_default or has_default
            if has_default:
                simple = v in ("7", "1.5", "True", "'s'", "None", "3", "b'ab'", "()") or v.endswith(".A")
                if simple and r.random() < 0.7:
                    d = f"default={v}"
                else:
                    d = f"default_factory=lambda: {v}"
                args = ", ".join(x for x in (d, meta) if x)
                body.append(f"    {fn}: {t} = field({args})")
            else:
                if meta:
                    body.append(f"    {fn}: {t} = field({meta})")
                else:
                    body.append(f"    {fn}: {t}")
            mk.append(f"{fn}={v}")
        hooks = []
        if r.random() < 0.15:
            hooks += ["    @classmethod", "    def __pre_deserialize__(cls, d): return d"]
            self.tags.add("hook:pre_deserialize")
        if r.random() < 0.15:
            hooks += ["    @classmethod", "    def __post_deserialize__(cls, obj): return obj"]
            self.tags.add("hook:post_deserialize")
        if r.random() < 0.15:
            hooks += ["    def __pre_serialize__(self): return self"]
            self.tags.add("hook:pre_serialize")
        if r.random() < 0.15:
            hooks += ["    def __post_serialize__(self, d): return d"]
            self.tags.add("hook:post_serialize")
        cfg = self.config_lines(root, names) if (mixin or r.random() < 0.3) else []
        if any("ADD_SERIALIZATION_CONTEXT" in c for c in cfg):
            hooks = [h.replace("__pre_serialize__(self)", "__pre_serialize__(self, context=None)")
                      .replace("__post_serialize__(self, d)", "__post_serialize__(self, d, context=None)") for h in hooks]
        deco = deco or r.choice(["@dataclass", "@dataclass", "@dataclass(frozen=True)", "@dataclass(slots=True)", "@dataclass(kw_only=True)", "@dataclass(order=True)"])
        if hooks and "slots" in deco:
            deco = "@dataclass"
        base = f"({mixin})" if mixin else ""
        self.decls.append("\n".join([deco, f"class {n}{base}:"] + body + hooks + cfg) + f"\nMAKE[{n!r}] = lambda: {n}({', '.join(mk)})")
        self.classes.append(n)
        self.tags.add("mixin:" + (mixin or "plain"))
        for fn, t, v in fields:
            if fn not in user_code_fields:       # field-level serialize/deserialize/strategy: the user's code decides the class
                self.note_ident(n, fn, t)
        if mixin:
            self.dc_names.append(n)
        return n

    def note_ident(self, holder, fn, t):
        for c in self.classes:
            if t in (c, f"List[{c}]", f"Optional[{c}]", f"Dict[str, {c}]", f"Tuple[{c}, ...]", f"list[{c}]"):
                self.ident.append((holder, fn, c))

    # -- special shapes ---------------------------------------------------
    def discriminated(self):
        r = self.r
        b = self.fresh("B")
        form = r.choice(["config-subtypes", "config-supertypes", "annotated", "annotated-tagger"])  # field-less config discriminators recurse exponentially on some inputs (not C17)
        self.tags.add("discriminator:" + form)
        mix = r.choice(["DataClassDictMixin", "DataClassJSONMixin", "DataClassORJSONMixin"])
        if form.startswith("config"):
            inc_super = "True" if form == "config-supertypes" else "False"
            fld = "" if form == "config-nofield" else "field='kind', "
            self.decls.append(f"@dataclass\nclass {b}({mix}):\n    x: int = 0\n    class Config(BaseConfig):\n"
                              f"        discriminator = Discriminator({fld}include_subtypes=True, include_supertypes={inc_super})")
        else:
            self.decls.append(f"@dataclass\nclass {b}({mix}):\n    x: int = 0")
        subs = []
        for i in range(r.choice([1, 2, 3])):
            s = self.fresh("V")
            t, v, _ = self.ty(2)
            self.decls.append(f"@dataclass\nclass {s}({b}):\n    kind: Literal[{s!r}] = {s!r}\n    y{i}: {t} = field(default_factory=lambda: {v})\nMAKE[{s!r}] = lambda: {s}()")
            subs.append(s)
            self.classes.append(s)
        self.classes.append(b)
        self.decls.append(f"MAKE[{b!r}] = lambda: {subs[0]}()")
        if form.startswith("config"):
            return b, f"{subs[0]}()"
        tag = ", variant_tagger_fn=lambda c: c.__name__" if form == "annotated-tagger" else ""
        return f"Annotated[{b}, Discriminator(field='kind', include_subtypes=True{tag})]", f"{subs[-1]}()"

    def selfref(self):
        n = self.fresh("SR")
        form = self.r.choice(["self", "forward", "optional-name"])
        self.tags.add("selfref:" + form)
        mix = self.r.choice(MIXINS[:3])
        if form == "self":
            self.decls.append(f"@dataclass\nclass {n}({mix}):\n    nxt: Optional[Self] = None\n    kids: List[Self] = field(default_factory=list)\n    v: int = 0\nMAKE[{n!r}] = lambda: {n}({n}(None, [{n}()]))")
        elif form == "forward":
            self.decls.append(f"@dataclass\nclass {n}({mix}):\n    nxt: Optional['{n}'] = None\n    kids: Dict[str, '{n}'] = field(default_factory=dict)\nMAKE[{n!r}] = lambda: {n}({n}(), {{'k': {n}()}})")
        else:
            self.decls.append(f"@dataclass\nclass {n}({mix}):\n    nxt: '{n} | None' = None\nMAKE[{n!r}] = lambda: {n}({n}())")
        self.classes.append(n)
        return n, f"MAKE[{n!r}]()"

    def postponed(self):
        """field refers to a class defined later (lazy stub path)"""
        n = self.fresh("PP")
        late = self.fresh("Late")
        self.tags.add("postponed")
        self.decls.append(f"@dataclass\nclass {n}(DataClassDictMixin):\n    nxt: '{late}'\n    x: int = 1\n"
                          f"@dataclass\nclass {late}(DataClassDictMixin):\n    y: datetime.date = datetime.date(2020, 1, 1)\nMAKE[{n!r}] = lambda: {n}({late}())\nMAKE[{late!r}] = lambda: {late}()")
        self.classes += [n, late]
        self.ident.append((n, "nxt", late))
        return n, f"MAKE[{n!r}]()"

    def inherited(self):
        b = self.dataclass(1, root=False, mixin="DataClassDictMixin", deco="@dataclass")
        n = self.fresh("Sub")
        t, v, _ = self.ty(2)
        self.decls.append(f"@dataclass\nclass {n}({b}):\n    extra: {t} = field(default_factory=lambda: {v})\nMAKE[{n!r}] = lambda: {n}(**dataclasses.asdict(MAKE[{b!r}]())) if False else {n}(*[getattr(MAKE[{b!r}](), f.name) for f in dataclasses.fields({b}) if f.init and not f.kw_only], **{{f.name: getattr(MAKE[{b!r}](), f.name) for f in dataclasses.fields({b}) if f.init and f.kw_only}})")
        self.classes.append(n)
        self.tags.add("inherited")
        return n, f"MAKE[{n!r}]()"


def wrap_local(decls: list[str], tail: list[str]) -> str:
    """Put all declarations into a factory function (local classes: '<locals>' qualnames)."""
    body = "\n".join(decls + tail)
    ind = "\n".join(("    " + ln) if ln else ln for ln in body.splitlines())
    return "def _factory():\n" + ind + "\n    return None\n_factory()\n"


def gen_schema(rng: random.Random, idx: int, defloc: str | None = None) -> dict:
    defloc = defloc or rng.choice(["module", "module", "module", "local", "functional"])
    g = G(rng, f"c17s_{idx}", defloc)
    future = rng.random() < 0.2 and defloc == "module"
    for _ in range(rng.choice([0, 0, 1, 2])):
        g.dialect_decl()
    roots = []
    nroots = rng.choice([1, 1, 2])
    for _ in range(nroots):
        forced = []
        c = rng.random()
        if c < 0.25:
            forced.append(g.discriminated())
        elif c < 0.4:
            forced.append(g.selfref())
        elif c < 0.47 and defloc == "module":
            forced.append(g.postponed())
        elif c < 0.55:
            forced.append(g.inherited())
        roots.append(g.dataclass(0, root=True, forced_fields=forced))
    tail = [f"ROOTS.extend([{', '.join(roots)}])"]
    # codecs: a dataclass without mixin / arbitrary type through every codec family
    ncodec = rng.choice([0, 1, 1, 2])
    for _ in range(ncodec):
        kind = rng.choice(["basic", "json", "orjson", "msgpack", "yaml", "toml"])
        if rng.random() < 0.5:
            n = g.dataclass(1, root=False, mixin="")
            t, v = n, f"MAKE[{n!r}]()"
        else:
            t, v, _ = g.ty(1)
        dd = rng.choice(g.dialects) if g.dialects and rng.random() < 0.4 else "None"
        tail_decl = f"CODECS.append(({kind!r}, {t}, (lambda: {v}), {dd}))"
        tail.append(tail_decl)
        g.tags.add("codec:" + kind)
    if g.classes:
        tail.append(f"CLASSES.extend([{', '.join(dict.fromkeys(g.classes))}])")
    if g.dialects:
        tail.append(f"DIALECTS.extend([{', '.join(g.dialects)}])")
    for h, fn, c in g.ident:
        tail.append(f"IDENT.append(({h}, {fn!r}, {c}))")
    hdr = ("from __future__ import annotations\n" if future else "") + PRELUDE
    if future:
        g.tags.add("future-annotations")
    if defloc == "local" or defloc == "functional" and rng.random() < 0.5:
        # MAKE lambdas and tails refer to local names: keep them inside the factory
        src = hdr + wrap_local(g.decls, tail)
        g.tags.add("scope:function")
    else:
        src = hdr + "\n".join(g.decls + tail) + "\n"
        g.tags.add("scope:module")
    g.tags.add("defloc:" + defloc)
    return {"src": src, "module": g.module, "tags": sorted(g.tags), "defloc": defloc, "idx": idx}


# ---------------------------------------------------------------------------
# adversarial schemas for the identity half of the property
# ---------------------------------------------------------------------------

SHADOW_CLASS_NAMES = ["MISSING", "InvalidFieldValue", "cls", "decodebytes", "encodebytes", "datetime", "UUID", "collections",
                      "typing", "MissingField", "NoneType", "value", "d", "kwargs", "int", "str", "isinstance", "dict",
                      "ValueError", "setattr", "self", "Decimal", "CodeBuilder", "type", "Exception", "_cls", "decoder",
                      "key", "mashumaro", "uuid", "iter_all_subclasses", "pass_through", "Fraction", "parse_timezone", "types"]
SHADOW_MODULE_NAMES = ["value", "d", "cls", "dialect", "MISSING", "Field", "kwargs", "key", "self", "m", "variant"]

# pairs of distinct identifiers that differ only in letters outside ASCII (all NFKC-stable, so the compiler keeps them as written)
UNICODE_NAME_PAIRS = [("Größe", "Grüße"), ("Ünal", "Önal"), ("Jalapeño", "Jalapeńo"), ("Дом", "Дым"), ("Καλό", "Κακό"), ("Řád", "Žád"),
                      ("X\u00e6", "X\u00f8"), ("数_a", "値_a"), ("Ære", "Øre"), ("naïve", "naíve")]
SPEC_POSITIONS = [("{c}", "{v}"), ("List[{c}]", "[{v}]"), ("Optional[{c}]", "{v}"), ("Dict[str, {c}]", "{{'k': {v}}}"),
                  ("Dict[str, List[{c}]]", "{{'k': [{v}, {v}]}}"), ("Tuple[{c}, ...]", "({v},)")]
POSITIONS = [("{c}", "{v}"), ("List[{c}]", "[{v}]"), ("Optional[{c}]", "{v}"), ("Dict[str, {c}]", "{{'k': {v}}}"), ("Tuple[{c}, ...]", "({v},)")]


def _cls_src(kind: str, name: str, extra: int, indent: str = "") -> tuple[str, str]:
    """source of a class of the given kind + a value expression (given the bound name NAME)"""
    if kind == "dc-mixin":
        src = f"@dataclass\nclass {name}(DataClassDictMixin):\n    x: int = {extra}\n    y{extra}: int = 0"
        val = "{n}()"
    elif kind == "dc-plain":
        src = f"@dataclass\nclass {name}:\n    x: int = {extra}\n    y{extra}: int = 0"
        val = "{n}()"
    elif kind == "enum":
        src = f"class {name}(enum.Enum):\n    A = {extra}\n    B = {extra + 10}"
        val = "{n}.A"
    elif kind == "intenum":
        src = f"class {name}(enum.IntEnum):\n    A = {extra}\n    B = {extra + 10}"
        val = "{n}.A"
    elif kind == "namedtuple":
        src = f"class {name}(NamedTuple):\n    a: int = {extra}"
        val = "{n}()"
    elif kind == "pathlike":
        src = f"class {name}(pathlib.PurePosixPath):\n    pass"
        val = "{n}('/p')"
    else:
        raise AssertionError(kind)
    return "\n".join(indent + ln for ln in src.splitlines()), val


IDENTITY_TEMPLATES = ["same-qualname", "same-qualname", "clean-id", "functional-local", "bogus-module", "rebound",
                      "mappingproxy", "defaultdict-local", "shadow-class", "shadow-class", "shadow-module",
                      "control-local", "control-local", "control-unicode-local", "control-unicode-local", "control-unicode-local", "control-unicode-local",
                      "make-dataclass-local", "generic-serializable-local"]
# every template is instantiated at least once per run: schema idx < len(..) takes the idx-th distinct template, the rest are drawn
IDENTITY_TEMPLATES_DISTINCT = list(dict.fromkeys(IDENTITY_TEMPLATES))


def gen_identity_schema(rng: random.Random, idx: int, template: str | None = None) -> dict:
    t = template or rng.choice(IDENTITY_TEMPLATES)
    module = f"c17i_{idx}"
    kind = rng.choice(["dc-mixin", "dc-plain", "enum", "intenum", "namedtuple", "pathlike"])
    pt, pv = rng.choice(POSITIONS)
    mixin = rng.choice(MIXINS[:3])
    tags = {"identity:" + t, "idkind:" + kind, "idpos:" + pt}
    L = []
    codec = rng.random() < 0.3
    if t == "control-unicode-local":
        # identifiers are not ASCII-only: two local classes whose (distinct) names differ only in letters outside ASCII - every
        # such letter is a word character, so clean_id keeps it and the two aliases stay distinct; the classes must be bound apart
        na, nb = rng.choice(UNICODE_NAME_PAIRS)
        if rng.random() < 0.5:
            na, nb = nb, na
        tags.add("unicode-pair:" + na + "/" + nb)
        val = _cls_src(kind, na, 1, "    ")[1]
        nest = rng.random() < 0.3
        L.append("def mk():")
        if nest:
            # the non-ASCII letter sits in an enclosing class name: Größe.K / Grüße.K
            L.append(f"    class {na}:")
            L.append(_cls_src(kind, "K", 1, "        ")[0])
            L.append(f"    class {nb}:")
            L.append(_cls_src(kind, "K", 2, "        ")[0])
            L.append(f"    return {na}.K, {nb}.K")
            tags.add("unicode-pair-nested")
        else:
            L.append(_cls_src(kind, na, 1, "    ")[0])
            L.append(_cls_src(kind, nb, 2, "    ")[0])
            L.append(f"    return {na}, {nb}")
        L.append("L1, L2 = mk()")
        names = ["L1", "L2"]
    elif t in ("same-qualname", "control-local"):
        nm2 = "L" if t == "same-qualname" else "L{n}"
        body, val = _cls_src(kind, "L" if t == "same-qualname" else "LNAME", 0, "    ")
        L.append("def mk(n):")
        if t == "same-qualname":
            L.append(_cls_src(kind, "L", 0, "    ")[0].replace("= 0", "= n", 1))
            L.append("    return L")
            L.append("L1 = mk(1); L2 = mk(2)")
        else:
            L.append("    if n == 1:")
            L.append(_cls_src(kind, "La", 1, "        ")[0])
            L.append("        return La")
            L.append(_cls_src(kind, "Lb", 2, "    ")[0])
            L.append("    return Lb")
            L.append("L1 = mk(1); L2 = mk(2)")
        names = ["L1", "L2"]
    elif t == "clean-id":
        k = rng.choice(["dc-mixin", "dc-plain", "enum"])
        tags.add("idkind2:" + k)
        kind = k
        L.append("def mk():")
        L.append(_cls_src(k, "A_B", 1, "    ")[0])
        L.append("    class A:")
        L.append(_cls_src(k, "B", 2, "        ")[0])
        L.append("    return A_B, A")
        L.append("A_B, A = mk()")
        L.append("L1 = A_B; L2 = A.B")
        val = _cls_src(k, "X", 0)[1]
        names = ["L1", "L2"]
    elif t == "functional-local":
        form = rng.choice(["enum", "intenum", "namedtuple", "collections-namedtuple"])
        tags.add("functional:" + form)
        L.append("def mk():")
        if form == "enum":
            L.append("    return enum.Enum('FE', 'A B')")
            val = "{n}.A"
        elif form == "intenum":
            L.append("    return enum.IntEnum('FE', 'A B')")
            val = "{n}.A"
        elif form == "namedtuple":
            L.append("    return NamedTuple('FE', [('a', int)])")
            val = "{n}(1)"
        else:
            L.append("    return collections.namedtuple('FE', ['a'])")
            val = "{n}(1)"
        L.append("L1 = mk()")
        names = ["L1"]
    elif t == "make-dataclass-local":
        L.append("def mk():")
        L.append("    return make_dataclass('MD', [('x', int)]" + rng.choice(["", ", bases=(DataClassDictMixin,)"]) + ")")
        L.append("L1 = mk()")
        val = "{n}(1)"
        names = ["L1"]
    elif t == "bogus-module":
        L.append(_cls_src(kind, "K", 1)[0])
        L.append("K.__module__ = 'no_such_package.no_such_module'")
        L.append("L1 = K")
        val = _cls_src(kind, "K", 1)[1]
        names = ["L1"]
    elif t == "rebound":
        L.append(_cls_src(kind, "K", 1)[0])
        L.append("L1 = K")
        L.append(_cls_src(kind, "K", 2)[0])
        L.append("L2 = K")
        val = _cls_src(kind, "K", 1)[1]
        names = ["L1", "L2"]
    elif t == "mappingproxy":
        names = []
        val = ""
    elif t == "defaultdict-local":
        k = rng.choice(["dc-mixin", "enum", "dc-plain"])
        L.append("def mk():")
        L.append(_cls_src(k, "DL", 1, "    ")[0])
        L.append("    return DL")
        L.append("L1 = mk()")
        val = _cls_src(k, "DL", 1)[1]
        names = ["L1"]
        pt, pv = "DefaultDict[str, {c}]", "collections.defaultdict({c}, {{'k': {v}}})"
    elif t == "generic-serializable-local":
        # the type arguments of a GenericSerializableType are pasted into the generated code as a list of type references
        # (pack.py pack_generic_serializable_type / unpack.py unpack_generic_serializable_type): a class defined in a function,
        # alone or inside a generic alias; the round trip demands that _deserialize receives the very class (GS.__eq__)
        k = rng.choice(["dc-mixin", "enum", "dc-plain"])
        L.append("GT = TypeVar('GT')")
        L.append("class GS(Generic[GT], GenericSerializableType):\n"
                 "    def __init__(self, v, ts=()):\n        self.v = v\n        self.ts = tuple(ts)\n"
                 "    def _serialize(self, types):\n        return [self.v, len(types)]\n"
                 "    @classmethod\n    def _deserialize(cls, value, types):\n        return cls(value[0], types)\n"
                 "    def __eq__(self, o):\n        return type(o) is GS and o.v == self.v and o.ts == self.ts\n"
                 "    def __repr__(self):\n        return f'GS({self.v!r}, {self.ts!r})'")
        where = rng.choice(["function", "function", "module"])
        tags.add("gs-arg:" + where)
        if where == "function":
            L.append("def mk():")
            L.append(_cls_src(k, "DL", 1, "    ")[0])
            L.append("    return DL")
            L.append("L1 = mk()")
        else:
            L.append(_cls_src(k, "DL", 1)[0])
            L.append("L1 = DL")
        val = ""
        names = ["L1"]
        pt, pv = rng.choice([("GS[{c}]", "GS(1, ({c},))"), ("GS[List[{c}]]", "GS(1, (List[{c}],))"), ("List[GS[{c}]]", "[GS(2, ({c},))]"),
                             ("Optional[GS[{c}]]", "GS(3, ({c},))")])
        tags.add("gs-pos:" + pt)
    elif t == "shadow-class":
        sn = rng.choice(SHADOW_CLASS_NAMES)
        tags.add("shadow:" + sn)
        k = rng.choice(["dc-mixin", "dc-plain", "enum"])
        src, val = _cls_src(k, sn, 1)
        L.append(src)
        L.append(f"L1 = {sn}")
        # restore the prelude names the class definition has just shadowed inside this module
        # (the class keeps its own name: re-binding that one would make it unreachable by name)
        keep = [m for m in ("collections", "datetime", "typing", "types", "uuid", "enum", "pathlib") if m != sn]
        L.append("from dataclasses import dataclass, field, make_dataclass; import " + ", ".join(keep))
        names = ["L1"]
    elif t == "shadow-module":
        module = rng.choice(SHADOW_MODULE_NAMES)
        tags.add("shadow-module:" + module)
        k = rng.choice(["dc-mixin", "dc-plain", "enum"])
        src, val = _cls_src(k, "K", 1)
        L.append(src)
        L.append("L1 = K")
        names = ["L1"]
    else:
        raise AssertionError(t)

    fields = []
    mk = []
    ident = []
    for i, n in enumerate(names):
        ft = pt.format(c=n)
        if t in ("defaultdict-local", "generic-serializable-local"):
            fv = pv.format(c=n, v=val.format(n=n))
        else:
            fv = pv.format(v=val.format(n=n))
        fields.append(f"    f{i}: {ft}")
        mk.append(f"f{i}={fv}")
        ident.append(f"IDENT.append((H, 'f{i}', {n}))")
    if t == "mappingproxy":
        req = rng.random() < 0.5
        fields.append("    f0: types.MappingProxyType[str, int]" + ("" if req else " = field(default_factory=lambda: types.MappingProxyType({}))"))
        fields.append("    f1: int = 0")
        mk.append("f0=types.MappingProxyType({'a': 1})")
    else:
        fields.append("    z: int = 0")
    if codec:
        L.append("@dataclass\nclass H:\n" + "\n".join(fields))
        L.append(f"MAKE['H'] = lambda: H({', '.join(mk)})")
        L.append(f"CODECS.append(({rng.choice(['basic', 'json', 'orjson', 'msgpack'])!r}, H, MAKE['H'], None))")
        tags.add("id-entry:codec")
    else:
        L.append(f"@dataclass\nclass H({mixin}):\n" + "\n".join(fields))
        L.append(f"MAKE['H'] = lambda: H({', '.join(mk)})")
        L.append("ROOTS.append(H)")
        tags.add("id-entry:mixin")
    if names:
        L.append(f"CLASSES.extend([{', '.join(names)}])")
    if t == "generic-serializable-local":
        L.append("ROUNDTRIP.append(H)")
    if not codec or t == "control-unicode-local":
        L += ident
    src = PRELUDE + "\n".join(L) + "\n"
    return {"src": src, "module": module, "tags": sorted(tags), "defloc": "identity:" + t, "idx": idx, "template": t}


# ---------------------------------------------------------------------------
# family "latename": a helper function (union / type-var / literal / discriminator unpacker or packer)
# is compiled BEFORE the enclosing method registers further names, and refers back to the class being
# built: any divergence between "namespace at exec time", "namespace at first call" and the builder's
# globals shows up as an unresolved name in the helper
# ---------------------------------------------------------------------------

# members that cannot be mistaken for the class itself or for each other on the wire (the round trip must be exact)
LATE_MEMBERS = [("int", "3"), ("str", "'s'"), ("None", "None"), ("List[int]", "[1]"), ("bool", "True"), ("float", "1.5")]


def gen_latename_schema(rng: random.Random, idx: int) -> dict:
    module = f"c17l_{idx}"
    tags = set()
    L = []
    n = "Node"
    form = rng.choice(["union-self", "union-self", "union-name", "container-union-self", "typevar-constrained", "discriminated-self",
                       "mutual", "nested-holder", "literal-and-self", "optional-self"])
    tags.add("late:" + form)
    local = rng.random() < 0.3 and form not in ("union-name", "mutual")
    entry = rng.choice(["codec", "codec", "mixin", "both"])
    tags.add("late-entry:" + entry)
    mixin = rng.choice(MIXINS[:4]) if entry in ("mixin", "both") else ""
    base = f"({mixin})" if mixin else ""
    others = rng.sample(LATE_MEMBERS, rng.choice([1, 2, 3]))
    # keep decoding unambiguous for the round trip: the leaf value is the first non-None other member
    leaf_t, leaf_v = next(((t, v) for t, v in others if t != "None"), ("int", "3"))
    if all(t == "None" for t, _ in others):
        others.append((leaf_t, leaf_v))
    ref = "Self" if form != "union-name" else f"'{n}'"
    members = [ref] + [t for t, _ in others]
    if rng.random() < 0.5:
        rng.shuffle(members)
    u = f"Union[{', '.join(members)}]"
    extra_decl = []
    roundtrip = True
    if form in ("union-self", "union-name"):
        fields = [f"    child: {u} = {leaf_v if leaf_t in ('int', 'str', 'bool', 'float') else 'None' if 'None' in members else 'field(default_factory=lambda: ' + leaf_v + ')'}"]
        if "None" not in members and leaf_t not in ("int", "str", "bool", "float"):
            fields = [f"    child: {u} = field(default_factory=lambda: {leaf_v})"]
        val = f"{n}({n}({leaf_v}))"
    elif form == "container-union-self":
        c = rng.choice(["List[{u}]", "Dict[str, {u}]", "Tuple[{u}, ...]", "Optional[List[{u}]]"])
        fields = [f"    child: {c.format(u=u)} = field(default_factory=lambda: {'{}' if c.startswith('Dict') else '()' if c.startswith('Tuple') else '[]'})"]
        inner = f"{n}()"
        val = f"{n}({{'k': {inner}}})" if c.startswith("Dict") else f"{n}(({inner}, {leaf_v}))" if c.startswith("Tuple") else f"{n}([{inner}, {leaf_v}])"
    elif form == "typevar-constrained":
        extra_decl.append(f"TV = TypeVar('TV', {leaf_t if leaf_t != 'None' else 'int'}, str)")
        fields = [f"    x: TV = {leaf_v if leaf_t in ('int', 'str', 'bool', 'float') else repr('s')}", f"    child: {u} = None" if "None" in members else f"    child: Optional[{u}] = None"]
        base = f"({mixin + ', ' if mixin else ''}Generic[TV])"
        val = f"{n}(child={n}())"
    elif form == "discriminated-self":
        fields = [f"    kind: Literal['n'] = 'n'", f"    child: Union[Annotated[Self, Discriminator(field='kind', include_subtypes=True)], int, None] = None"
                  if rng.random() < 0.5 else f"    child: {u} = None" if "None" in members else f"    child: Optional[{u}] = None"]
        val = f"{n}(child={n}())"
    elif form == "mutual":
        extra_decl.append(f"@dataclass\nclass Other{base}:\n    back: Union['{n}', int, None] = None")
        fields = [f"    child: Union[Other, str, None] = None"]
        val = f"{n}(Other({n}(Other(3))))"
    elif form == "nested-holder":
        fields = [f"    child: {u} = None" if "None" in members else f"    child: Optional[{u}] = None"]
        val = f"{n}({n}())"
    elif form == "literal-and-self":
        fields = [f"    tag: Literal['a', 1, None] = 'a'", f"    child: {u} = None" if "None" in members else f"    child: Optional[{u}] = None"]
        val = f"{n}('a', {n}(1))"
    else:   # optional-self (inlined, the shape the upstream tests cover)
        fields = ["    child: Optional[Self] = None", "    kids: List[Self] = field(default_factory=list)"]
        val = f"{n}({n}(), [{n}()])"
    L += extra_decl
    L.append(f"@dataclass\nclass {n}{base}:\n" + "\n".join(fields))
    L.append(f"MAKE[{n!r}] = lambda: {val}")
    holder_val = None
    if form == "nested-holder":
        L.append(f"@dataclass\nclass Holder{('(' + mixin + ')') if mixin else ''}:\n    inner: {n}\n    more: List[{n}] = field(default_factory=list)")
        L.append(f"MAKE['Holder'] = lambda: Holder({val}, [{val}])")
        holder_val = "Holder"
    top = holder_val or n
    if entry in ("mixin", "both"):
        L.append(f"ROOTS.append({top})")
    if entry in ("codec", "both"):
        for kind in rng.sample(["basic", "json", "orjson", "msgpack", "yaml"], rng.choice([1, 2])):
            if mixin and entry == "both":
                # the same class through a codec as well (codecs build their own, not nailed, functions)
                L.append(f"CODECS.append(({kind!r}, {top}, MAKE[{top!r}], None))")
            else:
                L.append(f"CODECS.append(({kind!r}, {top}, MAKE[{top!r}], None))")
            tags.add("codec:" + kind)
    names = [n] + (["Holder"] if holder_val else []) + (["Other"] if form == "mutual" else [])
    L.append(f"CLASSES.extend([{', '.join(names)}])")
    L.append(f"ROUNDTRIP.extend([{', '.join(names)}])")
    if form in ("union-self", "union-name", "nested-holder", "literal-and-self"):
        L.append(f"IDENT.append(({n}, 'child', {n}))")
    if local:
        src = PRELUDE + wrap_local(L, [])
        tags.add("scope:function")
    else:
        src = PRELUDE + "\n".join(L) + "\n"
        tags.add("scope:module")
    return {"src": src, "module": module, "tags": sorted(tags), "defloc": "latename:" + form, "idx": idx, "template": form}


# ---------------------------------------------------------------------------
# family "defaults": default values that the generators have to mention in the generated text
# (omit_default comparisons, skip_defaults-like options): every kind of default object must be
# referred to through the namespace, never through its repr
# ---------------------------------------------------------------------------

DEFAULT_ITEMS = [
    ("int", "1"), ("str", "'s'"), ("float", "1.5"), ("bool", "True"), ("None", "None"), ("bytes", "b'x'"),
    ("pathlib.PurePosixPath", "pathlib.PurePosixPath('/a')"), ("pathlib.Path", "pathlib.Path('/a/b')"),
    ("ipaddress.IPv4Address", "ipaddress.IPv4Address('1.2.3.4')"), ("uuid.UUID", "uuid.UUID(int=5)"),
    ("decimal.Decimal", "decimal.Decimal('1.25')"), ("fractions.Fraction", "fractions.Fraction(1, 3)"),
    ("datetime.date", "datetime.date(2020, 1, 2)"), ("datetime.timedelta", "datetime.timedelta(seconds=90)"),
    ("DE", "DE.A"), ("DF", "DF.A | DF.B"), ("DS", "DS_OBJ"), ("DN", "DN(1, 's')"), ("DC", "DC(2)"),
    ("FrozenSet[int]", "frozenset([1])"), ("List[int]", "[1, 2]"), ("Dict[str, int]", "{'a': 1}"), ("float", "float('nan')"),
    ("Tuple[int, str]", "(1, 's')"),
]

DEFAULTS_DECLS = """class DE(enum.Enum):
    A = 'a'
    B = 'b'
class DF(enum.Flag):
    A = 1
    B = 2
class DS(SerializableType):
    def __init__(self, v=1): self.v = v
    def __eq__(self, o): return type(o) is DS and o.v == self.v
    def __hash__(self): return hash(self.v)
    def _serialize(self): return self.v
    @classmethod
    def _deserialize(cls, value): return cls(value)
DS_OBJ = DS(7)
class DN(NamedTuple):
    a: int
    b: str
@dataclass(frozen=True)
class DC(DataClassDictMixin):
    x: int = 0
"""


def gen_defaults_schema(rng: random.Random, idx: int) -> dict:
    module = f"c17d_{idx}"
    tags = set()
    local = rng.random() < 0.25
    L = [DEFAULTS_DECLS]
    mixin = rng.choice(MIXINS[:4])
    entry = rng.choice(["mixin", "mixin", "codec", "both"])
    where = rng.choice(["config", "config", "dialect-config", "dialect-call", "dialect-codec"])
    tags |= {"defaults-entry:" + entry, "omit_default:" + where}
    fields = []
    nf = rng.choice([2, 3, 4, 5])
    for i in range(nf):
        shape = rng.choice(["tuple", "tuple", "tuple", "tuple1", "nested-tuple", "vartuple", "scalar", "optional-tuple", "empty-tuple"])
        items = [rng.choice(DEFAULT_ITEMS) for _ in range(rng.choice([1, 2, 3]))]
        if shape == "scalar":
            t, v = items[0]
        elif shape == "tuple1":
            t, v = f"Tuple[{items[0][0]}]", f"({items[0][1]},)"
        elif shape == "nested-tuple":
            t = f"Tuple[int, Tuple[{', '.join(x[0] for x in items)}]]"
            v = f"(1, ({', '.join(x[1] for x in items)},))"
        elif shape == "vartuple":
            t, v = f"Tuple[{items[0][0]}, ...]", f"({items[0][1]}, {items[0][1]})"
        elif shape == "optional-tuple":
            t = f"Optional[Tuple[{', '.join(x[0] for x in items)}]]"
            v = f"({', '.join(x[1] for x in items)},)"
        elif shape == "empty-tuple":
            t, v = "Tuple[()]", "()"
        else:
            t = f"Tuple[{', '.join(x[0] for x in items)}]"
            v = f"({', '.join(x[1] for x in items)},)"
        tags.add("default-shape:" + shape)
        for x in items:
            tags.add("default-item:" + x[0])
        mutable = any(k in v for k in ("[1, 2]", "{'a': 1}")) and shape == "scalar"
        if rng.random() < 0.5 and not mutable:
            fields.append(f"    f{i}: {t} = {v}")
        else:
            fields.append(f"    f{i}: {t} = field(default_factory=lambda: {v})")
    cfg = []
    if where == "config":
        cfg = ["    class Config(BaseConfig):", "        omit_default = True"]
        if rng.random() < 0.4:
            cfg.append("        code_generation_options = [" + rng.choice(["TO_DICT_ADD_OMIT_NONE_FLAG", "ADD_DIALECT_SUPPORT", "TO_DICT_ADD_BY_ALIAS_FLAG"]) + "]")
    else:
        L.append("class OD(Dialect):\n    omit_default = True")
        if where == "dialect-config":
            cfg = ["    class Config(BaseConfig):", "        dialect = OD"]
        elif where == "dialect-call":
            cfg = ["    class Config(BaseConfig):", "        code_generation_options = [ADD_DIALECT_SUPPORT]"]
        L.append("DIALECTS.append(OD)")
    plain = entry == "codec" or where == "dialect-codec"
    base = "" if plain else f"({mixin})"
    L.append("@dataclass\nclass H" + base + ":\n" + "\n".join(fields + (cfg if not plain or where == "config" else [])))
    L.append("MAKE['H'] = lambda: H()")
    if not plain:
        L.append("ROOTS.append(H)")
    if plain or entry == "both":
        dd = "OD" if where.startswith("dialect") else "None"
        for kind in rng.sample(["basic", "json", "orjson", "msgpack", "yaml"], rng.choice([1, 2])):
            L.append(f"CODECS.append(({kind!r}, H, MAKE['H'], {dd}))")
    L.append("CLASSES.extend([H, DE, DF, DS, DN, DC])")
    if "nan" not in "".join(fields):
        L.append("ROUNDTRIP.append(H)")
    if local:
        src = PRELUDE + wrap_local(L, [])
        tags.add("scope:function")
    else:
        src = PRELUDE + "\n".join(L) + "\n"
        tags.add("scope:module")
    return {"src": src, "module": module, "tags": sorted(tags), "defloc": "defaults:" + where, "idx": idx, "template": where}


# ---------------------------------------------------------------------------
# family "multimod": the schema spans several user packages / modules.  Dimensions: same-named classes
# in different modules; classes of a foreign top-level package reached only indirectly (a bare TypeVar
# resolved in a subclass, generic arguments, strategy annotations); user modules / classes whose names
# coincide with stdlib modules or with names living in the builder's namespace; string annotations whose
# evaluation namespace the library picks itself (SerializableType / SerializationStrategy with
# use_annotations under `from __future__ import annotations`).  Every schema here is supported by the
# library: it must build, round-trip exactly and bind the annotated classes.
# ---------------------------------------------------------------------------

MM_SUBNAMES = ["models", "types", "enum", "math", "uuid", "typing", "v1", "dialect", "helpers", "field", "collections", "datetime", "config"]
MM_CLSNAMES = ["Address", "Item", "Field", "Alias", "Dialect", "Sentinel", "Payload", "Money", "Config", "MISSING", "Discriminator",
               "ValueSpec", "CodeBuilder", "UUID", "Decimal"]
MM_BUILDER_NAMES = ["dialect", "cls", "lines", "attrs", "decoder", "encoder", "globals", "format_name", "default_dialect", "field_classes"]
MM_HDR = ("from dataclasses import dataclass, field\nimport enum\nfrom typing import *\nfrom mashumaro import DataClassDictMixin\n"
          "from mashumaro.mixins.json import DataClassJSONMixin\n")


def _mm_class(kind: str, name: str, extra: int) -> str:
    if kind == "dc-mixin":
        ys = "".join(f"\n    y{i}: int = 0" for i in range(extra))
        return f"@dataclass\nclass {name}(DataClassDictMixin):\n    x: int = {extra}{ys}"
    if kind == "dc-plain":
        ys = "".join(f"\n    y{i}: int = 0" for i in range(extra))
        return f"@dataclass\nclass {name}:\n    x: int = {extra}{ys}"
    return f"class {name}(enum.Enum):\n    A = 1\n    B = 2"


def gen_multimod_schema(rng: random.Random, idx: int) -> dict:
    tags = set()
    pa, pb = f"c17m{idx}a", f"c17m{idx}b"
    sa, sb = rng.choice(MM_SUBNAMES), rng.choice(MM_SUBNAMES)
    depth_b = rng.choice([1, 1, 2])                      # pkg.sub or pkg.sub.inner
    ma = f"{pa}.{sa}"
    mb = f"{pb}.{sb}" if depth_b == 1 else f"{pb}.{sb}.inner"
    cn = rng.choice(MM_CLSNAMES)
    cn_b = cn if rng.random() < 0.7 else rng.choice(MM_CLSNAMES)
    kind = rng.choice(["dc-mixin", "dc-mixin", "dc-plain", "enum"])
    tags |= {"mm-sub:" + sa, "mm-sub:" + sb, "mm-class:" + cn, "mm-kind:" + kind, "mm-same-name:" + str(cn == cn_b)}
    shape = rng.choice(["same-name", "same-name", "typevar-foreign", "typevar-foreign", "string-annotations", "string-annotations", "mixed",
                        "generic-two-spec", "generic-two-spec", "generic-two-spec"])
    tags.add("mm-shape:" + shape)
    if shape == "generic-two-spec" and cn != cn_b and rng.random() < 0.6:
        tags.discard("mm-same-name:False")
        cn_b = cn
        tags.add("mm-same-name:True")
    # user names equal to attributes of the builder object (its __dict__ must never be a namespace of annotations)
    force_bare = False
    if shape in ("string-annotations", "mixed") and rng.random() < 0.45:
        if rng.random() < 0.7:
            sa = rng.choice(MM_BUILDER_NAMES)
            ma = f"{pa}.{sa}"
            force_bare = True
        else:
            cn = cn_b = rng.choice(MM_BUILDER_NAMES)
        tags.add("mm-builder-attr-name")
    future = shape in ("string-annotations", "mixed") and rng.random() < 0.8
    aux = [[pa, ""], [ma, MM_HDR + _mm_class(kind, cn, 1) + "\n"], [pb, ""]]
    if depth_b == 2:
        aux.append([f"{pb}.{sb}", ""])
    aux.append([mb, MM_HDR + _mm_class(kind, cn_b, 2) + "\n"])
    val = "{r}.A" if kind == "enum" else "{r}()"

    imports = []
    # how the main module refers to the two classes
    style_a = rng.choice(["from-class", "dotted", "from-sub-bare", "from-sub-alias"])
    if force_bare:
        style_a = "from-sub-bare"
    if style_a == "from-sub-bare" and sa == "field":
        style_a = "from-sub-alias"       # the main module itself calls dataclasses.field below
    style_b = rng.choice(["from-class-as", "dotted", "from-sub-alias"])
    tags |= {"mm-import-a:" + style_a, "mm-import-b:" + style_b}
    if style_a == "from-class":
        imports.append(f"from {ma} import {cn}")
        ra = cn
    elif style_a == "dotted":
        imports.append(f"import {ma}")
        ra = f"{ma}.{cn}"
    elif style_a == "from-sub-bare":
        imports.append(f"from {pa} import {sa}")       # a user module object called e.g. `types` / `enum` / `typing`
        ra = f"{sa}.{cn}"
    else:
        imports.append(f"from {pa} import {sa} as mod_a")
        ra = f"mod_a.{cn}"
    if style_b == "from-class-as":
        imports.append(f"from {mb} import {cn_b} as {cn_b}_b")
        rb = f"{cn_b}_b"
    elif style_b == "dotted":
        imports.append(f"import {mb}")
        rb = f"{mb}.{cn_b}"
    else:
        imports.append(f"from {mb.rpartition('.')[0]} import {mb.rpartition('.')[2]} as mod_b")
        rb = f"mod_b.{cn_b}"

    mixin = rng.choice(["DataClassDictMixin", "DataClassJSONMixin", "DataClassORJSONMixin", "DataClassMessagePackMixin", ""])
    base = f"({mixin})" if mixin else ""
    L = []
    holders = []
    if shape in ("same-name", "mixed"):
        (pt0, pv0), (pt1, pv1) = rng.choice(POSITIONS), rng.choice(POSITIONS)
        t0, t1 = pt0.format(c=ra), pt1.format(c=rb)
        if rng.random() < 0.5:
            # PEP 695 aliases: named types without __qualname__, defined next to the holder or in package A
            if rng.random() < 0.5:
                L.append(f"type AliasA = {t0}\ntype AliasB = {t1}")
            else:
                aux[1][1] += f"type AliasA = {pt0.format(c=cn)}\n"
                imports.append(f"from {ma} import AliasA")
                L.append(f"type AliasB = {t1}")
            t0, t1 = "AliasA", "AliasB"
            tags.add("pep695-alias")
        L.append(f"@dataclass\nclass H{base}:\n    f0: {t0}\n    f1: {t1}\n    z: int = 0")
        L.append(f"MAKE['H'] = lambda: H({pv0.format(v=val.format(r=ra))}, {pv1.format(v=val.format(r=rb))})")
        L.append(f"IDENT.append((H, 'f0', {ra})); IDENT.append((H, 'f1', {rb}))")
        holders.append("H")
    if shape == "generic-two-spec":
        # ONE generic dataclass specialised with BOTH classes (same short name, different modules), the second specialisation compiled
        # after the first - for two fields of one holder or for two different holders: a specialised method found on the generic class
        # under the key of the type arguments is reused, so the key has to tell the two classes apart (and the order of the arguments)
        pair = rng.random() < 0.3
        emix = rng.choice(["DataClassDictMixin", "DataClassJSONMixin", ""])
        tags |= {"spec-generic:" + ("pair" if pair else "single"), "spec-generic-mixin:" + (emix or "none")}
        if pair:
            env_src = (f"T = TypeVar('T')\nU = TypeVar('U')\n@dataclass\nclass Page({(emix + ', ') if emix else ''}Generic[T, U]):\n"
                       f"    first: T\n    second: List[U]\n    total: int = 0")
            sp0, sp1 = f"Page[{ra}, {rb}]", f"Page[{rb}, {ra}]"
            sv0 = f"Page({val.format(r=ra)}, [{val.format(r=rb)}])"
            sv1 = f"Page({val.format(r=rb)}, [{val.format(r=ra)}])"
        else:
            body = rng.choice(["T", "List[T]", "List[T]", "Optional[T]", "Dict[str, T]"])
            bval = {"T": "{v}", "Optional[T]": "{v}", "List[T]": "[{v}, {v}]", "Dict[str, T]": "{{'k': {v}}}"}[body]
            tags.add("spec-body:" + body)
            env_src = f"T = TypeVar('T')\n@dataclass\nclass Page({(emix + ', ') if emix else ''}Generic[T]):\n    items: {body}\n    total: int = 0"
            sp0, sp1 = f"Page[{ra}]", f"Page[{rb}]"
            sv0 = f"Page({bval.format(v=val.format(r=ra))})"
            sv1 = f"Page({bval.format(v=val.format(r=rb))})"
        if rng.random() < 0.5:
            aux[1][1] += env_src + "\n"
            imports.append(f"from {ma} import Page")
            tags.add("spec-generic-in:package-a")
        else:
            L.append(env_src)
            tags.add("spec-generic-in:main")
        (pt0, pv0), (pt1, pv1) = rng.choice(SPEC_POSITIONS), rng.choice(SPEC_POSITIONS)
        tags |= {"spec-pos:" + pt0, "spec-pos:" + pt1}
        if rng.random() < 0.5:
            tags.add("spec-holders:two")
            L.append(f"@dataclass\nclass OldReply{base}:\n    pages: {pt0.format(c=sp0)}\n    z: int = 0")
            L.append(f"@dataclass\nclass NewReply{base}:\n    pages: {pt1.format(c=sp1)}\n    z: int = 0")
            L.append(f"MAKE['OldReply'] = lambda: OldReply({pv0.format(v=sv0)})")
            L.append(f"MAKE['NewReply'] = lambda: NewReply({pv1.format(v=sv1)})")
            holders += ["OldReply", "NewReply"]
        else:
            tags.add("spec-holders:one")
            L.append(f"@dataclass\nclass Reply{base}:\n    f0: {pt0.format(c=sp0)}\n    f1: {pt1.format(c=sp1)}\n    z: int = 0")
            L.append(f"MAKE['Reply'] = lambda: Reply({pv0.format(v=sv0)}, {pv1.format(v=sv1)})")
            holders.append("Reply")
    if shape in ("typevar-foreign", "mixed"):
        # the generic base lives with package A (or in the main module), the argument comes from package B only
        body = rng.choice(["T", "T", "Optional[T]", "List[T]", "Dict[str, T]"])
        bval = {"T": "{v}", "Optional[T]": "{v}", "List[T]": "[{v}]", "Dict[str, T]": "{{'k': {v}}}"}[body]
        tags.add("mm-typevar-body:" + body)
        env_src = f"T = TypeVar('T')\n@dataclass\nclass Envelope({(mixin + ', ') if mixin else ''}Generic[T]):\n    body: {body}\n    tag: int = 0"
        env_src = env_src.replace("DataClassORJSONMixin", "DataClassJSONMixin").replace("DataClassMessagePackMixin", "DataClassJSONMixin")
        if rng.random() < 0.5:
            aux[1][1] += env_src + "\n"
            imports.append(f"from {ma} import Envelope")
        else:
            L.append(env_src)
        L.append(f"@dataclass\nclass PE(Envelope[{rb}]):\n    more: int = 1")
        L.append(f"MAKE['PE'] = lambda: PE({bval.format(v=val.format(r=rb))})")
        if body in ("T", "Optional[T]", "List[T]", "Dict[str, T]"):
            L.append(f"IDENT.append((PE, 'body', {rb}))")
        holders.append("PE")
    if shape in ("string-annotations", "mixed"):
        c1 = rng.choice(["list[{r}]", "Dict[str, {r}]", "{r}", "Optional[{r}]", "Tuple[{r}, int]"])
        v1 = {"list[{r}]": "[{v}]", "Dict[str, {r}]": "{{'k': {v}}}", "{r}": "{v}", "Optional[{r}]": "{v}", "Tuple[{r}, int]": "({v}, 1)"}[c1]
        q = (lambda a: a) if future else (lambda a: repr(a))     # string literal annotations when there is no future import
        ann_a, ann_b = c1.format(r=ra), c1.format(r=rb)
        L.append(f"class Group(SerializableType, use_annotations=True):\n    def __init__(self, v): self.v = v\n"
                 f"    def _serialize(self) -> {q(ann_a)}: return self.v\n    @classmethod\n"
                 f"    def _deserialize(cls, value: {q(ann_a)}) -> {q('Group')}: return cls(value)\n"
                 f"    def __eq__(self, o): return type(o) is Group and o.v == self.v\n    __hash__ = None")
        L.append(f"class St(SerializationStrategy, use_annotations=True):\n"
                 f"    def serialize(self, value) -> {q(ann_b)}: return {v1.format(v='value')}\n"
                 f"    def deserialize(self, value: {q(ann_b)}) -> {q(rb)}: return "
                 + {"list[{r}]": "value[0]", "Dict[str, {r}]": "value['k']", "{r}": "value", "Optional[{r}]": "value", "Tuple[{r}, int]": "value[0]"}[c1])
        L.append(f"@dataclass\nclass Form{base}:\n    group: Group\n    s: {rb} = field(metadata={{'serialization_strategy': St()}})")
        L.append(f"MAKE['Form'] = lambda: Form(Group({v1.format(v=val.format(r=ra))}), {val.format(r=rb)})")
        L.append(f"IDENT.append((Form, 's', {rb}))")
        holders.append("Form")
    for h in holders:
        if mixin:
            L.append(f"ROOTS.append({h})")
        if not mixin or rng.random() < 0.4:
            for kd in rng.sample(["basic", "json", "orjson", "msgpack", "yaml"], 1):
                L.append(f"CODECS.append(({kd!r}, {h}, MAKE[{h!r}], None))")
                tags.add("codec:" + kd)
    L.append(f"CLASSES.extend([{ra}, {rb}])")
    L.append(f"ROUNDTRIP.extend([{', '.join(holders)}])")
    src = ("from __future__ import annotations\n" if future else "") + PRELUDE + "\n".join(imports) + "\n" + "\n".join(L) + "\n"
    if future:
        tags.add("future-annotations")
    return {"src": src, "module": f"c17m{idx}_main", "aux": aux, "must_build": True, "tags": sorted(tags),
            "defloc": "multimod:" + shape, "idx": idx, "template": shape}
