"""C15 context oracle: ONE type T, every place it can be used in.

The compiler threads a context through the type tree (`ValueSpec`: `could_be_none`, `owner`, `field_ctx`,
`no_copy_collections`): a dataclass field that is nullable (Optional annotation or default None) is compiled with
"None was already tested", and every descent into an element has to forget that.  The property says the context must be
invisible: the type on its own (Encoder/Decoder object, one-shot function) and the type nested in a dataclass field of
ANY kind (plain, Optional, default None, default_factory), in a list, mapping, tuple, Optional, NamedTuple member or
TypedDict item gives the same result for the same value.

Type grammar of this oracle (wider than the Coq model's: oracle only, the flag itself is in the model through kernel
K115b): int / str / bool / date / datetime / time / UUID / Decimal leaves, Optional, List, Dict[str,.], Tuple[..] fixed and variadic,
generated NamedTuple classes (members with and without defaults), generated TypedDicts, generated plain dataclasses.
No unions (other than Optional), no subclass instances, no look-alikes: the documented findings of the union family
cannot interfere, so every disagreement is a violation.

Values are python EXPRESSIONS over the scenario module's namespace (replays are self-contained)."""
from __future__ import annotations

from harness import c15lib as L

HEADER = """import datetime, uuid, decimal
from dataclasses import dataclass, field
from typing import Any, Dict, List, NamedTuple, Optional, Tuple, TypedDict
from mashumaro import DataClassDictMixin
from mashumaro.config import BaseConfig, ADD_DIALECT_SUPPORT
from mashumaro.dialect import Dialect
from mashumaro.codecs.basic import BasicDecoder, BasicEncoder, decode, encode
class Dl(Dialect):
    pass
"""

LEAVES = ["int", "str", "bool", "date", "datetime", "time", "uuid", "decimal"]
LEAF_SRC = {"int": "int", "str": "str", "bool": "bool", "date": "datetime.date", "datetime": "datetime.datetime",
            "time": "datetime.time", "uuid": "uuid.UUID", "decimal": "decimal.Decimal"}


# ---------------------------------------------------------------------------
# generator
# ---------------------------------------------------------------------------

class CtxScenario:
    def __init__(self):
        self.defs = []          # (kind, name, [(member, ty, has_default)])   kind in data / nt / td
        self.lazy = False
        self.dialect_support = False

    def members(self, name):
        for (k, n, ms) in self.defs:
            if n == name:
                return ms
        raise KeyError(name)


def gen_ty(rng, sc, depth, allow_opt=True):
    names = [(k, n) for (k, n, _) in sc.defs]
    choices = ["leaf"] * 3 + (["named"] * 4 if names else [])
    if depth > 0:
        choices += ["list", "dict", "tuple", "vtuple"] + (["opt"] * 3 if allow_opt else [])
    k = rng.choice(choices)
    if k == "leaf":
        return (rng.choice(LEAVES),)
    if k == "named":
        return rng.choice(names)
    if k == "list":
        return ("list", gen_ty(rng, sc, depth - 1))
    if k == "dict":
        return ("dict", gen_ty(rng, sc, depth - 1))
    if k == "tuple":
        return ("tuple", [gen_ty(rng, sc, depth - 1) for _ in range(rng.randint(1, 3))])
    if k == "vtuple":
        return ("vtuple", gen_ty(rng, sc, depth - 1))
    return ("opt", gen_ty(rng, sc, depth - 1, allow_opt=False))


def gen_ctx_scenario(rng) -> CtxScenario:
    sc = CtxScenario()
    sc.lazy = rng.random() < 0.25
    sc.dialect_support = rng.random() < 0.3
    for i in range(rng.randint(2, 5)):
        kind = rng.choice(["data", "nt", "nt", "td"])
        name = {"data": "R", "nt": "N", "td": "D"}[kind] + str(i)
        ms, seen_default = [], False
        for j in range(rng.randint(1, 3)):
            t = gen_ty(rng, sc, rng.choice([0, 1, 1, 2]))
            # members that are None-able and not trivially packed are what a lost context shows up at
            if rng.random() < 0.45:
                inner = t[1] if t[0] == "opt" else t
                t = ("opt", inner)
            dflt = kind != "td" and (seen_default or (t[0] == "opt" and rng.random() < 0.5))
            seen_default = seen_default or dflt
            ms.append((f"m{j}", t, dflt and t[0] == "opt"))
            if seen_default and not ms[-1][2]:
                # fields without default may not follow fields with default: make it None-able with default
                ms[-1] = (f"m{j}", ("opt", t[1] if t[0] == "opt" else t), True)
        sc.defs.append((kind, name, ms))
    return sc


def ty_src(t) -> str:
    k = t[0]
    if k in LEAF_SRC:
        return LEAF_SRC[k]
    if k in ("data", "nt", "td"):
        return t[1]
    if k == "list":
        return f"List[{ty_src(t[1])}]"
    if k == "dict":
        return f"Dict[str, {ty_src(t[1])}]"
    if k == "tuple":
        return "Tuple[" + ", ".join(ty_src(x) for x in t[1]) + "]"
    if k == "vtuple":
        return f"Tuple[{ty_src(t[1])}, ...]"
    if k == "opt":
        return f"Optional[{ty_src(t[1])}]"
    raise ValueError(t)


def scenario_src(sc: CtxScenario) -> str:
    s = HEADER
    for (kind, name, ms) in sc.defs:
        if kind == "data":
            s += f"@dataclass\nclass {name}:\n"
        elif kind == "nt":
            s += f"class {name}(NamedTuple):\n"
        else:
            s += f"class {name}(TypedDict):\n"
        for (m, t, dflt) in ms:
            s += f"    {m}: {ty_src(t)}" + (" = None" if dflt else "") + "\n"
        s += "\n"
    return s


def gen_val(rng, sc, t, none_p=0.5) -> str:
    """python expression of a value conforming to t"""
    k = t[0]
    if k == "int":
        return repr(rng.choice([0, 1, -1, 7, rng.randint(-1000, 100000)]))
    if k == "str":
        return repr(L.gen_str(rng))
    if k == "bool":
        return rng.choice(["True", "False"])
    if k == "date":
        y, m, d = L.gen_date(rng).split("-")
        return f"datetime.date({int(y)}, {int(m)}, {int(d)})"
    if k == "datetime":
        y, m, d = L.gen_date(rng).split("-")
        return f"datetime.datetime({int(y)}, {int(m)}, {int(d)}, {rng.randint(0, 23)}, {rng.randint(0, 59)})"
    if k == "time":
        return f"datetime.time({rng.randint(0, 23)}, {rng.randint(0, 59)}, {rng.randint(0, 59)})"
    if k == "uuid":
        return f"uuid.UUID(int={rng.randint(0, 2 ** 64)})"
    if k == "decimal":
        return f"decimal.Decimal('{rng.randint(-999, 999)}.{rng.randint(0, 99):02d}')"
    if k == "list":
        return "[" + ", ".join(gen_val(rng, sc, t[1], none_p) for _ in range(rng.choice([0, 1, 2, 3]))) + "]"
    if k == "dict":
        keys = rng.sample(["a", "b", "k"], rng.choice([0, 1, 2]))
        return "{" + ", ".join(f"{kk!r}: {gen_val(rng, sc, t[1], none_p)}" for kk in keys) + "}"
    if k == "tuple":
        return "(" + "".join(gen_val(rng, sc, x, none_p) + ", " for x in t[1]) + ")"
    if k == "vtuple":
        return "(" + "".join(gen_val(rng, sc, t[1], none_p) + ", " for _ in range(rng.choice([0, 1, 2]))) + ")"
    if k == "opt":
        return "None" if rng.random() < none_p else gen_val(rng, sc, t[1], none_p)
    if k in ("data", "nt"):
        args = []
        for (m, mt, dflt) in sc.members(t[1]):
            if dflt and rng.random() < 0.3:
                continue        # left to its default (None)
            args.append(f"{m}={gen_val(rng, sc, mt, none_p)}")
        return f"{t[1]}(" + ", ".join(args) + ")"
    if k == "td":
        return "{" + ", ".join(f"{m!r}: {gen_val(rng, sc, mt, none_p)}" for (m, mt, _) in sc.members(t[1])) + "}"
    raise ValueError(t)


# ---------------------------------------------------------------------------
# the places a type can be used in
# ---------------------------------------------------------------------------

def outer_src(tsrc: str, sc_lazy: bool, dialect_support: bool) -> str:
    """two owners of T-typed fields of every nullability kind: a mixin class (method path) and a plain class (codec path)"""
    cfg = ""
    lines = []
    if dialect_support:
        lines.append("code_generation_options = [ADD_DIALECT_SUPPORT]")
    if sc_lazy:
        lines.append("lazy_compilation = True")
    if lines:
        cfg = "    class Config(BaseConfig):\n" + "".join(f"        {x}\n" for x in lines)
    body = (f"    plain: T_\n"
            f"    opt: Optional[T_]\n"
            f"    lst: List[T_]\n"
            f"    lopt: List[Optional[T_]]\n"
            f"    mp: Dict[str, T_]\n"
            f"    tup: Tuple[int, T_]\n"
            f"    optd: Optional[T_] = None\n"
            f"    dnone: T_ = None\n"
            f"    dfac: Optional[List[T_]] = field(default_factory=list)\n")
    return (f"T_ = {tsrc}\n"
            f"@dataclass\nclass OuterM(DataClassDictMixin):\n{body}{cfg}\n"
            f"@dataclass\nclass OuterP:\n{body}\n"
            f"class OuterN(NamedTuple):\n    a: T_\n    b: Optional[T_] = None\n\n"
            f"class OuterD(TypedDict):\n    a: T_\n    b: Optional[T_]\n\n")


FIELDS = ["plain", "opt", "lst", "lopt", "mp", "tup", "optd", "dnone", "dfac"]


def place(fld, x):
    """the value of field `fld` that holds x, and how to get x's image back out of the field's image"""
    if fld in ("plain", "opt", "optd", "dnone"):
        return x, (lambda r: r)
    if fld in ("lst", "lopt", "dfac"):
        return [x], (lambda r: r[0])
    if fld == "mp":
        return {"k": x}, (lambda r: r["k"])
    if fld == "tup":
        return (3, x), (lambda r: r[1])
    raise ValueError(fld)


def canon(o):
    """type-strict structural image (1 != True, list != tuple)"""
    if isinstance(o, (list, tuple)) and not hasattr(o, "_fields"):
        return (type(o).__name__, [canon(x) for x in o])
    if isinstance(o, tuple):
        return (type(o).__name__, [canon(x) for x in o])
    if isinstance(o, dict):
        return (type(o).__name__, [(canon(k), canon(v)) for k, v in o.items()])
    import dataclasses
    if dataclasses.is_dataclass(o) and not isinstance(o, type):
        return (type(o).__name__, [(f.name, canon(getattr(o, f.name))) for f in dataclasses.fields(o)])
    return (type(o).__name__, repr(o))


def run_one(src: str, tsrc: str, vsrc: str, lazy: bool, dsup: bool, only=None):
    """-> (reference, [(entry point, observed, expected)] that disagree, number of comparisons).  Results are
    ('ok', canon) | ('err', exception class name)."""
    full = src + outer_src(tsrc, lazy, dsup)
    mod = L.load_module(full, "ctx")
    try:
        ns = mod.__dict__
        T = ns["T_"]
        x = eval(vsrc, ns)
        from typing import Dict, List, Optional, Tuple
        BasicEncoder, BasicDecoder, encode, decode = ns["BasicEncoder"], ns["BasicDecoder"], ns["encode"], ns["decode"]
        OuterM, OuterP, OuterN, OuterD, Dl = ns["OuterM"], ns["OuterP"], ns["OuterN"], ns["OuterD"], ns["Dl"]

        def res(f):
            try:
                return ("ok", canon(f()))
            except RecursionError:
                raise
            except Exception as e:  # noqa
                return ("err", type(e).__name__)

        def fresh():
            return eval(vsrc, ns)

        ref = res(lambda: BasicEncoder(T).encode(fresh()))
        bad, n = [], 0
        if ref[0] != "ok":
            return ref, bad, n
        wire0 = BasicEncoder(T).encode(fresh())

        def cmp(name, f, expect):
            nonlocal n
            if only is not None and name != only:
                return
            n += 1
            got = res(f)
            if got != expect:
                bad.append((name, got, expect))

        def filled(cls, fld, v):
            kw = {"plain": fresh(), "opt": None, "lst": [], "lopt": [None], "mp": {}, "tup": (0, fresh())}
            kw[fld] = v
            return cls(**kw)

        # ---- encoding
        cmp("encode(x, T)", lambda: encode(fresh(), T), ref)
        cmp("BasicEncoder(Optional[T]).encode(x)", lambda: BasicEncoder(Optional[T]).encode(fresh()), ref)
        cmp("BasicEncoder(List[T]).encode([x])[0]", lambda: BasicEncoder(List[T]).encode([fresh()])[0], ref)
        cmp("BasicEncoder(Dict[str,T]).encode({'k':x})['k']", lambda: BasicEncoder(Dict[str, T]).encode({"k": fresh()})["k"], ref)
        cmp("BasicEncoder(Tuple[T,int]).encode((x,1))[0]", lambda: BasicEncoder(Tuple[T, int]).encode((fresh(), 1))[0], ref)
        cmp("BasicEncoder(OuterN).encode(OuterN(x, x))", lambda: BasicEncoder(OuterN).encode(OuterN(fresh(), fresh())),
            ("ok", ("list", [ref[1], ref[1]])))
        cmp("BasicEncoder(Optional[OuterN]).encode(OuterN(x, x))", lambda: BasicEncoder(Optional[OuterN]).encode(OuterN(fresh(), fresh())),
            ("ok", ("list", [ref[1], ref[1]])))
        cmp("BasicEncoder(OuterD).encode({'a': x, 'b': x})", lambda: BasicEncoder(OuterD).encode({"a": fresh(), "b": fresh()}),
            ("ok", ("dict", [(canon("a"), ref[1]), (canon("b"), ref[1])])))
        for fld in FIELDS:
            v, out = place(fld, fresh())
            cmp(f"OuterM({fld}=..).to_dict()[{fld!r}]", lambda: out(filled(OuterM, fld, v).to_dict()[fld]), ref)
            if dsup:
                cmp(f"OuterM({fld}=..).to_dict(dialect=Dl)[{fld!r}]", lambda: out(filled(OuterM, fld, v).to_dict(dialect=Dl)[fld]), ref)
            cmp(f"BasicEncoder(OuterP).encode(OuterP({fld}=..))[{fld!r}]", lambda: out(BasicEncoder(OuterP).encode(filled(OuterP, fld, v))[fld]), ref)
            cmp(f"BasicEncoder(Optional[OuterP]).encode(OuterP({fld}=..))[{fld!r}]",
                lambda: out(BasicEncoder(Optional[OuterP]).encode(filled(OuterP, fld, v))[fld]), ref)
        # ---- decoding (of the reference image)
        import copy

        def wire():
            return copy.deepcopy(wire0)

        dref = res(lambda: BasicDecoder(T).decode(wire()))
        if dref[0] == "ok":
            cmp("decode(w, T)", lambda: decode(wire(), T), dref)
            cmp("BasicDecoder(Optional[T]).decode(w)", lambda: BasicDecoder(Optional[T]).decode(wire()), dref)
            cmp("BasicDecoder(List[T]).decode([w])[0]", lambda: BasicDecoder(List[T]).decode([wire()])[0], dref)
            cmp("BasicDecoder(Dict[str,T]).decode({'k':w})['k']", lambda: BasicDecoder(Dict[str, T]).decode({"k": wire()})["k"], dref)
            cmp("BasicDecoder(Tuple[T,int]).decode([w,1])[0]", lambda: BasicDecoder(Tuple[T, int]).decode([wire(), 1])[0], dref)
            cmp("BasicDecoder(OuterN).decode([w, w])[1]", lambda: BasicDecoder(OuterN).decode([wire(), wire()])[1], dref)
            cmp("BasicDecoder(OuterD).decode({'a': w, 'b': w})['b']", lambda: BasicDecoder(OuterD).decode({"a": wire(), "b": wire()})["b"], dref)
            wplain = BasicEncoder(T).encode(fresh())
            for fld in FIELDS:
                wv, out = place(fld, wire())
                if fld == "tup":
                    wv = [3, wv[1]]

                def doc(fld=fld, wv=wv):
                    d = {"plain": copy.deepcopy(wplain), "opt": None, "lst": [], "lopt": [None], "mp": {}, "tup": [0, copy.deepcopy(wplain)]}
                    d[fld] = copy.deepcopy(wv)
                    return d
                cmp(f"OuterM.from_dict({{{fld!r}: ..}}).{fld}", lambda: out(getattr(OuterM.from_dict(doc()), fld)), dref)
                if dsup:
                    cmp(f"OuterM.from_dict({{{fld!r}: ..}}, dialect=Dl).{fld}", lambda: out(getattr(OuterM.from_dict(doc(), dialect=Dl), fld)), dref)
                cmp(f"BasicDecoder(OuterP).decode({{{fld!r}: ..}}).{fld}", lambda: out(getattr(BasicDecoder(OuterP).decode(doc()), fld)), dref)
        return ref, bad, n
    finally:
        L.unload_module(mod)


def run_context_oracle(ctx, nscen: int, ntypes: int):
    for s in range(nscen):
        sc = gen_ctx_scenario(ctx.rng)
        src = scenario_src(sc)
        named = [(k, n) for (k, n, _) in sc.defs]
        types = list(named) + [gen_ty(ctx.rng, sc, 2) for _ in range(ntypes)]
        for t in types:
            tsrc = ty_src(t)
            for none_p in (0.2, 0.85):
                vsrc = gen_val(ctx.rng, sc, t, none_p)
                if vsrc == "None":
                    continue        # `dnone: T = None` and Optional[T] make None a value of every place; nothing to compare
                try:
                    ref, bad, n = run_one(src, tsrc, vsrc, sc.lazy, sc.dialect_support)
                except RecursionError:
                    raise
                except Exception as e:  # noqa  (a scenario the library refuses to compile is not a disagreement)
                    ctx.hist("context_oracle", "skipped:" + type(e).__name__)
                    continue
                ctx.count(("context", tsrc, vsrc), nontrivial=any(k in tsrc for k in "RND"), n=max(n, 1))
                ctx.hist("context_oracle", "compared" if ref[0] == "ok" else "reference-raises:" + ref[1])
                ctx.hist("context_type", t[0])
                for (name, got, expect) in bad[:3]:
                    ctx.fail(f"the place a type is used in changes its result: T={tsrc}, x={vsrc}: {name} = {show(got)} but "
                             f"BasicEncoder(T).encode(x) / BasicDecoder(T).decode(w) = {show(expect)}",
                             {"entry": "context", "source": src, "type": tsrc, "value": vsrc, "lazy": sc.lazy,
                              "dialect_support": sc.dialect_support, "check": name,
                              "observed": show(got), "expected": show(expect)},
                             {"kind": "context"})


def show(r):
    return repr(r)[:300]


def replay_context(rep: dict) -> int:
    ref, bad, n = run_one(rep["source"], rep["type"], rep["value"], rep.get("lazy", False), rep.get("dialect_support", False),
                          only=rep.get("check"))
    print("reference:", show(ref))
    for (name, got, expect) in bad:
        print(f"{name}: observed {show(got)}, expected {show(expect)}")
    return 1 if bad else 0
