"""C17: capture of generated programs + the direct oracle on the real implementation.

Nothing here touches /repo: the module-global name `exec` of the four generating modules is
rebound to a recording wrapper (DESIGN.md Appendix B.3)."""
from __future__ import annotations

import ast
import builtins
import dis
import io
import contextlib
import sys
import types
import warnings

_INSTALLED = False
CAPTURED: list[dict] = []       # {"code": str, "g": dict, "l": dict, "gnames": set|None, "lnames": set|None}

GEN_MODULES = ["mashumaro.core.meta.code.builder", "mashumaro.core.meta.types.pack",
               "mashumaro.core.meta.types.unpack", "mashumaro.core.meta.types.common"]


def _rec_exec(code, g=None, l=None):
    rec = {"code": code, "g": g, "l": l, "gnames": None, "lnames": None, "pre_l": set(l.keys()) if isinstance(l, dict) else set(), "pre_g": set(g.keys()) if isinstance(g, dict) else set()}
    CAPTURED.append(rec)
    _GIDS.add(id(g))
    try:
        return builtins.exec(code, g, l)
    finally:
        rec["fns"] = _defined_functions(code, l if isinstance(l, dict) else g)
        # the namespace the library itself keeps filling (builder.globals) vs the one handed to exec
        bg = l.get("globals") if isinstance(l, dict) else None
        rec["ns_is_builder_globals"] = (bg is g) if isinstance(bg, dict) else None


_DEF_RE = None


def _defined_functions(code: str, ns: dict) -> list:
    """the function objects a generated program has just defined (classmethod/staticmethod unwrapped)"""
    global _DEF_RE
    import re
    if _DEF_RE is None:
        _DEF_RE = re.compile(r"^def (\w+)\(", re.M)
    out = []
    for name in _DEF_RE.findall(code):
        obj = ns.get(name) if isinstance(ns, dict) else None
        obj = getattr(obj, "__func__", obj)
        if isinstance(obj, types.FunctionType):
            out.append(obj)
    return out


def real_globals(rec) -> dict:
    """the namespace the generated functions of this program REALLY run in: fn.__globals__"""
    fns = rec.get("fns") or []
    if fns:
        return fns[0].__globals__
    return rec["g"]


def install_capture() -> list[str]:
    """Rebind `exec` in the generating modules.  Returns the list of modules in which the
    source really calls a bare `exec(` (verification of Appendix B.3: every exec site is covered)."""
    global _INSTALLED
    import importlib
    import inspect
    import mashumaro  # noqa
    covered = []
    for mn in GEN_MODULES:
        m = importlib.import_module(mn)
        m.exec = _rec_exec
        covered.append(mn)
    install_import_recorder()
    _INSTALLED = True
    return covered


def exec_sites_outside_capture() -> list[str]:
    """Every `exec(`/`eval(` call in the package source must live in one of GEN_MODULES."""
    import os
    import mashumaro
    root = os.path.dirname(mashumaro.__file__)
    bad = []
    for dp, dn, fn in os.walk(root):
        for f in fn:
            if not f.endswith(".py"):
                continue
            p = os.path.join(dp, f)
            try:
                tree = ast.parse(open(p).read())
            except SyntaxError:
                bad.append(p + ": unparsable")
                continue
            mod = "mashumaro" + p[len(root):-3].replace(os.sep, ".")
            if mod.endswith(".__init__"):
                mod = mod[:-9]
            for node in ast.walk(tree):
                if isinstance(node, ast.Call) and isinstance(node.func, ast.Name) and node.func.id in ("exec", "eval"):
                    if mod not in GEN_MODULES:
                        bad.append(f"{mod}:{node.lineno} {node.func.id}")
    return bad


def seal(start: int = 0):
    """Snapshot the name sets of all programs not sealed yet (the moment their entry point
    becomes callable)."""
    for rec in CAPTURED[start:]:
        if rec["gnames"] is None:
            names = set(real_globals(rec).keys())
            for fn in (rec.get("fns") or [])[1:]:
                names &= set(fn.__globals__.keys())
            rec["gnames"] = names
            rec["lnames"] = set(rec["l"].keys()) if isinstance(rec["l"], dict) else set()


BUILTIN_NAMES = set(dir(builtins))

JUNK = [None, 1, "zz", [], {}, [1], {"a": 1}, 1.5, True, [[1]], {"a": {"b": 1}}, "2020-01-01", [None], b"x", -1, ""]


class Own(Exception):
    pass


def exc_chain(e: BaseException):
    seen = set()
    stack = [e]
    while stack:
        x = stack.pop()
        if x is None or id(x) in seen:
            continue
        seen.add(id(x))
        yield x
        stack.append(x.__cause__)
        stack.append(x.__context__)


def innermost_frame_file(x: BaseException):
    tb = x.__traceback__
    last = None
    while tb is not None:
        last = tb
        tb = tb.tb_next
    if last is None:
        return None, None
    fr = last.tb_frame
    fn = fr.f_code.co_filename
    if fn == "<string>" and id(fr.f_globals) not in _GLOBAL_IDS():
        fn = "<string-not-generated>"      # e.g. typing.get_type_hints evaluating a forward reference
    return fn, fr.f_code.co_name


_GIDS: set = set()


def _GLOBAL_IDS():
    return _GIDS


def _tb_has(x: BaseException, fname: str) -> bool:
    tb = x.__traceback__
    while tb is not None:
        if tb.tb_frame.f_code.co_name == fname:
            return True
        tb = tb.tb_next
    return False


def _holderish(obj) -> bool:
    if isinstance(obj, (types.ModuleType, type)):
        return True
    tn = type(obj).__name__
    if tn == "AttrsHolder":
        return True
    mod = type(obj).__module__ or ""
    return mod.startswith("mashumaro.codecs")


def own_making(e: BaseException):
    """-> (kind, text) if somewhere in the exception chain there is a NameError /
    UnboundLocalError / AttributeError *raised by generated code* (innermost frame is a
    '<string>' program) that is about the library's namespace, not about the input value."""
    for x in exc_chain(e):
        fn, co = innermost_frame_file(x)
        if isinstance(x, SyntaxError) and x.filename == "<string>":
            return "SyntaxError", f"SyntaxError in generated code: {x.text!r}", (x.text or "")
        if isinstance(x, NameError) and fn in ("<string>", "<string-not-generated>") and co == "<module>" and _tb_has(x, "evaluate_forward_ref"):
            # the library evaluates a ForwardRef itself, in a namespace of its own choosing
            return type(x).__name__, f"{type(x).__name__}: {x} (in {co}, evaluate_forward_ref)", "<forward-ref>" + str(getattr(x, "name", None))
        if fn != "<string>":
            continue
        if isinstance(x, NameError):
            nm = getattr(x, "name", None)
            if co == "<module>" and _tb_has(x, "evaluate_forward_ref"):
                nm = "<forward-ref>" + str(nm)
            return type(x).__name__, f"{type(x).__name__}: {x} (in {co})", nm
        if isinstance(x, AttributeError):
            obj = getattr(x, "obj", None)
            if obj is not None and _holderish(obj):
                on = obj.__name__ if isinstance(obj, (types.ModuleType, type)) else type(obj).__name__
                return "AttributeError", f"AttributeError: {x} (in {co})", f"{on}.{getattr(x, 'name', '?')}"
    return None


# ---------------------------------------------------------------------------
# static oracle on captured programs (independent of Coq: bytecode + live namespaces)
# ---------------------------------------------------------------------------

def code_objects(co, depth=0):
    yield co, depth
    for c in co.co_consts:
        if isinstance(c, types.CodeType):
            yield from code_objects(c, depth + 1)


def unresolved_names(rec) -> list[tuple[str, str]]:
    """names loaded as globals (LOAD_GLOBAL / LOAD_NAME) that resolve nowhere."""
    out = []
    try:
        top = compile(rec["code"], "<string>", "exec")
    except SyntaxError as e:
        return []     # reported as SyntaxError by the build
    g = rec["gnames"] if rec["gnames"] is not None else set(real_globals(rec).keys())
    l = rec["lnames"] if rec["lnames"] is not None else set()
    for co, depth in code_objects(top):
        for ins in dis.get_instructions(co):
            if ins.opname in ("LOAD_GLOBAL", "LOAD_NAME", "LOAD_FROM_DICT_OR_GLOBALS", "DELETE_GLOBAL", "DELETE_NAME"):
                n = ins.argval
                if depth == 0:
                    ok = n in l or n in g or n in BUILTIN_NAMES
                else:
                    ok = n in g or n in BUILTIN_NAMES
                if not ok:
                    out.append((co.co_name, n))
    return out


class _Chains(ast.NodeVisitor):
    """dotted chains rooted at a name that is not bound locally in the enclosing function(s)."""

    def __init__(self):
        self.scopes: list[set] = []
        self.chains: list[tuple[str, list[str], bool]] = []   # (root, attrs, in_function)
        self.local_chains: list[tuple[str, list[str]]] = []  # chains rooted at a local name

    def _bound(self, fn) -> set:
        b = set()
        a = fn.args
        for x in a.posonlyargs + a.args + a.kwonlyargs:
            b.add(x.arg)
        if a.vararg:
            b.add(a.vararg.arg)
        if a.kwarg:
            b.add(a.kwarg.arg)
        body = fn.body if isinstance(fn.body, list) else [fn.body]
        for st in body:
            for n in ast.walk(st):
                if isinstance(n, ast.Name) and isinstance(n.ctx, (ast.Store, ast.Del)):
                    b.add(n.id)
                elif isinstance(n, ast.ExceptHandler) and n.name:
                    b.add(n.name)
                elif isinstance(n, (ast.FunctionDef, ast.ClassDef)):
                    b.add(n.name)
        return b

    def visit_FunctionDef(self, node):
        for d in node.decorator_list:
            self.visit(d)
        for d in node.args.defaults + [x for x in node.args.kw_defaults if x is not None]:
            self.visit(d)
        self.scopes.append(self._bound(node))
        for st in node.body:
            self.visit(st)
        self.scopes.pop()

    def visit_Lambda(self, node):
        self.scopes.append(self._bound(node))
        self.visit(node.body)
        self.scopes.pop()

    def visit_Attribute(self, node):
        attrs = []
        cur = node
        while isinstance(cur, ast.Attribute):
            attrs.append(cur.attr)
            cur = cur.value
        if isinstance(cur, ast.Name) and isinstance(node.ctx, ast.Load):
            if not any(cur.id in s for s in self.scopes):
                self.chains.append((cur.id, attrs[::-1], bool(self.scopes)))
            else:
                self.local_chains.append((cur.id, attrs[::-1]))
            return
        self.visit(cur)


_SENTINEL = object()


def unresolved_chains(rec) -> list[str]:
    """`root.a.b` with root a global bound to a module or a class: every prefix must resolve by
    plain attribute lookup (modules and classes have static attributes, so a failure here is an
    AttributeError on whatever path evaluates the expression)."""
    out = []
    try:
        tree = ast.parse(rec["code"])
    except SyntaxError:
        return out
    v = _Chains()
    v.visit(tree)
    g = real_globals(rec)
    l = rec["l"] if isinstance(rec["l"], dict) else {}
    for root, attrs, in_fn in v.chains:
        if root in g:
            obj = g[root]
        elif not in_fn and root in l:
            obj = l[root]
        elif hasattr(builtins, root):
            obj = getattr(builtins, root)
        else:
            continue    # unresolved root: reported by unresolved_names
        path = root
        for a in attrs:
            if not isinstance(obj, (types.ModuleType, type)):
                break
            if a.startswith(("__mashumaro_", "__unpack_", "__pack_")) or (a.startswith("__") and not a.endswith("__")):
                # generated holder attribute (checked separately against the setattr set)
                break
            try:
                nxt = getattr(obj, a, _SENTINEL)
            except Exception:
                break
            if nxt is _SENTINEL:
                out.append(f"{path}.{a}")
                break
            obj = nxt
            path += "." + a
    return out


def shadowed_module_roots(rec, module_roots: set) -> list[str]:
    """a dotted name whose root is meant to be a schema module but is, where it is evaluated, a
    local name of the generated function or a global bound to something that is not a module"""
    out = []
    try:
        tree = ast.parse(rec["code"])
    except SyntaxError:
        return out
    v = _Chains()
    v.visit(tree)
    for root, attrs in v.local_chains:
        if root in module_roots and attrs and attrs[0][:1].isupper():
            out.append(f"{root}.{attrs[0]} (root is a local name of the generated function)")
    for root, attrs, in_fn in v.chains:
        rg = real_globals(rec)
        if root in module_roots and root in rg and not isinstance(rg[root], types.ModuleType):
            out.append(f"{root}.{attrs[0] if attrs else ''} (root is bound to {type(rg[root]).__name__}, not to the module)")
    return out


def holder_attr_reads(rec) -> list[tuple[str, str]]:
    """(root name, attribute) for every read `root.__generated_name` in a program"""
    out = []
    try:
        tree = ast.parse(rec["code"])
    except SyntaxError:
        return out
    for n in ast.walk(tree):
        if isinstance(n, ast.Attribute) and isinstance(n.ctx, ast.Load) and isinstance(n.value, ast.Name):
            if n.attr.startswith("__") and (n.attr.startswith("__mashumaro_") or n.attr.startswith("__unpack_") or n.attr.startswith("__pack_")):
                out.append((n.value.id, n.attr))
    return out


def holder_attr_sets(rec) -> list[tuple[str, str]]:
    out = []
    try:
        tree = ast.parse(rec["code"])
    except SyntaxError:
        return out
    for n in ast.walk(tree):
        if (isinstance(n, ast.Call) and isinstance(n.func, ast.Name) and n.func.id == "setattr" and len(n.args) == 3
                and isinstance(n.args[0], ast.Name) and isinstance(n.args[1], ast.Constant) and isinstance(n.args[1].value, str)):
            out.append((n.args[0].id, n.args[1].value))
        elif isinstance(n, ast.Attribute) and isinstance(n.ctx, ast.Store) and isinstance(n.value, ast.Name):
            out.append((n.value.id, n.attr))          # cls.__mashumaro_f0_variants_..__ = {}
    return out


# ---------------------------------------------------------------------------
# running one schema
# ---------------------------------------------------------------------------

def wire_mutations(rng, d, limit):
    """variants of the wire value `d` with one position replaced by junk / removed"""
    paths = []

    def walk(v, p, depth):
        if depth > 3:
            return
        if isinstance(v, dict):
            for k in list(v.keys())[:6]:
                paths.append(p + [k])
                walk(v[k], p + [k], depth + 1)
        elif isinstance(v, list):
            for i in range(min(len(v), 2)):
                paths.append(p + [i])
                walk(v[i], p + [i], depth + 1)
    walk(d, [], 0)
    out = []
    import copy
    for j in JUNK[:6]:
        out.append(("root", j))
    for p in paths:
        for j in rng.sample(JUNK, 4):
            try:
                c = copy.deepcopy(d)
            except Exception:
                continue
            cur = c
            for k in p[:-1]:
                cur = cur[k]
            cur[p[-1]] = j
            out.append((p, c))
        if isinstance(p[-1], str):
            try:
                c = copy.deepcopy(d)
            except Exception:
                continue
            cur = c
            for k in p[:-1]:
                cur = cur[k]
            del cur[p[-1]]
            out.append((p + ["<del>"], c))
    if len(out) > limit:
        out = out[:6] + rng.sample(out[6:], max(0, min(limit - 6, len(out) - 6)))
    return out


FORMATS = {
    "DataClassDictMixin": [("to_dict", "from_dict")],
    "DataClassJSONMixin": [("to_dict", "from_dict"), ("to_json", "from_json")],
    "DataClassORJSONMixin": [("to_dict", "from_dict"), ("to_jsonb", "from_json"), ("to_json", "from_json")],
    "DataClassMessagePackMixin": [("to_dict", "from_dict"), ("to_msgpack", "from_msgpack")],
    "DataClassYAMLMixin": [("to_dict", "from_dict"), ("to_yaml", "from_yaml")],
    "DataClassTOMLMixin": [("to_dict", "from_dict"), ("to_toml", "from_toml")],
}


def codec_pair(kind, typ, dialect):
    kw = {"default_dialect": dialect} if dialect is not None else {}
    if kind == "basic":
        from mashumaro.codecs.basic import BasicDecoder, BasicEncoder
        return BasicDecoder(typ, **kw), BasicEncoder(typ, **kw)
    if kind == "json":
        from mashumaro.codecs.json import JSONDecoder, JSONEncoder
        return JSONDecoder(typ, **kw), JSONEncoder(typ, **kw)
    if kind == "orjson":
        from mashumaro.codecs.orjson import ORJSONDecoder, ORJSONEncoder
        return ORJSONDecoder(typ, **kw), ORJSONEncoder(typ, **kw)
    if kind == "msgpack":
        from mashumaro.codecs.msgpack import MessagePackDecoder, MessagePackEncoder
        return MessagePackDecoder(typ, **kw), MessagePackEncoder(typ, **kw)
    if kind == "yaml":
        from mashumaro.codecs.yaml import YAMLDecoder, YAMLEncoder
        return YAMLDecoder(typ, **kw), YAMLEncoder(typ, **kw)
    if kind == "toml":
        from mashumaro.codecs.toml import TOMLDecoder, TOMLEncoder
        return TOMLDecoder(typ, **kw), TOMLEncoder(typ, **kw)
    raise ValueError(kind)


class SchemaRun:
    def __init__(self, schema: dict):
        self.schema = schema
        self.programs: list[dict] = []
        self.build_error: BaseException | None = None
        self.findings: list[dict] = []      # {"kind", "what", "entry", "input", ...}
        self.calls = 0
        self.module = None
        self.errors_seen: dict[str, int] = {}
        self.info: list[str] = []
        self.reachable = 0
        self.unknown_fns = 0
        self.roots: list = []

    def finding(self, kind, what, **kw):
        self.findings.append({"kind": kind, "what": what, **kw})

    def _call(self, label, fn, *a, **kw):
        """call an entry point; classify exceptions; returns (ok, result)"""
        self.calls += 1
        n0 = len(CAPTURED)
        try:
            with warnings.catch_warnings():
                warnings.simplefilter("ignore")
                res = fn(*a, **kw)
            return True, res
        except RecursionError:
            return False, None
        except Exception as e:   # noqa
            own = own_making(e)
            self.errors_seen[type(e).__name__] = self.errors_seen.get(type(e).__name__, 0) + 1
            if own:
                self.finding("own-" + own[0], own[1], entry=label, input=_short(a), exc=own[1], name=own[2])
            return False, None
        finally:
            if len(CAPTURED) > n0:
                seal(n0)


def _short(x):
    try:
        s = repr(x)
    except Exception:
        s = "<unrepr>"
    return s[:300]


def run_schema(schema: dict, rng, exercise: int = 40) -> SchemaRun:
    """Build the schema module under capture, exercise every entry point on valid and invalid
    inputs, and return the captured programs + findings."""
    sr = SchemaRun(schema)
    name = schema["module"]
    mod = types.ModuleType(name)
    sys.modules[name] = mod
    sr.module = mod
    del CAPTURED[:]
    _GIDS.clear()
    IMPORTS.clear()
    start = 0
    out = io.StringIO()
    try:
        with contextlib.redirect_stdout(out), warnings.catch_warnings():
            warnings.simplefilter("ignore")
            for aname, asrc in schema.get("aux", []):
                _exec_aux_module(aname, asrc)
            builtins.exec(compile(schema["src"], f"<{name}>", "exec", dont_inherit=True), mod.__dict__)
    except Exception as e:   # noqa
        sr.build_error = e
        own = own_making(e)
        if own:
            sr.finding("own-" + own[0], "at class creation: " + own[1], entry="<module>", input=None, exc=own[1], name=own[2])
        elif schema.get("must_build"):
            # this family only contains schemas the library supports: a refusal means a type was bound to something else
            sr.finding("build-error", f"class creation failed: {type(e).__name__}: {str(e)[:300]}", entry="<module>", input=None,
                       name=type(e).__name__)
        seal(start)
        sr.programs = CAPTURED[start:]
        static_names_oracle(sr, schema)
        return sr
    d = mod.__dict__
    codecs = []
    for kind, typ, mk, dialect in d["CODECS"]:
        ok, pair = sr._call(f"codec:{kind}", codec_pair, kind, typ, dialect)
        if ok:
            codecs.append((kind, typ, mk, pair))
    seal(start)
    dialects = d["DIALECTS"]

    # ---- mixin entry points
    for cls in d["ROOTS"]:
        mk = d["MAKE"].get(cls.__name__)
        mix = next((b.__name__ for b in cls.__mro__ if b.__name__ in FORMATS and b.__module__.startswith("mashumaro")), "DataClassDictMixin")
        ok, inst = sr._call("make", mk)
        if not ok:
            continue
        for to_n, from_n in FORMATS[mix]:
            ok, wire = sr._call(f"{cls.__name__}.{to_n}", getattr(inst, to_n))
            if not ok:
                continue
            ok, back = sr._call(f"{cls.__name__}.{from_n}", getattr(cls, from_n), wire)
            if ok and to_n == "to_dict":
                check_identity(sr, d, inst, back)
                check_deep_identity(sr, d, inst, back, f"{cls.__name__}.{from_n}")
                check_factory_identity(sr, inst, back)
            if ok:
                check_roundtrip(sr, d, inst, back, f"{cls.__name__}.{from_n}", wire)
            if to_n == "to_dict" and isinstance(wire, dict):
                for p, bad in wire_mutations(rng, wire, exercise):
                    sr._call(f"{cls.__name__}.from_dict", cls.from_dict, bad)
        # keyword variants compiled on demand
        cfg = getattr(cls, "Config", None)
        opts = list(getattr(cfg, "code_generation_options", []) or [])
        for kw in ([{"omit_none": True}] if "TO_DICT_ADD_OMIT_NONE_FLAG" in opts else []) + \
                  ([{"by_alias": True}] if "TO_DICT_ADD_BY_ALIAS_FLAG" in opts else []) + \
                  ([{"context": {}}] if "ADD_SERIALIZATION_CONTEXT" in opts else []):
            sr._call(f"{cls.__name__}.to_dict({kw})", inst.to_dict, **kw)
        if "ADD_DIALECT_SUPPORT" in opts:
            for dl in dialects:
                ok, wire = sr._call(f"{cls.__name__}.to_dict(dialect)", inst.to_dict, dialect=dl)
                if ok:
                    sr._call(f"{cls.__name__}.from_dict(dialect)", cls.from_dict, wire, dialect=dl)
                    if isinstance(wire, dict):
                        for p, bad in wire_mutations(rng, wire, max(6, exercise // 4)):
                            sr._call(f"{cls.__name__}.from_dict(dialect)", cls.from_dict, bad, dialect=dl)
        # pack-side error paths: junk attribute values
        import dataclasses
        for f in dataclasses.fields(cls)[:6]:
            for j in rng.sample(JUNK, 3):
                ok, inst2 = sr._call("make", mk)
                if not ok:
                    break
                try:
                    object.__setattr__(inst2, f.name, j)
                except Exception:
                    break
                sr._call(f"{cls.__name__}.to_dict[junk {f.name}]", inst2.to_dict)

    # ---- codecs
    for kind, typ, mk, (dec, enc) in codecs:
        ok, val = sr._call("make", mk)
        if not ok:
            continue
        ok, wire = sr._call(f"{kind}.encode", enc.encode, val)
        if ok:
            ok2, back = sr._call(f"{kind}.decode", dec.decode, wire)
            if ok2:
                check_identity(sr, d, val, back)
                check_deep_identity(sr, d, val, back, f"{kind}.decode")
                check_factory_identity(sr, val, back)
                check_roundtrip(sr, d, val, back, f"{kind}.decode", wire)
        for j in JUNK:
            if kind in ("basic",):
                sr._call(f"{kind}.decode", dec.decode, j)
            sr._call(f"{kind}.encode[junk]", enc.encode, j)
        if kind == "basic" and ok and isinstance(wire, (dict, list)):
            for p, bad in wire_mutations(rng, wire if isinstance(wire, dict) else {"_": wire}, exercise // 2):
                if not isinstance(wire, dict):
                    bad = bad.get("_") if isinstance(bad, dict) else bad
                sr._call(f"{kind}.decode", dec.decode, bad)
    seal(start)
    sr.programs = CAPTURED[start:]

    # ---- static oracle
    static_names_oracle(sr, schema)
    roots = list(d["ROOTS"]) + [c for c in d.get("CLASSES", []) if isinstance(c, type)]
    for kind, typ, mk, (dec, enc) in codecs:
        roots += [dec, enc]
    reachable_oracle(sr, roots)
    # holder attributes read must exist on the object they are read from (after the build)
    for rec in sr.programs:
        if _is_lazy_stub(rec["code"]):
            continue    # lazy stub: the attribute it reads is installed by the CodeBuilder call on the line before
        for root, attr in holder_attr_reads(rec):
            obj = real_globals(rec).get(root, rec["l"].get(root) if isinstance(rec["l"], dict) else None)
            if root in ("cls", "self") and root not in real_globals(rec):
                obj = rec["l"].get("cls") if isinstance(rec["l"], dict) else None
            if obj is None:
                continue
            if isinstance(obj, type) or type(obj).__name__ == "AttrsHolder":
                if not hasattr(obj, attr):
                    # dataclass fields of other classes are resolved on *their* class
                    sr.finding("static-holder-attr", f"generated code reads {root}.{attr} which nothing installs", program=rec["code"], name=f"{root}.{attr}")
    # rendered-name identity: every schema class must be what its rendered name denotes
    check_rendered_identity(sr, d)
    return sr


def reachable_generated_functions(roots: list, limit: int = 4000) -> list:
    """every function object with generated code ('<string>') reachable from the entry points through
    class / holder / codec attributes, function globals and the attrs registries"""
    seen, todo, out = set(), list(roots), []
    while todo and len(seen) < limit:
        obj = todo.pop()
        obj = getattr(obj, "__func__", obj) if isinstance(obj, (classmethod, staticmethod)) or isinstance(obj, types.MethodType) else obj
        if id(obj) in seen:
            continue
        seen.add(id(obj))
        if isinstance(obj, types.FunctionType):
            if obj.__code__.co_filename == "<string>":
                out.append(obj)
                for v in list(obj.__globals__.values()):
                    if isinstance(v, (types.FunctionType, classmethod, staticmethod, types.MethodType)) or type(v).__name__ == "AttrsHolder":
                        todo.append(v)
                    elif isinstance(v, dict) and v and all(type(x).__name__ == "AttrsHolder" for x in v.values()):
                        todo.extend(v.values())
                    elif isinstance(v, type) and any(k.startswith("__mashumaro_") for k in vars(v)):
                        todo.append(v)
            continue
        if isinstance(obj, type) or type(obj).__name__ == "AttrsHolder" or (type(obj).__module__ or "").startswith("mashumaro.codecs"):
            try:
                items = list(vars(obj).items())
            except TypeError:
                items = []
            for k, v in items:
                if isinstance(v, (types.FunctionType, classmethod, staticmethod, types.MethodType)) and (
                        k.startswith(("__mashumaro_", "__unpack_", "__pack_")) or k in ("decode", "encode", "to_dict", "from_dict")
                        or k.startswith(("to_", "from_"))):
                    todo.append(v)
    return out


_PRE: set | None = None


def _preexisting() -> set:
    """functions the library generated for its own mixin base classes when it was imported (before capture)"""
    global _PRE
    if _PRE is None:
        import importlib
        roots = []
        for mn, cn in (("mashumaro", "DataClassDictMixin"), ("mashumaro.mixins.json", "DataClassJSONMixin"),
                       ("mashumaro.mixins.orjson", "DataClassORJSONMixin"), ("mashumaro.mixins.msgpack", "DataClassMessagePackMixin"),
                       ("mashumaro.mixins.yaml", "DataClassYAMLMixin"), ("mashumaro.mixins.toml", "DataClassTOMLMixin")):
            roots.append(getattr(importlib.import_module(mn), cn))
        _PRE = {id(fn) for fn in reachable_generated_functions(roots)}
        _PRE_KEEP.extend(roots)
    return _PRE


_PRE_KEEP: list = []


def reachable_oracle(sr: SchemaRun, roots: list):
    """the property's own quantifier: forall generated function g reachable from the public entry points,
    forall global name n loaded anywhere in g: n resolves in g.__globals__ (as it is NOW) or builtins"""
    known = {id(fn) for rec in sr.programs for fn in (rec.get("fns") or [])} | _preexisting()
    fns = reachable_generated_functions(roots)
    sr.reachable = len(fns)
    for fn in fns:
        if id(fn) not in known and str(fn.__globals__.get("__name__", "")).startswith("mashumaro"):
            sr.unknown_fns += 1
            sr.info.append(f"reachable generated function not created by a captured exec: {fn.__qualname__} (module {fn.__module__}, globals __name__={fn.__globals__.get('__name__')!r})")
        missing = set()
        for co, depth in code_objects(fn.__code__):
            for ins in dis.get_instructions(co):
                if ins.opname in ("LOAD_GLOBAL", "LOAD_NAME") and ins.argval not in fn.__globals__ and ins.argval not in BUILTIN_NAMES:
                    missing.add(ins.argval)
        for n in sorted(missing):
            prog = next((rec["code"] for rec in sr.programs if any(f is fn for f in (rec.get("fns") or []))), "")
            sr.finding("static-unresolved-name", f"reachable generated function {fn.__name__} loads global {n!r} which is not in its __globals__ nor a builtin",
                       program=prog, name=n)


def static_names_oracle(sr: SchemaRun, schema: dict):
    partial = sr.build_error is not None
    for i, rec in enumerate(sr.programs):
        for fn, n in unresolved_names(rec):
            sr.finding("static-unresolved-name", f"generated function {fn} loads global {n!r} which is neither in its globals nor a builtin",
                       program=rec["code"], name=n)
        for ch in unresolved_chains(rec):
            if partial and ch.split(".")[0] == schema["module"].split(".")[0]:
                continue    # the module did not finish executing: its own attributes are not all bound yet
            sr.finding("static-unresolved-attr", f"generated code evaluates {ch} which does not exist", program=rec["code"], name=ch)
        for ch in shadowed_module_roots(rec, {schema["module"].split(".")[0]}):
            sr.finding("static-shadowed-module", f"generated code evaluates {ch}", program=rec["code"], name=ch)


def rendered_name(c) -> str:
    """independent re-statement of how the library names a class in generated code"""
    return f"{c.__module__}.{c.__qualname__}"


def real_type_ident(t):
    """what CodeBuilder.get_type_name_identifier really returns for the type t and which object it registers under which
    alias (the method only uses self.ensure_object_imported): -> (rendering, pasted text, alias or None or '<wrong-object>')"""
    from mashumaro.core.meta.code.builder import CodeBuilder
    from mashumaro.core.meta.helpers import type_name

    class _Rec:
        def __init__(self):
            self.reg = []

        def ensure_object_imported(self, obj, name=None):
            self.reg.append((obj, name))
    rec = _Rec()
    text = CodeBuilder.get_type_name_identifier(rec, t)
    if not rec.reg:
        alias = None
    elif len(rec.reg) == 1 and rec.reg[0][0] is t and isinstance(rec.reg[0][1], str):
        alias = rec.reg[0][1]
    else:
        alias = "<wrong-object>"
    return type_name(t), text, alias


def clean(s: str) -> str:
    import re
    return re.sub(r"\W|^(?=\d)", "_", s) if s else "_"


def reachable_by_name(c) -> bool:
    m = sys.modules.get(c.__module__)
    obj = m
    if m is None:
        return False
    for part in c.__qualname__.split("."):
        obj = getattr(obj, part, None)
        if obj is None:
            return False
    return obj is c


def check_rendered_identity(sr: SchemaRun, d: dict):
    """For every schema class C used by a captured program under its rendered name: the name
    must denote C in that program's globals."""
    classes = list(dict.fromkeys(d.get("CLASSES", [])))
    by_render: dict[str, list] = {}
    for c in classes:
        by_render.setdefault(clean(rendered_name(c)), []).append(c)
    for key, cs in by_render.items():
        distinct = list({id(c): c for c in cs}.values())
        if len(distinct) > 1:
            sr.info.append(f"{len(distinct)} distinct classes render as {key}")


def check_identity(sr: SchemaRun, d: dict, inst, back):
    """type(decoded.field) is the annotated class, at the positions listed in IDENT"""
    for holder, fn, c in d.get("IDENT", []):
        if type(inst) is not holder:
            continue
        try:
            a = getattr(inst, fn)
            b = getattr(back, fn)
        except AttributeError:
            continue
        for x, y in _pairs(a, b):
            if type(x) is c and type(y) is not c:
                sr.finding("wrong-class-bound", f"field {holder.__name__}.{fn}: annotation {c!r} (id {id(c):#x}) but decoded object is of {type(y)!r} (id {id(type(y)):#x})",
                           entry=f"{holder.__name__}.from_dict", field=fn, ann=c, got=type(y),
                           winner=_winner(d, holder, fn, type(y)))


def _schema_class_ids(d: dict) -> dict:
    return {id(c): c for c in d.get("CLASSES", []) if isinstance(c, type)}


def check_deep_identity(sr: SchemaRun, d: dict, inst, back, entry: str):
    """at EVERY position of the decoded value (through dataclass fields, lists, tuples, dict values, any depth): an object of a
    schema class (CLASSES) in the encoded value comes back as an object of that very class.  Only for holders the schema demands an
    exact round trip of (ROUNDTRIP): no lossy type (pass_through, strategies, unions decoding to another member) in between."""
    import dataclasses
    if not any(type(inst) is h for h in d.get("ROUNDTRIP", [])):
        return
    known = _schema_class_ids(d)
    if not known:
        return
    seen = set()

    def walk(a, b, path, depth):
        if depth > 10 or len(seen) > 400:
            return
        ta = type(a)
        if id(ta) in known and type(b) is not ta:
            key = (path, id(ta), id(type(b)))
            if key not in seen:
                seen.add(key)
                sr.finding("wrong-class-bound", f"{entry}: at {type(inst).__name__}{path} the value is of {ta!r} (id {id(ta):#x}) but the decoded "
                           f"object is of {type(b)!r} (id {id(type(b)):#x})", entry=entry, field=path, ann=ta, got=type(b),
                           winner=_deep_winner(d, type(inst), path, type(b)))
            return
        if dataclasses.is_dataclass(a) and not isinstance(a, type) and type(b) is ta:
            for f in dataclasses.fields(a):
                if hasattr(a, f.name) and hasattr(b, f.name):
                    walk(getattr(a, f.name), getattr(b, f.name), f"{path}.{f.name}", depth + 1)
        elif isinstance(a, (list, tuple)) and isinstance(b, (list, tuple)) and len(a) == len(b):
            for i, (x, y) in enumerate(zip(a, b)):
                walk(x, y, f"{path}[{i}]", depth + 1)
        elif isinstance(a, dict) and isinstance(b, dict):
            for k in a:
                if k in b:
                    walk(a[k], b[k], f"{path}[{k!r}]", depth + 1)
    walk(inst, back, "", 0)


def _deep_winner(d, holder, path, got) -> str:
    top = path.lstrip(".").split(".")[0].split("[")[0]
    return _winner(d, holder, top, got) if top else "unknown"


def spec_key_cases(t, classes, depth: int = 0) -> list:
    """every specialisation G[args] of a generic DATACLASS inside the annotation t: [name of G, Render.rty terms of the args (None
    when outside the rendering grammar), the real hash_type_args(args), ids of the argument objects].  The model of the key is
    md5(",".join(Render.render arg)) (coq/theories/C17SpecKey.v)."""
    import dataclasses
    import typing
    from harness import c17_render
    out = []
    if depth > 6:
        return out
    origin = typing.get_origin(t)
    args = typing.get_args(t)
    if origin is typing.Annotated and args:
        return spec_key_cases(args[0], classes, depth + 1)
    if origin is not None and isinstance(origin, type) and dataclasses.is_dataclass(origin) and args:
        try:
            from mashumaro.core.meta.helpers import hash_type_args, type_name
            real = hash_type_args(args)
            joined = ",".join(type_name(a) for a in args)
        except Exception as e:   # noqa
            real = joined = f"<{type(e).__name__}>"
        terms = [c17_render.to_rty(a) for a in args]
        out.append([f"{origin.__module__}.{origin.__qualname__}", terms if all(x is not None for x in terms) else None, real,
                    [id(a) for a in args], [repr(a)[:80] for a in args], joined])
    for a in args:
        if a is not Ellipsis and not isinstance(a, (str, int, bytes, bool, float)) and a is not None:
            out += spec_key_cases(a, classes, depth + 1)
    return out


def check_factory_identity(sr: SchemaRun, inst, back):
    """DefaultDict[K, V] with V a class: the factory of the decoded defaultdict is the very class V of the annotation
    (unpack.py pastes a type reference as the factory; since d8ae0ee through get_type_name_identifier)"""
    import collections
    import dataclasses
    import typing
    if not dataclasses.is_dataclass(back) or type(back) is not type(inst):
        return
    try:
        hints = typing.get_type_hints(type(inst), include_extras=False)
    except Exception:
        return
    for fn, t in hints.items():
        if typing.get_origin(t) is not collections.defaultdict:
            continue
        args = typing.get_args(t)
        if len(args) != 2 or not isinstance(args[1], type):
            continue
        y = getattr(back, fn, None)
        if isinstance(y, collections.defaultdict) and y.default_factory is not args[1]:
            got = y.default_factory
            sr.finding("wrong-class-bound", f"field {type(inst).__name__}.{fn}: annotation DefaultDict[.., {args[1]!r}] (id {id(args[1]):#x}) but the factory of the "
                       f"decoded defaultdict is {got!r} (id {id(got):#x})", entry=f"{type(inst).__name__}.from_dict", field=fn, ann=args[1], got=got,
                       winner="unknown")


def check_roundtrip(sr: SchemaRun, d: dict, inst, back, entry: str, wire):
    """for the classes a schema lists in ROUNDTRIP (plain field types, no user code, no lossy option):
    decode(encode(x)) == x, and of the same class - a silently swallowed error shows up here"""
    if type(inst) not in d.get("ROUNDTRIP", []):
        return
    try:
        same = type(back) is type(inst) and back == inst
    except Exception:
        same = False
    if not same:
        sr.finding("roundtrip-mismatch", f"{entry}({_short(wire)[:120]}) returned {_short(back)[:160]} for the encoding of {_short(inst)[:160]}",
                   entry=entry, input=_short(wire), name=type(inst).__name__)


def _winner(d, holder, fn, got) -> str:
    """is the class that was wrongly used the annotation of an earlier or of a later field?"""
    import dataclasses
    order = [f.name for f in dataclasses.fields(holder)]
    mine = order.index(fn) if fn in order else -1
    others = [order.index(f2) for h2, f2, c2 in d.get("IDENT", []) if h2 is holder and c2 is got and f2 in order]
    if others and all(o < mine for o in others):
        return "earlier-field"
    if others and all(o > mine for o in others):
        return "later-field"
    return "unknown"


def _pairs(a, b):
    if isinstance(a, (list, tuple)) and isinstance(b, (list, tuple)) and not hasattr(a, "_fields"):
        yield from zip(a, b)
    elif isinstance(a, dict) and isinstance(b, dict):
        for k in a:
            if k in b:
                yield a[k], b[k]
    else:
        yield a, b


def _exec_aux_module(aname: str, asrc: str):
    """auxiliary user module / package of a multi-module schema ('pkg', 'pkg.sub', ...)"""
    m = types.ModuleType(aname)
    m.__path__ = []          # every one may act as a package
    m.__package__ = aname.rpartition(".")[0] or aname
    sys.modules[aname] = m
    parent, _, child = aname.rpartition(".")
    if parent and parent in sys.modules:
        setattr(sys.modules[parent], child, m)
    builtins.exec(compile(asrc, f"<{aname}>", "exec", dont_inherit=True), m.__dict__)


def cleanup(sr: SchemaRun):
    sys.modules.pop(sr.schema["module"], None)
    for aname, _ in sr.schema.get("aux", []):
        sys.modules.pop(aname, None)


# ---------------------------------------------------------------------------
# classification of findings (signatures for known_findings.d/C17.json) - precise predicates
# ---------------------------------------------------------------------------

def _all_schema_classes(d: dict) -> list:
    out = list(d.get("CLASSES", []))
    for v in list(d.values()):
        if isinstance(v, type) and v not in out:
            out.append(v)
    return out


def classify(f: dict, d: dict, module: str, src: str = "") -> dict:
    """-> signature dict {"kind", "cause", ...}; cause 'other' when no narrow predicate applies"""
    kind = f["kind"]
    name = f.get("name") or ""
    classes = _all_schema_classes(d) if d else []
    if kind == "wrong-class-bound":
        a, b = f.get("ann"), f.get("got")
        cause = "other"
        if a is not None and b is not None and a is not b:
            if rendered_name(a) == rendered_name(b):
                cause = "same-qualname"
            elif clean(rendered_name(a)) == clean(rendered_name(b)):
                cause = "clean-id-collision"
        winner = f.get("winner", "unknown")
        if a is not None and b is not None and "<locals>" not in getattr(a, "__qualname__", ""):
            # module-level names are resolved through the module attribute when the code runs
            if reachable_by_name(b):
                winner = "module-attribute"
            # else: dataclasses are addressed through an alias bound with setdefault -> winner as observed
        return {"kind": "wrong-class-bound", "cause": cause, "winner": winner}
    if kind in ("static-unresolved-attr", "own-AttributeError") and name == "types.Dialect" and "default_dialect=types.Dialect" in (f.get("program") or f.get("what") or ""):
        return {"kind": "unresolved-attr", "cause": "merged-dialect-not-importable"}
    if kind in ("static-unresolved-attr", "own-AttributeError") and name.split(".")[0] == module.split(".")[0] and module.split(".")[0] in SHADOWABLE:
        return {"kind": "unresolved-attr", "cause": "module-name-shadowed", "module_root": module.split(".")[0]}
    if kind in ("static-unresolved-attr", "own-AttributeError"):
        for c in classes:
            if "<locals>" in getattr(c, "__qualname__", "") and name == f"{c.__module__}.{c.__name__}" and "_variants_" in (f.get("program") or f.get("what") or "_variants_"):
                return {"kind": "unresolved-attr", "cause": "local-holder-discriminator-variants"}
        cause = "other"
        for c in classes:
            rn = rendered_name(c)
            if (rn == name or rn.startswith(name + ".") or name.startswith(rn + ".") or name == f"{c.__module__.split('.')[-1]}.{c.__qualname__.split('.')[0]}") and not reachable_by_name(c):
                cause = "class-not-at-qualname"
                break
        if cause == "other" and src and name.startswith(module + "."):
            import re
            x = re.escape(name[len(module) + 1:].split(".")[0])
            if re.search(r"^[ \t]+" + x + r" = (NewType|TypedDict|NamedTuple|enum\.\w+|collections\.namedtuple|make_dataclass)\(['\"]" + x + r"['\"]", src, re.M):
                cause = "class-not-at-qualname"     # functional-API object created inside a function: qualname without '<locals>'
        if cause == "other" and kind == "own-AttributeError":
            root = module.split(".")[0]
            attr = name.split(".")[-1]
            if root in SHADOWABLE and any(c.__qualname__.split(".")[0] == attr and c.__module__ == module for c in classes):
                cause = "module-name-shadowed"
                return {"kind": "unresolved-attr", "cause": cause, "module_root": root}
        return {"kind": "unresolved-attr", "cause": cause}
    if kind == "static-shadowed-module":
        root = module.split(".")[0]
        return {"kind": "unresolved-attr", "cause": "module-name-shadowed" if root in SHADOWABLE else "other", "module_root": root}
    if kind in ("static-unresolved-name", "own-NameError", "own-UnboundLocalError"):
        cause = "other"
        if name.startswith("<forward-ref>"):
            return {"kind": "unresolved-name", "cause": "forward-ref-evaluated-in-builder-globals"}
        prog = f.get("program") or ""
        if prog and name and _only_in_union_type_test(prog, name):
            return {"kind": "unresolved-name", "cause": "union-member-bare-name"}
        for c in classes:
            if c.__module__.split(".")[0] == name and c.__module__ not in sys.modules:
                cause = "class-module-not-importable"
                break
        return {"kind": "unresolved-name", "cause": cause, "name": name if cause != "class-module-not-importable" else "<module root>"}
    if kind == "own-SyntaxError":
        cause = "other"
        if name.lstrip().startswith("CodeBuilder(") and "<locals>" in name:
            cause = "local-class-in-lazy-stub"

        return {"kind": "generated-syntax-error", "cause": cause}
    return {"kind": kind, "cause": "other"}


def _only_in_union_type_test(prog: str, name: str) -> bool:
    """every use of the bare name is the type test a union unpacker emits for a member"""
    import re
    hit = False
    for ln in prog.splitlines():
        if re.search(r"(?<![\w.])" + re.escape(name) + r"\b", ln):
            if not re.fullmatch(r"if (__value_type|type\(value\)) is " + re.escape(name) + r":", ln.strip()):
                return False
            hit = True
    return hit


# names that a schema module's top-level package may collide with: parameters / locals of the
# generated functions and names pre-populated in the builder's globals
SHADOWABLE = {"value", "d", "cls", "self", "dialect", "key", "kwargs", "m", "variant", "MISSING", "Field"}


# ---------------------------------------------------------------------------
# round 3: the namespace as objects (Closed.world), binding expectations, namespace assembly
# ---------------------------------------------------------------------------

IMPORTS: dict[int, dict] = {}     # id(builder.globals) -> {"g0": dict snapshot at first import, "imps": [(name, obj)], "d": the dict}


def install_import_recorder():
    """record every ensure_object_imported / ensure_module_imported call (name, object) per builder namespace,
    by rebinding the two methods on the class at run time (nothing in /repo is edited)"""
    import importlib
    from mashumaro.core.meta.code.builder import CodeBuilder
    if getattr(CodeBuilder, "_c17_recorded", False):
        return
    orig_obj = CodeBuilder.ensure_object_imported
    orig_mod = CodeBuilder.ensure_module_imported

    def _slot(self):
        d = self.globals
        s = IMPORTS.get(id(d))
        if s is None or s["d"] is not d:
            s = {"g0": dict(d), "imps": [], "d": d}
            IMPORTS[id(d)] = s
        return s

    def ensure_object_imported(self, obj, name=None):
        _slot(self)["imps"].append((name or obj.__name__, obj))
        return orig_obj(self, obj, name)

    def ensure_module_imported(self, module):
        s = _slot(self)
        s["imps"].append((module.__name__, module))
        package = module.__name__.split(".")[0]
        s["imps"].append((package, importlib.import_module(package)))
        return orig_mod(self, module)

    CodeBuilder.ensure_object_imported = ensure_object_imported
    CodeBuilder.ensure_module_imported = ensure_module_imported
    CodeBuilder._c17_recorded = True


class Oids:
    """object -> small integer, per schema"""

    def __init__(self):
        self.ids: dict[int, int] = {}
        self.keep: list = []

    def __call__(self, obj) -> int:
        i = self.ids.get(id(obj))
        if i is None:
            i = len(self.ids) + 1
            self.ids[id(obj)] = i
            self.keep.append(obj)
        return i


def _kind(obj) -> str | None:
    if isinstance(obj, types.ModuleType):
        return "KModule"
    if isinstance(obj, type):
        return "KClass"
    if type(obj).__name__ == "AttrsHolder" or (type(obj).__module__ or "").startswith("mashumaro.codecs"):
        return "KHolder"
    return None        # opaque: instances, functions, input values


class _StubInstalled:
    pass


def _is_lazy_stub(code: str) -> bool:
    """def f(...):\n    CodeBuilder(...).add_(un)pack_method()\n    return x.f(...)  - nothing else in the body"""
    try:
        tree = ast.parse(code)
    except SyntaxError:
        return False
    fns = [n for n in tree.body if isinstance(n, ast.FunctionDef)]
    if len(fns) != 1 or len(fns[0].body) != 2:
        return False
    first = fns[0].body[0]
    return isinstance(first, ast.Expr) and "CodeBuilder(" in ast.unparse(first) and isinstance(fns[0].body[1], ast.Return)


def program_world(rec, oid: Oids, heap: dict, classes: list, partial_module_root: str | None = None) -> dict:
    """the objects a program's dotted chains touch: -> {"glob_f", "glob_m", "expect", "chains_unres"}; `heap` (shared per schema)
    is filled with oid -> [kind, {attr: oid}] for the attributes the chains mention (existence by real getattr)"""
    out = {"glob_f": {}, "glob_m": {}, "expect": [], "chains_unres": []}
    try:
        tree = ast.parse(rec["code"])
    except SyntaxError:
        return out
    v = _Chains()
    v.visit(tree)
    gf = real_globals(rec)
    l = rec["l"] if isinstance(rec["l"], dict) else {}
    roots_f: dict[str, object] = {}
    global_loads = set()
    for n in ast.walk(tree):
        if isinstance(n, ast.Name) and isinstance(n.ctx, ast.Load):
            global_loads.add(n.id)
    for root, attrs, in_fn in v.chains:
        if in_fn:
            if root in gf:
                obj = gf[root]
            elif hasattr(builtins, root):
                obj = getattr(builtins, root)
            else:
                continue
            out["glob_f"][root] = oid(obj)
            roots_f[root] = obj
        else:
            if root in l:
                obj = l[root]
            elif root in rec["g"]:
                obj = rec["g"][root]
            elif hasattr(builtins, root):
                obj = getattr(builtins, root)
            else:
                continue
            out["glob_m"][root] = oid(obj)
        path = root
        if partial_module_root is not None and root == partial_module_root:
            continue        # the schema module did not finish executing: its own attributes are not all bound yet
        for a in attrs:
            k = _kind(obj)
            if k is None:
                break
            ent = heap.setdefault(oid(obj), [k, {}])
            try:
                nxt = getattr(obj, a, _SENTINEL)
            except Exception:
                nxt = _SENTINEL
            if nxt is _SENTINEL and a.startswith(("__mashumaro_", "__unpack_", "__pack_")) and _is_lazy_stub(rec["code"]):
                # lazy stub that was never called: the attribute it reads is installed by the CodeBuilder call on the line before
                # (a stated exception: recorded as present, bound to an opaque placeholder)
                nxt = _StubInstalled
                out["stub_installed"] = out.get("stub_installed", 0) + 1
            if nxt is _SENTINEL:
                out["chains_unres"].append(f"{path}.{a}")
                break
            ent[1][a] = oid(nxt)
            obj = nxt
            path += "." + a
    # binding expectations: chains / alias names in this program that are the rendering of a schema class
    fn_chains = [(r, a) for r, a, in_fn in v.chains if in_fn]
    for c in classes:
        try:
            mod, qn = c.__module__, c.__qualname__
        except AttributeError:
            continue
        if not isinstance(mod, str) or not isinstance(qn, str):
            continue
        if "<locals>" not in qn:
            dotted = (mod + "." + qn).split(".")
            root, path = dotted[0], dotted[1:]
            if any(r == root and a[:len(path)] == path for r, a in fn_chains) and root in out["glob_f"]:
                out["expect"].append([root, path, oid(c)])
        alias = clean(mod + "." + qn)
        if alias in global_loads and alias in gf and not any(alias in s for s in []):
            out["glob_f"].setdefault(alias, oid(gf[alias]))
            bound = gf[alias]
            if bound is not c and getattr(bound, "__origin__", None) is c and getattr(bound, "__metadata__", None) is not None:
                # the alias of a local class is bound to the Annotated[...] form of the annotation itself (it forwards attribute access
                # to the class): the name denotes the annotation, not another class
                out["expect"].append([alias, [], oid(bound)])
            elif (bound is not c and isinstance(bound, type) and isinstance(c, type) and bound.__qualname__ == c.__qualname__
                  and bound.__module__ == c.__module__ and "__slots__" in c.__dict__ and "__slots__" not in bound.__dict__):
                # @dataclass(slots=True) re-creates the class after the mixin has compiled it: the class's own methods keep the
                # alias of the pre-slots original (used for its variants registry only); not another user class
                out["expect"].append([alias, [], oid(bound)])
                out["pre_slots"] = out.get("pre_slots", 0) + 1
            else:
                out["expect"].append([alias, [], oid(c)])
    return out


def program_assembly(rec, oid: Oids) -> dict | None:
    """namespace assembly, model input: g0 (restricted to imported names), the recorded imports, and the
    function's real __globals__ on those names"""
    bg = rec["l"].get("globals") if isinstance(rec["l"], dict) else None
    if not isinstance(bg, dict):
        return None
    s = IMPORTS.get(id(bg))
    if s is None or s["d"] is not bg or not s["imps"]:
        return None
    real = real_globals(rec)
    names = list(dict.fromkeys(n for n, _ in s["imps"]))
    return {"g0": [[n, oid(s["g0"][n])] for n in names if n in s["g0"]],
            "imps": [[n, oid(o)] for n, o in s["imps"]],
            "real": [[n, oid(real[n])] for n in names if n in real]}
